"""C41 — compiler directives apply exactly within their scope (structural clauses)."""
import ast

from ..core import Rule, AnalysisError
from ..rules import crash, scoped, sC41, s4C41, s8C41, dD13
from ..engine import tables
from ..engine.pyindex import walk_no_nested

ID = 'C41'
TECHNIQUE = ('path-sensitive save/restore dataflow on the directive-tracking visitors, table-key agreement of the directive tables, finite-kind dispatch evaluation of the directive value parser, scoped-read lint; '
             'path conditions (pyflow) of default stores evaluated as truth tables over the complete value domain of the directive; def-use agreement of the compared and the updated mapping of the decorator filter; '
             'ordered-writer extraction for the layered module directives, for copy_inherited_directives and for the header-comment parser; decision tables (checker-owned evaluator) of the boolean '
             'value parser over the string partition its comparisons induce and of check_directive_scope over Options.directive_scopes x the scope vocabulary; guard dominance of the contents store; '
             'iteration order vs merge policy of the decorator stack; save/restore typestate of generator context managers; '
             'reader/writer agreement of directive reads in tree visitors (origin of the scope object by def-use through locals, visitor state, helper parameters and their call sites; '
             'the set of scopes a directive can be set in from Options.directive_scopes); path enumeration of ModuleNode.merge_in over symbolic values (guard facts vs wrapped / unwrapped tree), '
             'pairing of the (tree, scope) arguments at its call sites')
DECIDES = ('V3: InterpretCompilerDirectives.visit_with_directives and CythonTransform.visit_CompilerDirectivesMixin restore the saved directives on every normal exit; '
           'TABKEYS: keys of directive_scopes, directive_types and immediate_decorator_directives are known directives; L4: every directive key read anywhere is known; '
           'L5: every kind of directive value reachable through parse_directive_list is parsed or rejected with ValueError; '
           'SCOPED: code generation and analysis read directives from the scoped mapping (env.directives / code.globalstate.directives / self.current_directives), never from the global defaults; '
           'C41-UDEF (rules/sC41.py): every literal default stored into a user-supplied directive mapping in the option plumbing (Options / Main / CmdLine / Build / Distutils / pyximport) is reachable only '
           'when the user gave no value - the path condition is unsatisfiable for every explicit value class of the directive (bool: False and True; None only where None is the documented default); '
           'C41-RUN: the "does not change the previous value" filter of InterpretCompilerDirectives compares with the same mapping it updates on the keep path, and that mapping is a private copy; '
           'C41-LAYER: InterpretCompilerDirectives builds the module-level mapping in the order defaults (base) < compilation options (overriding write) < header comments (overriding write) '
           'and hands that mapping to the module node; '
           'C41-BOOLTAB: parse_directive_value maps True/False (relaxed mode: the words it knows, in any letter case) to the boolean they spell, rejects the empty string / non-words with ValueError, '
           'strict mode accepts the two documented spellings only, relaxed mode agrees with strict mode; '
           'C41-SCOPE: check_directive_scope(directive, scope) is True exactly for the scopes Options.directive_scopes lists (everywhere for unlisted directives) and reports an error otherwise '
           '(52 listed directives x 6 scopes); C41-UNKNOWN: parse_directive_list raises for a name that is no directive unless the leniency flag the header parser passes is set; '
           'C41-CONTENTS: a directive reaches the mapping for the *contents* of a decorated object only on paths that exclude Options.immediate_decorator_directives, and the node wrapped around the '
           'body carries the mapping built from **contents_directives; C41-INHERIT: copy_inherited_directives returns a private copy of the outer mapping overridden by the new directives; '
           'C41-HEADER: every parsed `# cython:` line is merged into the mapping p_compiler_directive_comments returns; C41-DECORDER: bottom-up iteration over the decorators with last-wins merging '
           '(or the mirror image): the decorator written first wins; C41-CTX: generator context managers that rebind an attribute of their argument (apply_directives: obj.directives) restore it after the yield; '
           'C41-ENVREAD (rules/s4C41.py): a constant-key directive read in a method of a tree visitor / transform (Visitor.TreeVisitor subclasses) that goes through an enclosing environment '
           '(`env.directives`, self.current_env(), env_stack[-1], a scope parameter whose callers pass one of these, a local alias of the mapping, or the mapping handed as a whole to a resolved '
           'helper that reads the key) names a directive that Options.directive_scopes confines to scopes without "with statement"; reads through self.current_directives, through the visited '
           'node\'s own scope (node.scope / node.local_scope, also when stored in visitor state in the same method) or the visited directives node itself are exact; '
           'C41-MERGE: on every path of ModuleNode.merge_in the foreign tree reaches a statement list of the receiver either wrapped in a CompilerDirectivesNode whose directives are (a copy of) the '
           'foreign scope\'s mapping and whose body is the foreign tree, or behind a fact that the foreign scope\'s directives equal (or are) the receiver\'s; every other CompilerDirectivesNode built in '
           'ModuleNode takes body and directives from the same side; every caller of merge_in passes a tree with the scope it was unpacked / taken from, never the scope of the receiver.')
NOT_DECIDED = ('the precedence of header / command line / cythonize options as far as it is established outside the sites above (CmdLine parsing, Dependencies merging per-module options, '
               'accumulation of repeated -X options), the meaning of repeated list-typed directives (accumulate vs replace), which of warning / error a repeated header directive gets, '
               'the scope literal each visit_* handler passes to check_directive_scope, non-boolean value parsers (int / one_of / encoding names), and everything observed at run time; '
               'C41-ENVREAD does not decide reads with a computed key, a scope-level read of a directive confined to function scope when the scope is the one ENCLOSING a visited def (its decorators are missed), '
               'whole mappings inherited from a scope (IterationTransform._transform_indexable_iteration builds the directives of its bounds-check-free target assignment from env.directives: listed as info), '
               'nor SimpleAssignmentTypeInferer (infer_types is read per scope by design); C41-MERGE does not decide other ways code could travel between modules (fused / utility code copied by TreeFragment).')

# ---- eighth round (sa/rules/s8C41.py) ----------------------------------------------------------------------------------------------------------------
TECHNIQUE += ('; (round 8) whole-program may-alias propagation of the process-wide directive tables of Options (path-sensitive per function, through locals, self fields, '
              'record entries, return values and arguments of resolved calls) with every in-place write through an alias as the sink')
DECIDES += (' ROUND 8 - C41-SHARED: no in-place write (item store / del, update / setdefault / pop / clear / append ..., augmented assignment) reaches one of the module-level '
            'directive tables of Options.py (_directive_defaults = what get_directive_defaults() returns, directive_types, directive_scopes, immediate_decorator_directives) '
            'through a local, a self field, a record entry published by self.__dict__.update, a return value or a parameter of a resolved callee, on any path; '
            'C41-PRIVATE: the module-level mapping InterpretCompilerDirectives.__init__ stores in self.directives is a fresh object on every path (neither such a table nor a '
            'mapping handed in by the caller). C41-LAYER now resolves local aliases of the layers and a mapping built by a helper method.')
NOT_DECIDED += (' ROUND 8 - C41-SHARED does not follow the table through attributes of other objects (`context.compiler_directives[...] = v` outside the class that stored it), '
                'containers other than a local record with constant keys, closures, or unresolved callees (listed as info); shallow copies sharing list-typed directive values are not decided.')

EXEMPT = {('C41-SHARED', 'Options.get_directive_defaults:_directive_defaults'):
          'the accessor folds the legacy module-level options (Options.<name> = value set by the user for the whole process) into the defaults table: process-wide by design, '
          'no per-file or per-compilation value is involved'}

MUTATIONS = [
    # (file, edit, expected rule / observed) -- tried on /tmp/strengthen/G9/scr
    ('Cython/Compiler/Options.py', "seed C41a: configure_language_defaults `.get('binding') is None` -> `not .get('binding')`", 'C41-UDEF: caught (explicit False overwritten)'),
    ('Cython/Compiler/Options.py', "configure_language_defaults: guard dropped, `self.compiler_directives['binding'] = True` for every .py", 'C41-UDEF: caught (unguarded)'),
    ('Cython/Compiler/Options.py', "configure_language_defaults: guard `self.compiler_directives.get('binding', True)`", 'C41-UDEF: caught (explicit True is harmless, reported because the path is open for it)'),
    ('pyximport/pyxbuild.py', "`elif 'set_initial_path' not in ext.cython_directives` -> `elif not ext.cython_directives.get('set_initial_path')`", 'C41-UDEF: caught'),
    ('Cython/Build/Inline.py', "`language_level is None and 'language_level' not in cython_compiler_directives` -> `language_level is None`", 'C41-UDEF: caught (default 3 overrides the mapping)'),
    ('Cython/Compiler/ParseTreeTransforms.py', 'seed C41b: _extract_directives compares with self.directives.get(name, missing)', 'C41-RUN: caught'),
    ('Cython/Compiler/ParseTreeTransforms.py', '_extract_directives: `current_opt_dict[name] = value` removed', 'C41-RUN: caught (running state never recorded)'),
    ('Cython/Compiler/ParseTreeTransforms.py', '_extract_directives: `current_opt_dict = dict(self.directives)` -> `current_opt_dict = self.directives`', 'C41-RUN: caught (alias: decorator leaks into the enclosing scope)'),
    ('Cython/Compiler/ParseTreeTransforms.py', '__init__: options merged with `directives.setdefault(str(key), ...)`', 'C41-LAYER: caught'),
    ('Cython/Compiler/ParseTreeTransforms.py', '__init__: base = copy of the options, then `directives.update(defaults)`', 'C41-LAYER: caught (order)'),
    ('Cython/Compiler/ParseTreeTransforms.py', 'visit_ModuleNode: `self.directives.update(node.directive_comments)` -> loop with setdefault', 'C41-LAYER: caught'),
    ('Cython/Compiler/ParseTreeTransforms.py', 'visit_ModuleNode: the update of the header comments removed', 'C41-LAYER: caught (missing layer)'),
    # --- fourth round: see /verif/mutants/C41/*/meta.json (29 mutants: 20 breaking, 9 behaviour preserving), replayed by the thorough tier
    # --- sixth round (seeds C41g, C41h): /verif/mutants/C41/{envread_*,merge_*}/meta.json (19 breaking: all reported; 15 behaviour preserving: silent)
    ('Cython/Compiler/ModuleNode.py', 'seed C41g: merge_in wraps the merged .pxd tree in self.scope.directives', 'C41-MERGE wrapper:directives: caught'),
    ('Cython/Compiler/ModuleNode.py', 'merge_in: guard inverted / compares self with self / restricted to stage == "utility" / wrapper bound to an unused local / wrapping moved behind the append', 'C41-MERGE unwrapped: caught'),
    ('Cython/Compiler/Pipeline.py', 'inject_pxd_code_stage passes module_node.scope as the scope of the merged tree', 'C41-MERGE caller: caught'),
    ('Cython/Compiler/ParseTreeTransforms.py', "seed C41h: _synthesize_assignment reads binding from env.directives (also: genv, self.current_env(), a local alias, a helper parameter, a module-level helper given env.directives, a key held in a local)", 'C41-ENVREAD: caught'),
    ('Cython/Compiler/Optimize.py', 'SwitchTransform / InlineDefNodeCalls read optimize.* from self.current_env().directives', 'C41-ENVREAD: caught'),
    ('Cython/Compiler/AutoDocTransforms.py', 'EmbedSignature.visit_DefNode reads embedsignature from node.entry.scope.directives', 'C41-ENVREAD: caught'),
    ('Cython/Compiler/ModuleNode.py', 'merge_in: aliases / flag local / if-else with a new local / helper method with early return / unconditional wrapper / `is not` guard / .copy() of the foreign mapping', None),
    ('Cython/Compiler/FlowControl.py', 'check_definitions(self.flow, self.env.directives) with self.env = node.local_scope set in the same method (own scope)', None),
    # behaviour preserving (all silent)
    ('Cython/Compiler/Options.py', "configure_language_defaults: early-return form, local alias `d = self.compiler_directives`, `'binding' not in d or d['binding'] is None`", None),
    ('Cython/Compiler/Options.py', "configure_language_defaults: `self.compiler_directives.setdefault('binding', True)` (None is not an explicit value of binding)", None),
    ('Cython/Compiler/ParseTreeTransforms.py', '_extract_directives: current_opt_dict renamed, filter inverted into `if state.get(name, missing) == value: warn; continue`', None),
    ('Cython/Compiler/ParseTreeTransforms.py', '_extract_directives: `current_opt_dict = self.directives.copy()`, append and store swapped', None),
    ('Cython/Compiler/ParseTreeTransforms.py', '__init__: `directives.update({str(k): copy.deepcopy(v) for k, v in compilation_directive_defaults.items()})`', None),
]


def rule_tabkeys(ctx):
    r = Rule('TABKEYS', 'keys of directive_scopes / directive_types / immediate_decorator_directives are directives with a default', floor=40)
    tree = ctx.parse('Cython/Compiler/Options.py')
    dd = tables.module_assign(tree, '_directive_defaults')
    keys = {k.value for k in dd.keys if isinstance(k, ast.Constant)}
    dt = tables.module_assign(tree, 'directive_types')
    tkeys = {k.value for k in dt.keys if isinstance(k, ast.Constant)}
    known = keys | tkeys
    for name in ('directive_scopes', 'immediate_decorator_directives'):
        v = tables.module_assign(tree, name)
        if v is None:
            raise AnalysisError('Options.%s vanished' % name)
        ks = []
        if isinstance(v, ast.Dict):
            ks = [(k.value, k.lineno) for k in v.keys if isinstance(k, ast.Constant)]
        elif isinstance(v, (ast.Set, ast.List, ast.Tuple)):
            ks = [(e.value, e.lineno) for e in v.elts if isinstance(e, ast.Constant)]
        for k, line in ks:
            r.inst('%s[%s]' % (name, k), sample='%s: %s' % (name, k))
            if k not in known:
                r.violate('Options.%s:%s' % (name, k), 'Cython/Compiler/Options.py', line, '%s names %r, which is not a directive (typo): the scope restriction / immediate handling never applies' % (name, k))
    # scope names are from the documented set
    sc = tables.module_assign(tree, 'directive_scopes')
    allowed = {'module', 'function', 'class', 'cclass', 'with statement'}
    for k, v in zip(sc.keys, sc.values):
        val = tables.literal(v)
        vals = (val,) if isinstance(val, str) else (val or ())
        for s in vals:
            r.inst('scope:%s:%s' % (k.value, s), nontrivial=False)
            if s not in allowed:
                r.violate('Options.directive_scopes:%s:%s' % (k.value, s), 'Cython/Compiler/Options.py', k.lineno, 'directive %r is restricted to unknown scope %r' % (k.value, s))
    return r


def rule_scoped_reads(ctx):
    """Node/transform code must not consult the global defaults for a directive value."""
    ix = ctx.index
    r = Rule('SCOPED', 'no node or transform method reads a directive from Options._directive_defaults / get_directive_defaults() instead of the scoped directives mapping', floor=1)
    n_ok = 0
    for ms in ('Nodes', 'ExprNodes', 'Optimize', 'ModuleNode', 'FlowControl', 'TypeInference', 'MatchCaseNodes', 'UtilNodes', 'FusedNode', 'Buffer', 'MemoryView'):
        m = ix.mod(ms)
        for qn, owner, fn in ix.functions_of(m):
            for n in walk_no_nested(fn):
                bad = None
                if isinstance(n, ast.Subscript) and isinstance(n.slice, ast.Constant) and isinstance(n.slice.value, str):
                    v = ast.unparse(n.value)
                    if '_directive_defaults' in v or 'get_directive_defaults()' in v:
                        bad = v
                if isinstance(n, ast.Call) and isinstance(n.func, ast.Attribute) and n.func.attr == 'get' and ('_directive_defaults' in ast.unparse(n.func.value) or 'get_directive_defaults()' in ast.unparse(n.func.value)):
                    bad = ast.unparse(n.func.value)
                if bad:
                    r.inst('%s.%s' % (ms, qn))
                    r.violate('%s.%s:global-directive-read' % (ms, qn), m.rel, n.lineno, '%s.%s reads a directive from the global defaults (%s): decorators / with-blocks / header comments are ignored at this site' % (ms, qn, bad))
                elif isinstance(n, ast.Subscript) and ast.unparse(n.value).endswith('directives') and isinstance(n.slice, ast.Constant):
                    n_ok += 1
    r.inst('scoped-reads', sample='%d directive reads go through a scoped mapping' % n_ok)
    return r


def run(ctx):
    return [scoped.rule_V3_attr(ctx), rule_tabkeys(ctx), crash.rule_L4(ctx), crash.rule_L5(ctx), rule_scoped_reads(ctx),
            sC41.rule_UDEF(ctx), sC41.rule_RUN(ctx), sC41.rule_LAYER(ctx),
            sC41.rule_BOOLTAB(ctx), sC41.rule_SCOPE(ctx), sC41.rule_CONTENTS(ctx), sC41.rule_INHERIT(ctx), sC41.rule_HEADER(ctx), sC41.rule_DECORDER(ctx), sC41.rule_CTX(ctx), sC41.rule_UNKNOWN(ctx),
            s4C41.rule_ENVREAD(ctx), s4C41.rule_MERGE(ctx), s8C41.rule_SHARED(ctx), s8C41.rule_PRIVATE(ctx),
            dD13.rule_DEFEMIT(ctx)]      # C41-DEFEMIT (rules/dD13.py), armed after the repair 02f8797df
