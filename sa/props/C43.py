"""C43 — the compiler never crashes (structural clause: internal-error lints over the whole compiler package)."""
from ..rules import crash, iface, tree, gen, gen2, handlers
from . import C09

ID = 'C43'
TECHNIQUE = ('whole-package resolved-name lints (attribute/method/module resolution through the class graph), format-arity and table-key checks, dispatch exhaustiveness by finite-kind evaluation, dataflow pairing rules whose violation is an internal error; '
             'coupled-state invariant of the scanner (transition-method discovery, guard truth table over the counter abstraction {0, 1, >=2}, sole-writer check); '
             'writer/reader agreement on the payload (.args shape, attributes) of nominally typed compiler exceptions, also through parameters that receive them; '
             'token language vs converter domain for numeric literals: character classes of the lexer (Lexicon Any(...) sets reachable from the INT / IMAG patterns) against the '
             'functions that inspect the literal text - partial evaluation of each function for either case of a marker letter and comparison of the residual programs, path walk of the '
             'C-spelling function per Python-only prefix, suffix-class vs strip-loop agreement, guard truth table per non-octal digit; '
             'pairing on every normal path (pyflow) of the counter transition methods in their callers; push/pop of the held-error stack in a finally block; '
             'Optional-result typestate (a function with a None-returning path: ordering / arithmetic on its result needs a dominating None test); '
             'acceptor automaton of the item-list parser functions (call / class-header arguments, set / dict displays): the function code is evaluated by the checker\'s AST evaluator over a model '
             'scanner whose tokens are item kinds, explored completely over (abstraction of all locals x item kinds seen), and compared with the running interpreter\'s own parser on the same shapes; '
             'cut decision table of the C literal splitter over all escape-token shape sequences (rule C11-CUT of C11)')
DECIDES = ('L1: every self.method(...) call resolves in the inheritance cone; L2: every Module.attr reference to a Cython module resolves; L3: literal %-format templates match their argument tuples/dicts; '
           'L4: directive keys are known to Options.py; L5: parse_directive_value handles every reachable kind of directive type with a return or ValueError; '
           'I1/I2: every utility section loaded or required exists; V1/V2: transform handlers name existing node classes and always return a node; HARG: optimisation handlers never index past their argument list; '
           'G2/G4: temps are released and labels placed (violations raise internal TEMPGUARD errors / produce C that does not compile); LEX1: leading-zero decimal literals are rejected before conversion; '
           'C43-COUPLE (rules/sC43.py): the scanner counter whose 0<->1 transitions install / remove keywords (async_enabled <-> async/await in keywords, discovered from the transition methods) is written only by '
           'its transition methods and as the constant 0 over a fresh keyword table without those keys; the increment method installs the keys on 0->1, the decrement method removes the same keys exactly on 1->0; '
           'C43-EXCSHAPE: every .args[i] / .args unpacking / attribute read on a variable of nominally known exception class (except <Class> as e; elements of held-error lists from Errors.hold_errors()/held_errors() '
           'or a context manager yielding them, e.g. Scanning.tentatively_scan; parameters of compiler functions that receive such a variable at a call site, e.g. Errors.report_error(err)) '
           'fits the payload the __init__ chain of the class establishes; '
           'C43-LEXCASE: every function that sees the text of an INT token (IntNode methods on self.value, the parser function that builds IntNode(value=<systring>), and the functions they '
           'pass it to: Utils.str_to_number, strip_py2_long_suffix), specialised for "the inspected character is c" and for "... is C" (c/C the two cases of a letter the lexer accepts in one '
           'Any() class: xX oO bB uU lL), leaves the same residual program; '
           'C43-CPREFIX: in the IntNode method that spells the literal for the C file every path taken by a Python-only prefix letter (lexer prefix classes minus C99\'s x/X) converts the text '
           'before returning it; C43-LEXSUFFIX: the suffix letters the lexer accepts at the end of INT / IMAG tokens are all stripped before IntNode / ImagNode get the text (strip loop / [:-1]); '
           'C43-OCTDIGIT: for each digit of the lexer\'s decimal class that the base of the leading-zero conversion (int(text, 8)) lacks, the parser\'s error guard is not false; '
           'C43-PAIR: every caller of the increment method of C43-COUPLE (enter_async) calls the decrement (exit_async) on every normal path and never the decrement alone; '
           'C43-HOLD: a list pushed on the error stack (Errors.hold_errors) is popped in the finally block that directly follows the push. '
           'C43-ITEMSEQ (rules/s7C43.py): for p_call_parse_args (in each configuration its callers use: call, class header) and p_dict_or_set_maker, every sequence of item kinds '
           '(positional, *iterable, **mapping, name=value, (expr)=value, generator argument; item, key: value, *, **, comprehension) that CPython\'s parser accepts is accepted by the function, '
           'with and without trailing comma, and the function raises nothing but the scanner\'s error - decided for ALL sequences: the exploration closes over the abstract states of the function\'s locals; '
           'C11-CUT (rules/sC11.py, shared with C11): split_string_literal puts the `""` separator between escape tokens only, so no chunk of a long C literal ends in an unfinished escape '
           '(an escaped closing quote = C file the C compiler rejects). '
           'C43-LEXSTATE (rules/s9C43.py): product automaton lexicon state x f-/t-string prescan counter {0, 1, >=2}; the action methods bound in each state (table parsed from Lexicon.make_lexicon) are executed '
           'symbolically from the initial state; no action leaves the scanner in the default token state while a replacement field is being pre-scanned (counter >= 1); '
           'C43-JOINGUARD: a sep.join(<local list>) whose path condition depends on a None test of one element / a slice / the element variable / a parallel list / any() and not on an exclusion '
           'of None from the whole list is reported (truth-table expansion of the path condition over its atoms). '
           'Written but NOT armed (pending finding FINDING_1, it reports PyrexScanner.close_bracket_action on the unmodified tree): C43-NONEORD - the result of a function that returns None '
           'on one path and a value on another is an operand of < <= > >= / arithmetic only behind a test that excludes None.')
NOT_DECIDED = ('"accepts every valid Python program" and crashes that depend on run-time values of the compiled program or on the C compiler; '
               'exception objects whose class is not nominally visible (results of calls, parameters no call site types) and the *meaning* of each .args position; '
               'Optional results used through attribute access, iteration, membership or calls (C43-NONEORD looks at ordering and arithmetic only, and is not armed); '
               'the policy decisions of Pipeline.run_pipeline (when an InternalError is re-raised, that a CompileError is reported exactly once) - mutants pipeline_* are missed; '
               'C43-ITEMSEQ: what the expression sub-parsers accept (they are modelled as "consume one expression"); item orders that CPython rejects and Cython accepts (info only); '
               'parameter lists of def / lambda (p_c_arg_list parses C declarators, outside the model); the congruence of the state abstraction is checked on a second representative prefix per state, not proved; '
               'C11-CUT: transfer of the decision table from limits 6 / 7 to the production limit 2000 (see rules/sC11.py); '
               'C43-JOINGUARD: a join with no None test at all in its path condition (mutant joinguard_test_dropped: needs the kind -> Optional-slot correlation of p_string_literal); '
               'C43-LEXSTATE: which FT string state is re-entered (all generated states are one abstract state), bracket-level conditions (explored both ways); '
               'string / float literal text (C43-LEXCASE follows INT token text only); whether the bytes of a scanner error are rewound by tentatively_scan.')
ASSUMPTIONS = [
    'C43-EXCSHAPE: the elements of a held-error list are instances of the classes Errors constructs and hands to report_error() (CompileError), or of subclasses, whose own __init__ is checked too',
    'C43-COUPLE: the counter is a nesting depth (never negative); the value 2 of the abstraction stands for every value >= 2, guards that compare with larger constants are reported as undecided (info)',
    'C43-LEXCASE / C43-CPREFIX: both spellings of a marker letter denote the same literal (PEP 3127), so a syntactic difference of the residual programs is a behavioural difference; '
    'C99 6.4.4.1 integer prefixes are 0x / 0X and the bare leading 0 (frozen in rules/sC43.py: C99_PREFIX_LETTERS)',
    'C43-EXCSHAPE (parameters): call sites that pass an argument of unknown class pass the same kind of exception as the typed ones',
    'C43-ITEMSEQ: the order rules of call arguments and display items are rules of CPython\'s grammar (the reference is compile(..., PyCF_ONLY_AST) of the running interpreter, 3.12); '
    'CPython\'s own memory of a prefix is a function of the set of item kinds it contains (the exploration key pairs that set with the abstract state of the Cython function)',
    'C43-PAIR: exits by exception (a fatal parser error) abort the compilation and need no pairing',
]

MUTATIONS = [
    # (file, edit, expected rule / observed) -- tried on /tmp/strengthen/G9/scr
    ('Cython/Compiler/Scanning.py', 'seed C43a: nested scanner copies parent_scanner.async_enabled instead of calling enter_async()', 'C43-COUPLE: caught (write in __init__)'),
    ('Cython/Compiler/Scanning.py', 'enter_async: `if self.async_enabled == 1` -> `== 2`', 'C43-COUPLE enter: caught'),
    ('Cython/Compiler/Scanning.py', "exit_async: `del self.keywords['await']` removed", 'C43-COUPLE keys: caught'),
    ('Cython/Compiler/Scanning.py', 'exit_async: `if not self.async_enabled` -> `if self.async_enabled`', 'C43-COUPLE exit + exit-early: caught'),
    ('Cython/Compiler/Parsing.py', 'p_def_statement: `s.enter_async()` -> `s.async_enabled += 1`', 'C43-COUPLE external write: caught'),
    ('Cython/Compiler/Scanning.py', "py_reserved_words gains 'async'", 'C43-COUPLE fresh-table: caught'),
    ('Cython/Compiler/Errors.py', 'seed C43b: CompileError.__init__ no longer sets self.args = (position, message)', 'C43-EXCSHAPE: caught (Parsing.p_patterns e.args[1], Parsing.p_pattern errors[0].args[1])'),
    ('Cython/Compiler/Errors.py', 'CompileError.__init__: `self.args = (position, message)` -> `self.args = (message,)`', 'C43-EXCSHAPE: caught'),
    ('Cython/Compiler/Parsing.py', 'p_patterns: `s.error(e.args[1], pos=e.args[0])` -> `e.args[2]`', 'C43-EXCSHAPE: caught'),
    ('Cython/Compiler/Errors.py', 'CompileError.__init__: self.message_only renamed self.message', 'C43-EXCSHAPE (Nodes.MemoryViewSliceTypeNode.analyse e.message_only): caught'),
    # --- fourth round: see /verif/mutants/C43/*/meta.json (32 mutants: 22 breaking, 10 behaviour preserving), replayed by the thorough tier
    ('Cython/Compiler/ExprNodes.py', "seed C43c: value_as_c_integer_string `literal_type in 'oO'` -> `== 'o'`", 'C43-LEXCASE + C43-CPREFIX: caught'),
    ('Cython/Compiler/Scanning.py', 'seed C43d: _handle_close_single_ft_string_brace compares with the Optional bracket level without the None test', 'C43-NONEORD reports it when armed (pending FINDING_1)'),
    # --- round 7: /verif/mutants/C43/cut_* and seq_* (21 mutants: 13 breaking, all reported; 8 behaviour preserving, all silent)
    ('Cython/Compiler/StringEncoding.py', 'seed C43i: split_string_literal walks back over ONE preceding backslash only', 'C11-CUT: caught'),
    ('Cython/Compiler/Parsing.py', 'seed C43j: p_call_parse_args tests keyword_args instead of the ** flag before *iterable', 'C43-ITEMSEQ p_call_parse_args:star-after-kw:rejected: caught'),
    # --- round 9: /verif/mutants/C43/lexstate_* and joinguard_* (14 mutants: 10 breaking, 9 reported; 4 behaviour preserving, all silent)
    ('Cython/Compiler/Scanning.py', 'seed C43m: end_ft_string_action always returns to the default state', 'C43-LEXSTATE: caught'),
    ('Cython/Compiler/Parsing.py', 'seed C43n: p_cat_string_literal tests bstrings[0] only before b\'\'.join(bstrings)', 'C43-JOINGUARD: caught'),
    # behaviour preserving (all silent)
    ('Cython/Compiler/Scanning.py', 'enter_async: test on the old value before the increment (`if self.async_enabled == 0: ...; self.async_enabled += 1`), keys installed with self.keywords.update({...})', None),
    ('Cython/Compiler/Scanning.py', 'exit_async: `if self.async_enabled == 0:` / `< 1`, keys removed with self.keywords.pop()', None),
    ('Cython/Compiler/Errors.py', 'CompileError.__init__: `Exception.__init__(self, position, message)` and no explicit self.args', None),
    ('Cython/Compiler/Parsing.py', 'p_pattern: `first = errors[0]; return Nodes.ErrorNode(first.args[0], what=first.args[1])`', None),
]

_D = 'dead code: slice assignment to memoryviews is routed through MemoryCopyNode, MemoryViewSliceNode.generate_assignment_code is never reached; '
EXEMPT = {
    ('L1', 'ExprNodes.MemoryViewSliceNode.generate_assignment_code:self.generate_memoryviewslice_setslice_code'): _D + 'the two helper methods were removed',
    ('L1', 'ExprNodes.MemoryViewSliceNode.generate_assignment_code:self.generate_memoryviewslice_assign_scalar_code'): _D + 'the two helper methods were removed',
    ('L1', 'ExprNodes.SizeofVarNode.analyse_types:self.check_type'): 'the instance re-classes itself (`self.__class__ = SizeofTypeNode`) on the line before; SizeofTypeNode defines check_type',
}


def run(ctx):
    from ..rules import scopeapi, crash2, sC43, dD6, sC11, s7C43, dD8, s9C43
    return [crash.rule_L1(ctx), crash.rule_L2(ctx), crash.rule_L3(ctx), crash.rule_L4(ctx), crash.rule_L5(ctx), crash.rule_L7(ctx),
            iface.rule_I1(ctx), iface.rule_I2(ctx), tree.rule_V1_visit(ctx), tree.rule_V2(ctx), handlers.rule_arg_guards(ctx),
            gen2.rule_G2(ctx), gen.rule_G4(ctx), C09.rule_leading_zero(ctx), scopeapi.rule_L8(ctx), crash2.rule_L9(ctx), crash2.rule_L10(ctx),
            sC43.rule_COUPLE(ctx), sC43.rule_EXCSHAPE(ctx), sC43.rule_LEXCASE(ctx), sC43.rule_CPREFIX(ctx),
            sC43.rule_LEXSUFFIX(ctx), sC43.rule_OCTDIGIT(ctx), sC43.rule_PAIR(ctx), sC43.rule_HOLD(ctx),
            sC43.rule_NONEORD(ctx),     # found PyrexScanner.close_bracket_action comparing a None nesting level (repaired: 921d6e3cf)
            sC11.rule_cut(ctx),         # the cut decision of split_string_literal (rule of C11): a `""` separator inside an escape leaves an unterminated C literal (seed C43i)
            s7C43.rule_ITEMSEQ(ctx),
            s9C43.rule_LEXSTATE(ctx), s9C43.rule_JOINGUARD(ctx),     # round 9 (rules/s9C43.py): seeds C43m, C43n
            dD8.rule_BITWIDTH(ctx), dD8.rule_CFLOAT(ctx), dD8.rule_INTLIMIT(ctx), dD8.rule_DOCTYPE(ctx),     # round 7 (rules/dD8.py), armed after the repairs 413d857dd, 0aef96ca8, 83d376d1d, ebf661440
            dD8.rule_NESTDEPTH(ctx),    # known finding K20 (parser recursion depth)
            dD6.rule_DEFERRED(ctx),     # found PostParse.visit_ErrorNode returning None / match handlers validating before visiting (repaired: efc8b7b65)
            # dD6.rule_TOKERR (tokenizer errors discarded by tentatively_scan: `with ('abc<newline>): pass` compiles silently) is NOT registered: accepting an invalid
            # text without a message is outside the property as stated (it demands no crash, and acceptance of what CPython accepts); see SIDE_FINDINGS.md
            ]
