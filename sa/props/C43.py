"""C43 — the compiler never crashes (structural clause: internal-error lints over the whole compiler package)."""
from ..rules import crash, iface, tree, gen, gen2, handlers
from . import C09

ID = 'C43'
TECHNIQUE = 'whole-package resolved-name lints (attribute/method/module resolution through the class graph), format-arity and table-key checks, dispatch exhaustiveness by finite-kind evaluation, dataflow pairing rules whose violation is an internal error'
DECIDES = ('L1: every self.method(...) call resolves in the inheritance cone; L2: every Module.attr reference to a Cython module resolves; L3: literal %-format templates match their argument tuples/dicts; '
           'L4: directive keys are known to Options.py; L5: parse_directive_value handles every reachable kind of directive type with a return or ValueError; '
           'I1/I2: every utility section loaded or required exists; V1/V2: transform handlers name existing node classes and always return a node; HARG: optimisation handlers never index past their argument list; '
           'G2/G4: temps are released and labels placed (violations raise internal TEMPGUARD errors / produce C that does not compile); LEX1: leading-zero decimal literals are rejected before conversion.')
NOT_DECIDED = '"accepts every valid Python program" and crashes that depend on run-time values of the compiled program or on the C compiler.'

_D = 'dead code: slice assignment to memoryviews is routed through MemoryCopyNode, MemoryViewSliceNode.generate_assignment_code is never reached; '
EXEMPT = {
    ('L1', 'ExprNodes.MemoryViewSliceNode.generate_assignment_code:self.generate_memoryviewslice_setslice_code'): _D + 'the two helper methods were removed',
    ('L1', 'ExprNodes.MemoryViewSliceNode.generate_assignment_code:self.generate_memoryviewslice_assign_scalar_code'): _D + 'the two helper methods were removed',
    ('L1', 'ExprNodes.SizeofVarNode.analyse_types:self.check_type'): 'the instance re-classes itself (`self.__class__ = SizeofTypeNode`) on the line before; SizeofTypeNode defines check_type',
}


def run(ctx):
    from ..rules import scopeapi, crash2
    return [crash.rule_L1(ctx), crash.rule_L2(ctx), crash.rule_L3(ctx), crash.rule_L4(ctx), crash.rule_L5(ctx), crash.rule_L7(ctx),
            iface.rule_I1(ctx), iface.rule_I2(ctx), tree.rule_V1_visit(ctx), tree.rule_V2(ctx), handlers.rule_arg_guards(ctx),
            gen2.rule_G2(ctx), gen.rule_G4(ctx), C09.rule_leading_zero(ctx), scopeapi.rule_L8(ctx), crash2.rule_L9(ctx), crash2.rule_L10(ctx)]
