"""C43 — the compiler never crashes (structural clause: internal-error lints over the whole compiler package)."""
from ..rules import crash, iface, tree, gen, gen2, handlers
from . import C09

ID = 'C43'
TECHNIQUE = ('whole-package resolved-name lints (attribute/method/module resolution through the class graph), format-arity and table-key checks, dispatch exhaustiveness by finite-kind evaluation, dataflow pairing rules whose violation is an internal error; '
             'coupled-state invariant of the scanner (transition-method discovery, guard truth table over the counter abstraction {0, 1, >=2}, sole-writer check); '
             'writer/reader agreement on the payload (.args shape, attributes) of nominally typed compiler exceptions')
DECIDES = ('L1: every self.method(...) call resolves in the inheritance cone; L2: every Module.attr reference to a Cython module resolves; L3: literal %-format templates match their argument tuples/dicts; '
           'L4: directive keys are known to Options.py; L5: parse_directive_value handles every reachable kind of directive type with a return or ValueError; '
           'I1/I2: every utility section loaded or required exists; V1/V2: transform handlers name existing node classes and always return a node; HARG: optimisation handlers never index past their argument list; '
           'G2/G4: temps are released and labels placed (violations raise internal TEMPGUARD errors / produce C that does not compile); LEX1: leading-zero decimal literals are rejected before conversion; '
           'C43-COUPLE (rules/sC43.py): the scanner counter whose 0<->1 transitions install / remove keywords (async_enabled <-> async/await in keywords, discovered from the transition methods) is written only by '
           'its transition methods and as the constant 0 over a fresh keyword table without those keys; the increment method installs the keys on 0->1, the decrement method removes the same keys exactly on 1->0; '
           'C43-EXCSHAPE: every .args[i] / .args unpacking / attribute read on a variable of nominally known exception class (except <Class> as e; elements of held-error lists from Errors.hold_errors()/held_errors() '
           'or a context manager yielding them, e.g. Scanning.tentatively_scan) fits the payload the __init__ chain of the class establishes.')
NOT_DECIDED = ('"accepts every valid Python program" and crashes that depend on run-time values of the compiled program or on the C compiler; the pairing of enter_async()/exit_async() calls in the parser; '
               'exception objects whose class is not nominally visible (parameters, results of calls) and the *meaning* of each .args position.')
ASSUMPTIONS = [
    'C43-EXCSHAPE: the elements of a held-error list are instances of the classes Errors constructs and hands to report_error() (CompileError), or of subclasses, whose own __init__ is checked too',
    'C43-COUPLE: the counter is a nesting depth (never negative); the value 2 of the abstraction stands for every value >= 2, guards that compare with larger constants are reported as undecided (info)',
]

MUTATIONS = [
    # (file, edit, expected rule / observed) -- tried on /tmp/strengthen/G9/scr
    ('Cython/Compiler/Scanning.py', 'seed C43a: nested scanner copies parent_scanner.async_enabled instead of calling enter_async()', 'C43-COUPLE: caught (write in __init__)'),
    ('Cython/Compiler/Scanning.py', 'enter_async: `if self.async_enabled == 1` -> `== 2`', 'C43-COUPLE enter: caught'),
    ('Cython/Compiler/Scanning.py', "exit_async: `del self.keywords['await']` removed", 'C43-COUPLE keys: caught'),
    ('Cython/Compiler/Scanning.py', 'exit_async: `if not self.async_enabled` -> `if self.async_enabled`', 'C43-COUPLE exit + exit-early: caught'),
    ('Cython/Compiler/Parsing.py', 'p_def_statement: `s.enter_async()` -> `s.async_enabled += 1`', 'C43-COUPLE external write: caught'),
    ('Cython/Compiler/Scanning.py', "py_reserved_words gains 'async'", 'C43-COUPLE fresh-table: caught'),
    ('Cython/Compiler/Errors.py', 'seed C43b: CompileError.__init__ no longer sets self.args = (position, message)', 'C43-EXCSHAPE: caught (Parsing.p_patterns e.args[1], Parsing.p_pattern errors[0].args[1])'),
    ('Cython/Compiler/Errors.py', 'CompileError.__init__: `self.args = (position, message)` -> `self.args = (message,)`', 'C43-EXCSHAPE: caught'),
    ('Cython/Compiler/Parsing.py', 'p_patterns: `s.error(e.args[1], pos=e.args[0])` -> `e.args[2]`', 'C43-EXCSHAPE: caught'),
    ('Cython/Compiler/Errors.py', 'CompileError.__init__: self.message_only renamed self.message', 'C43-EXCSHAPE (Nodes.MemoryViewSliceTypeNode.analyse e.message_only): caught'),
    # behaviour preserving (all silent)
    ('Cython/Compiler/Scanning.py', 'enter_async: test on the old value before the increment (`if self.async_enabled == 0: ...; self.async_enabled += 1`), keys installed with self.keywords.update({...})', None),
    ('Cython/Compiler/Scanning.py', 'exit_async: `if self.async_enabled == 0:` / `< 1`, keys removed with self.keywords.pop()', None),
    ('Cython/Compiler/Errors.py', 'CompileError.__init__: `Exception.__init__(self, position, message)` and no explicit self.args', None),
    ('Cython/Compiler/Parsing.py', 'p_pattern: `first = errors[0]; return Nodes.ErrorNode(first.args[0], what=first.args[1])`', None),
]

_D = 'dead code: slice assignment to memoryviews is routed through MemoryCopyNode, MemoryViewSliceNode.generate_assignment_code is never reached; '
EXEMPT = {
    ('L1', 'ExprNodes.MemoryViewSliceNode.generate_assignment_code:self.generate_memoryviewslice_setslice_code'): _D + 'the two helper methods were removed',
    ('L1', 'ExprNodes.MemoryViewSliceNode.generate_assignment_code:self.generate_memoryviewslice_assign_scalar_code'): _D + 'the two helper methods were removed',
    ('L1', 'ExprNodes.SizeofVarNode.analyse_types:self.check_type'): 'the instance re-classes itself (`self.__class__ = SizeofTypeNode`) on the line before; SizeofTypeNode defines check_type',
}


def run(ctx):
    from ..rules import scopeapi, crash2, sC43
    return [crash.rule_L1(ctx), crash.rule_L2(ctx), crash.rule_L3(ctx), crash.rule_L4(ctx), crash.rule_L5(ctx), crash.rule_L7(ctx),
            iface.rule_I1(ctx), iface.rule_I2(ctx), tree.rule_V1_visit(ctx), tree.rule_V2(ctx), handlers.rule_arg_guards(ctx),
            gen2.rule_G2(ctx), gen.rule_G4(ctx), C09.rule_leading_zero(ctx), scopeapi.rule_L8(ctx), crash2.rule_L9(ctx), crash2.rule_L10(ctx),
            sC43.rule_COUPLE(ctx), sC43.rule_EXCSHAPE(ctx)]
