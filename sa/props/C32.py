"""C32 — C function exception declarations: decision tables of the call-side error test, the C++ translation, the
conversion error conditions and the definition-side error exit, extracted from the generator and compared with the
specification table of the language (except value / except? value / except * / noexcept / except +)."""
import ast, itertools, re

from ..core import Rule, AnalysisError, node_src
from ..engine.pyindex import walk_no_nested
from ..engine import absint
from ..rules import pC32 as E
from ..rules.pC32 import Obj, Fresh, Call, Item, Str, Lst, UNK, NOTFOUND, Evaluator
from ..rules.iface import rule_I5

ID = 'C32'
TECHNIQUE = ('decision-table extraction: the AST of each (small, table-like) decision function of the generator is evaluated by a path-enumerating abstract '
             'evaluator over its COMPLETE finite domain (return kind x exception_check x exception_value set x GIL state x result variable given), emitted C text is kept '
             'as a template and split at its top-level && / || operators; the resulting table is compared with the specification table of the exception '
             'declarations; clang is used as a parser for the two C helpers (typestate of the error indicator / GIL bracket); emitted-call arity (I5) for the helpers involved; '
             'C32-TYPED: the emitted sentinel comparison (casts resolved through the MRO of the type class) is evaluated with C conversion semantics over the complete '
             'lattice of integer ranks x signedness and float/double x representable / non-representable sentinels; '
             'fourth round: p_exception_value_clause interpreted on a model scanner for every clause shape (PARSE); CFuncDeclaratorNode.analyse evaluated over clause kind x return kind x default error value x '
             'extern / pxd / cdef-class / pointer declarator x legacy_implicit_noexcept (DECL, 576 points); _is_exception_compatible_with as a decision table callee specification x declared specification against '
             'the semantics of the call-side test (COMPAT); boolean decision table of the is_temp marking that gates the call-side test (TEMP); dominance of assure_gil before the error-exit reports (ERRGIL); '
             'name/position agreement of flag arguments of the emitted helper calls (ARGNAME); error-indicator typestate at the reporter calls of __Pyx_WriteUnraisable (CHELP)')
DECIDES = ('C32-CALL: for all 72 points of (object | memoryview | other return) x exception_check in {False, True, "+"} x exception_value {unset, set} x GIL {held, released} x '
           'result variable {given, not given}, the statement SimpleCallNode emits for a C function call tests exactly: object -> !result; memoryview -> the slice error '
           'condition; except value -> sentinel test; except? value -> sentinel && PyErr_Occurred(); except * -> PyErr_Occurred(); noexcept -> nothing; except + -> the C++ '
           'try/catch translation (with the result NULL test for object returns, the declared handler and the GIL state handed over); the tests are joined by && only, refer '
           'to the variable the call result is assigned to, are wrapped in error_goto_if, and use __Pyx_ErrOccurredWithGIL() exactly when the GIL is not held. '
           'C32-CPP: translate_cpp_exception emits try { call; [NULL test iff a Python result]; [Python error test] } catch(...) { [ensure GIL iff nogil] raise; [release] goto error }, '
           'maybe_check_py_error tests PyErr_Occurred (GIL-aware) exactly when asked, get_exception_handler asks for it exactly for `except +*` and every handler text sets a Python exception. '
           'C32-COND: CType.error_condition / CTypedefType.error_condition / CFuncType.ExceptionValue.exception_test_code over their finite domains: string-like -> NULL test, '
           'exception_value -> equality with the sentinel, exception_check adds PyErr_Occurred(), joined by &&; the sentinel test is ==, memcmp()==0 for ctuples, the NaN-aware macro for '
           'float sentinels, and that macro is (ev == ev ? v == ev : v != v). '
           'C32-DEF: on every path of the error exit of FuncDefNode.generate_function_definitions exactly one of put_add_traceback / put_unraisable is emitted, the traceback exactly when '
           'an error value exists (error_value() or a memoryview return) or the caller checks, and the error value is assigned to the return variable when one exists; '
           'CFuncDefNode.error_value / caller_will_check_exceptions read the exception_value / exception_check of the same CFuncType the call side reads ("0"/NULL for object returns). '
           'C32-CHELP: __Pyx_ErrOccurredWithGIL brackets PyErr_Occurred() with PyGILState_Ensure/Release and returns its truth; __Pyx_WriteUnraisable leaves the error indicator clear '
           'on every path and takes/releases the GIL exactly when nogil. C32-I5: arity of the emitted helper calls. '
           'C32-TYPED: for CType.error_condition, CTypedefType.error_condition (external typedef) and ExceptionValue.exception_test_code, for every numeric type class '
           '(CIntType, CFloatType) x C type (unsigned/signed char, short, int, long, long long; float, double) x sentinel (-1, 0, 1, -2; -1.0, 0.1, 0.0, NaN where the '
           'NaN-aware form is selected): the emitted comparison, with cast_code / sign_and_name resolved through the class and the NaN macro expanded from Exceptions.c, '
           'is TRUE for the value the callee stores ((T)v, conversion by assignment) and FALSE for every other probed value of T under C11 integer promotion / usual '
           'arithmetic conversions (an uncast -1 never equals a promoted unsigned char 255; a double 0.1 never equals a float 0.1f). '
           'C32-PARSE: p_exception_value_clause maps nothing / noexcept / except v / except? v / except * / except + / except +* / except +Name (x extern, own) to the (value, check, explicit) triple of the '
           'language table and consumes the clause. C32-DECL: CFuncDeclaratorNode.analyse hands CFuncType exactly the declared specification: explicit clauses unchanged, an implicit error value only together '
           'with the PyErr_Occurred() check, noexcept only when declared or under legacy_implicit_noexcept without an explicit clause, nothing for object returns. '
           'C32-COMPAT: a callee specification S is accepted for a declared specification O (function pointer assignment, overridden C method) only when O\'s call-side test detects exactly S\'s errors. '
           'C32-TEMP: analyse_c_function_call marks every call of a function type with an exception value or check as a temp (only temps get the error test). '
           'C32-ERRGIL: put_add_traceback / put_unraisable of the function error exit are preceded by assure_gil(\'error\'). C32-ARGNAME: flag arguments of the emitted C32 helper calls sit at the C parameter of '
           'the same name. C32-CHELP (extended): PyErr_WriteUnraisable / PyErr_PrintEx run with the error indicator set.')
NOT_DECIDED = ('that the body of a function really jumps to the error label on every raise; which sentinel VALUES the declaration analysis accepts for a return type (C32-DECL decides the kind of specification, not the value; sentinels for enum / pointer / ctuple / complex return types in C32-TYPED); the exceptval / noexcept decorators of pure-Python mode (C38); '
               'propagation through cpdef wrappers and function pointers; that the GIL really is held where funcstate.gil_owned says so (assure_gil bookkeeping of the error exit); '
               'the run-time behaviour of the compiled program (no C is compiled or run).')
ASSUMPTIONS = ['error_value() results and ExceptionValue objects are never None/empty when an exception value is declared',
               'PyErr_WriteUnraisable, PyErr_PrintEx and __Pyx_ErrFetch clear the error indicator, __Pyx_ErrRestore sets it (CPython C-API documentation)']
EXEMPT = {}

MUTATIONS = [
    # (file, single edit on a scratch copy, rule / construct that reported it) — every variant gave exit 1 and named the construct
    ('Cython/Compiler/ExprNodes.py', 'generate_cfunction_call: `" && ".join(exc_checks)` -> `" || ".join(exc_checks)`', 'C32-CALL call:other/check=True/value=set/... operator ||'),
    ('Cython/Compiler/ExprNodes.py', 'generate_cfunction_call: `if exc_val is not None:` -> `if exc_val is None:`', 'C32-CALL (sentinel test missing / evaluator: attribute of None)'),
    ('Cython/Compiler/ExprNodes.py', 'generate_cfunction_call: `if nogil:` -> `if not nogil:` around ErrOccurredWithGIL', 'C32-CALL call:other/check=True/... PyErr_Occurred() without the GIL'),
    ('Cython/Compiler/ExprNodes.py', "generate_cfunction_call: `elif func_type.exception_check != '+':` -> `elif not func_type.exception_check:`", 'C32-CALL call:other/check=True'),
    ('Cython/Compiler/ExprNodes.py', 'generate_cfunction_call: drop `if result_cname is None:` temp allocation under `if exc_val is not None`', 'C32-CALL ...result=not-given: sentinel test on no variable'),
    ('Cython/Compiler/ExprNodes.py', 'generate_cfunction_call: `exc_checks.append(f"!{result_cname}")` -> `f"{result_cname}"`', 'C32-CALL call:object'),
    ('Cython/Compiler/ExprNodes.py', 'generate_cfunction_call: pass `None` instead of func_type.exception_value to translate_cpp_exception', 'C32-CALL call:*/check=+/value=set'),
    ('Cython/Compiler/ExprNodes.py', 'generate_cfunction_call: code.error_goto_if -> code.error_goto_if_neg', 'C32-CALL wrapper'),
    ('Cython/Compiler/ExprNodes.py', 'translate_cpp_exception: `if nogil:` -> `if not nogil:` before put_ensure_gil', 'C32-CPP cpp:translate'),
    ('Cython/Compiler/ExprNodes.py', 'translate_cpp_exception: delete `code.putln(code.error_goto(pos))`', 'C32-CPP cpp:translate'),
    ('Cython/Compiler/ExprNodes.py', 'maybe_check_py_error: swap the two branches of `if nogil`', 'C32-CPP cpp:maybe_check_py_error'),
    ('Cython/Compiler/ExprNodes.py', "get_exception_handler: `return \"__Pyx_CppExn2PyErr();\", True` -> False for '*'", 'C32-CPP cpp:get_exception_handler'),
    ('Cython/Compiler/PyrexTypes.py', 'CType.error_condition: `" && ".join(conds)` -> `" || ".join(conds)`', 'C32-COND cond:CType.error_condition'),
    ('Cython/Compiler/PyrexTypes.py', 'CTypedefType.error_condition: `" && PyErr_Occurred()"` -> `" || PyErr_Occurred()"`', 'C32-COND cond:CTypedefType.error_condition'),
    ('Cython/Compiler/PyrexTypes.py', 'ExceptionValue.exception_test_code: `{result_cname} == {typed_exc_val}` -> `!=`', 'C32-COND cond:ExceptionValue.exception_test_code'),
    ('Cython/Compiler/PyrexTypes.py', 'CType.error_condition: `if self.exception_check:` -> `if not self.exception_check:`', 'C32-COND cond:CType.error_condition'),
    ('Cython/Utility/Exceptions.c', '__PYX_CHECK_FLOAT_EXCEPTION: `(value) != (value)` -> `(value) == (value)`', 'C32-COND cond:__PYX_CHECK_FLOAT_EXCEPTION'),
    ('Cython/Compiler/Nodes.py', 'FuncDefNode error exit: `if err_val is not None or exc_check:` -> `and`', 'C32-DEF def:error-exit'),
    ('Cython/Compiler/Nodes.py', 'FuncDefNode error exit: delete `code.put_unraisable(...)`', 'C32-DEF def:error-exit:neither'),
    ('Cython/Compiler/Nodes.py', 'FuncDefNode error exit: add put_add_traceback next to put_unraisable', 'C32-DEF def:error-exit both'),
    ('Cython/Compiler/Nodes.py', 'FuncDefNode error exit: `if err_val is not None:` (assignment of the return value) -> `if err_val is None:`', 'C32-DEF def:error-exit retval'),
    ('Cython/Compiler/Nodes.py', 'CFuncDefNode.error_value: `return self.entry.type.exception_value` -> `return None`', 'C32-DEF def:CFuncDefNode.error_value'),
    ('Cython/Compiler/Nodes.py', 'CFuncDefNode.caller_will_check_exceptions: `return self.entry.type.exception_check` -> `return True`', 'C32-DEF def:CFuncDefNode.caller_will_check_exceptions'),
    ('Cython/Utility/Exceptions.c', '__Pyx_ErrOccurredWithGIL: move PyGILState_Release before PyErr_Occurred', 'C32-CHELP chelp:__Pyx_ErrOccurredWithGIL'),
    ('Cython/Utility/Exceptions.c', '__Pyx_WriteUnraisable: delete `PyErr_WriteUnraisable(ctx);` in the else branch', 'C32-CHELP chelp:__Pyx_WriteUnraisable'),
    ('Cython/Utility/Exceptions.c', '__Pyx_WriteUnraisable: `if (nogil) PyGILState_Release(state)` -> `if (!nogil)`', 'C32-CHELP chelp:__Pyx_WriteUnraisable'),
    ('Cython/Compiler/Code.py', 'put_unraisable: drop the nogil argument from the emitted call', 'C32-I5'),
    ('Cython/Utility/Exceptions.c', '__Pyx_ErrOccurredWithGIL: `err = !!PyErr_Occurred()` -> `!PyErr_Occurred()`', 'C32-CHELP chelp:__Pyx_ErrOccurredWithGIL'),
    ('Cython/Compiler/ExprNodes.py', 'generate_cfunction_call: `if exc_check:` -> `if exc_check and exc_val is None:` (except? loses PyErr_Occurred)', 'C32-CALL call:other/check=True/value=set'),
    ('Cython/Compiler/Nodes.py', 'CFuncDefNode.error_value: `return "0"` -> `return "-1"` for object returns', 'C32-DEF def:CFuncDefNode.error_value'),
    ('Cython/Compiler/PyrexTypes.py', 'seed C32a: exception_test_code drops the cast for plain C numbers (`{result_cname} == ({self})`)', 'C32-TYPED typed:ExceptionValue.exception_test_code(CIntType) + (CFloatType)'),
    ('Cython/Compiler/PyrexTypes.py', 'CType.error_condition: `(%s == (%s)%s)` -> `(%s == %s)` without sign_and_name()', 'C32-TYPED typed:CType.error_condition(CIntType)'),
    ('Cython/Compiler/PyrexTypes.py', 'CTypedefType.error_condition: self.cast_code(self.exception_value) -> self.exception_value', 'C32-TYPED typed:CTypedefType.error_condition'),
    ('Cython/Compiler/PyrexTypes.py', 'BaseType.cast_code: `"((%s)%s)"` -> `"(%s)" % (expr_code,)` (the cast disappears for every user)', 'C32-TYPED all three generators'),
    ('Cython/Compiler/PyrexTypes.py', 'exception_test_code: cast moved to the result: `{self.type.cast_code(result_cname)} == {self}`', 'C32-TYPED typed:ExceptionValue.exception_test_code(CIntType)'),
    ('Cython/Compiler/PyrexTypes.py', 'exception_test_code: `(char){result_cname} == (char){self}` (narrowing on both sides: int 255 forges an exception)', 'C32-TYPED (no-forgery direction)'),
]
MUTATIONS += [
    # fourth round: stored under /verif/mutants/C32/<name>/ and replayed by the thorough tier
    ('Cython/Compiler/Parsing.py', 'parse-star-nocheck / parse-question-nocheck / parse-default-swapped / parse-noexcept-check', 'C32-PARSE'),
    ('Cython/Compiler/Nodes.py', 'decl-check-dropped-with-value / decl-legacy-explicit / decl-implicit-value-unchecked', 'C32-DECL'),
    ('Cython/Compiler/PyrexTypes.py', 'compat-missing-check / compat-noexcept-target / compat-value-ignored', 'C32-COMPAT'),
    ('Cython/Compiler/ExprNodes.py', 'call-istemp-and: is_temp only for `except? v`', 'C32-TEMP'),
    ('Cython/Compiler/Nodes.py', 'def-unraisable-no-gil: assure_gil dropped before put_unraisable', 'C32-ERRGIL'),
    ('Cython/Compiler/Code.py', 'unraisable-flag-swapped: (nogil, full_traceback) interchanged in the emitted call', 'C32-ARGNAME'),
    ('Cython/Utility/Exceptions.c', 'chelp-restore-dropped: __Pyx_ErrRestore before PyErr_WriteUnraisable removed', 'C32-CHELP'),
]
SILENT_EDITS = [     # behaviour-preserving edits tried on the scratch copy: all stayed silent (exit 0); the fourth-round ones are mutants/C32/ok-*
    'C32-TYPED: exception_test_code with operands swapped and parenthesised; with `({self.type.empty_declaration_code()}){self}` instead of cast_code; with BOTH sides '
    'passed through self.type.cast_code; if/else turned into a fall-through `"%s == %s" % (result_cname, cmp_val)`; CType.error_condition using self.cast_code(...) '
    'instead of the hand-written `(%s)%s`',
    'generate_cfunction_call: rename locals exc_checks/exc_val/exc_check',
    'generate_cfunction_call: build the condition with an explicit loop-free `cond = a + " && " + b` instead of join',
    'generate_cfunction_call: swap the order of the is_memoryviewslice / is_pyobject branches',
    'FuncDefNode error exit: `if not (err_val is None and not exc_check): traceback else: unraisable`',
    'CType.error_condition: `"(%s == (%s)%s)" %` -> f-string; ExceptionValue.exception_test_code: operands of == swapped and parenthesised',
    'Exceptions.c: __Pyx_ErrOccurredWithGIL `err = PyErr_Occurred() != NULL`; __Pyx_WriteUnraisable: braces around the release',
    'maybe_check_py_error: early `return` + conditional expression for the test text',
    'translate_cpp_exception: "try {" and the statement merged into one putln; goto and "}" merged',
    'FuncDefNode error exit: `propagate = err_val is not None or caller_checks; if propagate:`',
    'CFuncDefNode.error_value: `ftype = self.entry.type; return ftype.exception_value`',
    'get_exception_handler: shared `generic = "__Pyx_CppExn2PyErr();"` local, elif -> if',
]

PYERR, PYERR_GIL = 'PyErr_Occurred()', '__Pyx_ErrOccurredWithGIL()'


# ====================================================================================== helpers
def _contains(v, pred, depth=0):
    if depth > 8:
        return False
    if pred(v):
        return True
    if isinstance(v, Str):
        return any(_contains(p, pred, depth + 1) for p in v.parts if not isinstance(p, str))
    if isinstance(v, Call):
        return any(_contains(a, pred, depth + 1) for a in list(v.args) + list(v.kwargs.values()))
    if isinstance(v, Item):
        return _contains(v.base, pred, depth + 1)
    if isinstance(v, (tuple,)):
        return any(_contains(a, pred, depth + 1) for a in v)
    if isinstance(v, Lst):
        return any(_contains(a, pred, depth + 1) for a in v.items)
    return False


def _numbered(s):
    """Str -> (text with §k§ placeholders, {k: value})"""
    out, vals = [], {}
    for p in s.parts:
        if isinstance(p, str):
            out.append(p)
        else:
            k = len(vals)
            vals[k] = p
            out.append('§%d§' % k)
    return ''.join(out), vals


def _classify_conjunct(text, vals, is_result, sentinel):
    """-> token tuple"""
    t = E.unwrap_calls(text)
    t = E.strip_parens(t)
    if re.fullmatch(r'PyErr_Occurred\s*\(\s*\)', t):
        return ('pyerr',)
    if re.fullmatch(r'__Pyx_ErrOccurredWithGIL\s*\(\s*\)', t):
        return ('pyerr_gil',)
    m = re.fullmatch(r'!\s*\(?\s*§(\d+)§\s*\)?', t)
    if m:
        v = vals[int(m.group(1))]
        return ('null', v)
    m = re.fullmatch(r'§(\d+)§\s*==\s*(?:NULL|0)', t) or re.fullmatch(r'(?:NULL|0)\s*==\s*§(\d+)§', t)
    if m:
        return ('null', vals[int(m.group(1))])
    m = re.fullmatch(r'§(\d+)§', t)
    if m:
        v = vals[int(m.group(1))]
        if isinstance(v, Call) and v.name == 'error_condition' and v.args:
            return ('slice', v.args[0], v.recv)
        if isinstance(v, Call) and v.name == 'exception_test_code' and v.args:
            return ('sentinel', v.args[0], v.recv)
        return ('other', repr(v))
    return ('other', t)


def _cond_tokens(cond):
    """condition value -> (tokens, other-operators)"""
    if isinstance(cond, (str, Call, Obj)):
        cond = Str([cond])
    if not isinstance(cond, Str):
        return [('other', repr(cond))], set()
    text, vals = _numbered(cond)
    parts, ops = E.conjuncts(text)
    return [_classify_conjunct(p, vals, None, None) for p in parts], ops


def _bind_call(call, fn):
    """Map the arguments of a symbolic call to the parameter names of the FunctionDef it resolves to."""
    params = [a.arg for a in fn.args.posonlyargs + fn.args.args]
    out = {}
    for p, a in zip(params, call.args):
        out[p] = a
    for k, v in call.kwargs.items():
        out[k] = v
    return out


def _fmt_tokens(tokens):
    out = []
    for t in tokens:
        if t[0] == 'pyerr':
            out.append(PYERR)
        elif t[0] == 'pyerr_gil':
            out.append(PYERR_GIL)
        elif t[0] == 'null':
            out.append('!result')
        elif t[0] == 'slice':
            out.append('slice-error-condition(result)')
        elif t[0] == 'sentinel':
            out.append('result==sentinel')
        else:
            out.append('<%s>' % (t[1],))
    return ' && '.join(out) if out else '(no test)'


# ====================================================================================== C32-CPP
def _cpp_roles(ix, m):
    """Roles of the parameters of translate_cpp_exception / maybe_check_py_error, derived from their bodies."""
    tr = m.functions.get('translate_cpp_exception')
    mc = m.functions.get('maybe_check_py_error')
    gh = m.functions.get('get_exception_handler')
    if tr is None or mc is None or gh is None:
        raise AnalysisError('ExprNodes.translate_cpp_exception / maybe_check_py_error / get_exception_handler vanished')
    params = [a.arg for a in tr.args.args]
    roles = {}
    for n in walk_no_nested(tr):
        if isinstance(n, ast.Call):
            nm = n.func.attr if isinstance(n.func, ast.Attribute) else getattr(n.func, 'id', None)
            if nm == 'error_goto_if_null' and n.args and isinstance(n.args[0], ast.Name) and n.args[0].id in params:
                roles['py_result'] = n.args[0].id
            if nm == 'get_exception_handler' and n.args and isinstance(n.args[0], ast.Name) and n.args[0].id in params:
                roles['exception_value'] = n.args[0].id
        if isinstance(n, ast.If) and any(isinstance(c, ast.Call) and isinstance(c.func, ast.Attribute) and c.func.attr == 'put_ensure_gil' for s in n.body for c in ast.walk(s)):
            names = [x.id for x in ast.walk(n.test) if isinstance(x, ast.Name) and x.id in params]
            if len(names) == 1:
                roles['nogil'] = names[0]
    # the statement text: the parameter that is written out as text by putln (not as an argument of a call)
    def text_names(a):
        if isinstance(a, ast.Call):
            return
        if isinstance(a, ast.Name):
            yield a.id
        for ch in ast.iter_child_nodes(a):
            yield from text_names(ch)
    for n in walk_no_nested(tr):
        if isinstance(n, ast.Call) and isinstance(n.func, ast.Attribute) and n.func.attr in ('putln', 'put') and n.args:
            for nm in text_names(n.args[0]):
                if nm in params and nm not in roles.values():
                    roles.setdefault('inside', nm)
    missing = {'py_result', 'exception_value', 'nogil', 'inside'} - set(roles)
    if missing:
        raise AnalysisError('translate_cpp_exception: cannot identify the parameter(s) for %s' % sorted(missing))
    return tr, mc, gh, roles


def _maybe_check_table(mc):
    """Decision table of maybe_check_py_error -> ((flag param, nogil param) | None, rows)."""
    params = [a.arg for a in mc.args.args]

    def emitted_for(oracle):
        outs = []
        for p in Evaluator(oracle, what='maybe_check_py_error').run_function(mc):
            emitted = []
            for c in p.calls('putln'):
                a = c.args[0] if c.args else None
                if isinstance(a, Call) and a.name.startswith('error_goto'):
                    if a.name != 'error_goto_if':
                        emitted.append('wrapper:' + a.name)
                        continue
                    toks, ops = _cond_tokens(a.args[0] if a.args else None)
                    emitted.append(_fmt_tokens(toks) + (' with ' + '/'.join(sorted(ops)) if ops else ''))
                elif a is not None:
                    emitted.append('text:%r' % (a,))
            outs.append(tuple(emitted))
        return outs
    best_rows = []
    for flag, nogil in itertools.permutations(params, 2):
        ok, rows = True, []
        for fv, nv in itertools.product((False, True), (False, True)):
            want = () if not fv else ((PYERR_GIL,) if nv else (PYERR,))
            for emitted in emitted_for(lambda p, fv=fv, nv=nv: {flag: fv, nogil: nv}.get(p, NOTFOUND)):
                rows.append(({flag: fv, nogil: nv}, emitted))
                if emitted != want:
                    ok = False
        if ok and rows:
            return (flag, nogil), rows
        if 'check' in flag and 'gil' in nogil or not best_rows:
            best_rows = rows
    return None, best_rows


def rule_cpp(ctx):
    ix = ctx.index
    m = ix.mod('ExprNodes')
    r = Rule('C32-CPP', 'C++ exception translation: try { call; NULL test iff Python result; Python error test iff `+*` } catch(...) { GIL iff nogil; raise; goto error }', floor=9)
    tr, mc, gh, roles = _cpp_roles(ix, m)
    rel = m.rel

    # ---- maybe_check_py_error
    def check_mc(fn):
        found, rows = _maybe_check_table(fn)
        return found, rows
    found, rows = check_mc(mc)
    for assumed, emitted in rows:
        r.inst('cpp:maybe_check_py_error:%s' % sorted(assumed.items()), sample='maybe_check_py_error %s -> %s' % (sorted(assumed.items()), list(emitted) or 'nothing'))
    if found is None:
        r.violate('cpp:maybe_check_py_error', rel, mc.lineno,
                  'maybe_check_py_error does not implement (check requested -> goto error if PyErr_Occurred(), using __Pyx_ErrOccurredWithGIL() exactly under nogil; not requested -> nothing); '
                  'extracted table: %s. A Python exception set by an `except +*` C++ function is lost, or PyErr_Occurred() is called without the GIL'
                  % ['%s -> %s' % (sorted(a.items()), list(e)) for a, e in rows])
    pc = ast.parse("def maybe_check_py_error(code, check_py_exception, pos, nogil):\n    if check_py_exception:\n        if nogil:\n            code.putln(code.error_goto_if('PyErr_Occurred()', pos))\n"
                   "        else:\n            code.putln(code.error_goto_if('__Pyx_ErrOccurredWithGIL()', pos))\n").body[0]
    pc_ok = check_mc(pc)[0] is None

    # ---- get_exception_handler
    evh = Evaluator(what='get_exception_handler')
    hp = [a.arg for a in gh.args.args]
    if len(hp) != 1:
        raise AnalysisError('get_exception_handler no longer takes exactly the exception value')

    def handler_rows(fn):
        rows = []
        for p in Evaluator(what='get_exception_handler').run_function(fn):
            if p.kind != 'return':
                continue
            rows.append((p.assumed, p.ret))
        return rows

    def handler_problems(fn):
        probs = []
        rows = handler_rows(fn)
        arg = fn.args.args[0].arg
        n_true = 0
        for assumed, ret in rows:
            if not (isinstance(ret, tuple) and len(ret) == 2 and isinstance(ret[1], bool)):
                probs.append('returns %r instead of (C text, check flag)' % (ret,))
                continue
            text = ret[0].text() if isinstance(ret[0], Str) else ret[0] if isinstance(ret[0], str) else ''
            star = any(re.search(r"==\s*'\*'", k) and v for k, v in assumed.items())
            none = assumed.get('%s is None' % arg) is True
            if ret[1]:
                n_true += 1
                if not star:
                    probs.append('asks for a Python error test on a path that is not the `except +*` case')
            elif star:
                probs.append("does not ask for the Python error test for `except +*` (a Python exception raised by the C++ callee is ignored)")
            if none and ret[1]:
                probs.append('asks for a Python error test for plain `except +`')
            if not re.search(r'\b(__Pyx_CppExn2PyErr|PyErr_SetString|PyErr_SetNone|PyErr_SetObject|PyErr_Format)\s*\(', text):
                probs.append('a handler text sets no Python exception: %r' % text[:60])
        if not n_true:
            probs.append("no path asks for the Python error test (`except +*`)")
        return probs, rows
    probs, rows = handler_problems(gh)
    for assumed, ret in rows:
        r.inst('cpp:get_exception_handler:%s' % sorted(assumed.items()), sample='get_exception_handler %s -> check=%s' % (
            sorted(k for k, v in assumed.items() if v), ret[1] if isinstance(ret, tuple) and len(ret) == 2 else ret))
    for pb in sorted(set(probs)):
        r.violate('cpp:get_exception_handler', rel, gh.lineno, 'get_exception_handler ' + pb)

    # ---- translate_cpp_exception
    def translate_problems(fn, roles, flag_pos):
        probs, n = [], 0
        for has_res, nogil in itertools.product((False, True), (False, True)):
            R = Fresh('RESULT')

            def oracle(p):
                if p == roles['py_result']:
                    return R if has_res else None
                if p == roles['nogil']:
                    return nogil
                return NOTFOUND
            for p in Evaluator(oracle, what='translate_cpp_exception').run_function(fn):
                n += 1
                seq = []
                handler_call = None

                def marks(a):
                    out = []
                    parts = a.parts if isinstance(a, Str) else (a,)
                    for v in parts:
                        if isinstance(v, str):
                            out.extend(mm.group(0) for mm in re.finditer(r'\b(try|catch)\b', v))
                        elif isinstance(v, Obj) and v.path == roles['inside']:
                            out.append('inside')
                        elif isinstance(v, Item) and v.index == 0 and isinstance(v.base, Call) and v.base.name == 'get_exception_handler':
                            out.append('raise')
                        elif isinstance(v, Call) and v.name == 'error_goto':
                            out.append('goto')
                        elif isinstance(v, Call) and v.name == 'error_goto_if_null':
                            out.append('nulltest' if (v.args and v.args[0] is R) else 'nulltest-of-other')
                        else:
                            out.append('other:' + repr(v)[:30])
                    return out
                for e in p.events:
                    if not isinstance(e, Call):
                        continue
                    if e.name == 'get_exception_handler':
                        handler_call = e
                    if e.name in ('putln', 'put') and e.args:
                        seq.extend(marks(e.args[0]))
                    elif e.name == 'maybe_check_py_error':
                        ok = True
                        if flag_pos is not None:
                            b = _bind_call(e, mc)
                            f = b.get(flag_pos[0])
                            g = b.get(flag_pos[1])
                            if not (isinstance(f, Item) and f.index == 1 and isinstance(f.base, Call) and f.base.name == 'get_exception_handler'):
                                ok = False
                            if g is not nogil:
                                ok = False
                        seq.append('pycheck' if ok else 'pycheck-wrong-args')
                    elif e.name == 'put_ensure_gil':
                        seq.append('ensure')
                    elif e.name == 'put_release_ensured_gil':
                        seq.append('release')
                if handler_call is None or not (handler_call.args and isinstance(handler_call.args[0], Obj) and handler_call.args[0].path == roles['exception_value']):
                    probs.append('does not derive the handler from its exception value parameter')
                want = ['try', 'inside'] + (['nulltest'] if has_res else []) + ['pycheck', 'catch'] + (['ensure'] if nogil else []) + ['raise'] + \
                       (['release'] if nogil else []) + ['goto']
                if seq != want:
                    probs.append('for (Python result %s, %s) emits %s, required %s' % (
                        'present' if has_res else 'absent', 'nogil' if nogil else 'GIL held', ' '.join(seq), ' '.join(want)))
        return probs, n
    probs, n = translate_problems(tr, roles, found)
    for has_res, nogil in itertools.product((False, True), (False, True)):
        r.inst('cpp:translate:%s:%s' % (has_res, nogil), sample='translate_cpp_exception(result %s, nogil=%s)' % (has_res, nogil))
    for pb in sorted(set(probs)):
        r.violate('cpp:translate', rel, tr.lineno,
                  'translate_cpp_exception %s: a C++ exception is not turned into a Python error jump (or Python API is used without the GIL)' % pb)
    pc2 = ast.parse(
        "def translate_cpp_exception(code, pos, inside, py_result, exception_value, nogil):\n"
        "    raise_py_exception, check_py_exception = get_exception_handler(exception_value)\n"
        "    code.putln('try {')\n    code.putln('%s' % inside)\n"
        "    maybe_check_py_error(code, check_py_exception, pos, nogil)\n"
        "    code.putln('} catch(...) {')\n    code.putln(raise_py_exception)\n"
        "    if py_result:\n        code.putln(code.error_goto_if_null(py_result, pos))\n"
        "    code.putln(code.error_goto(pos))\n    code.putln('}')\n").body[0]
    r.positive_control(pc_ok and bool(translate_problems(pc2, roles, found)[0]), 'swapped GIL branches in maybe_check_py_error; NULL test / GIL bracket misplaced in translate_cpp_exception')
    return r, tr, roles


# ====================================================================================== C32-CALL
RET_KINDS = ('object', 'memoryview', 'other')


def _locate_call_emitter(ix):
    m = ix.mod('ExprNodes')
    c = ix.cls('ExprNodes', 'SimpleCallNode')
    grc = c.methods.get('generate_result_code')
    if grc is None:
        raise AnalysisError('SimpleCallNode.generate_result_code vanished')

    def reads_exc(fn):
        return any(isinstance(n, ast.Attribute) and n.attr == 'exception_check' for n in walk_no_nested(fn))
    if reads_exc(grc):
        raise AnalysisError('SimpleCallNode.generate_result_code reads exception_check itself: the call emission is no longer a function of the '
                            'function type alone; adapt the extractor')
    for n in walk_no_nested(grc):
        if isinstance(n, ast.Call) and isinstance(n.func, ast.Name) and n.func.id in m.functions and reads_exc(m.functions[n.func.id]):
            fn = m.functions[n.func.id]
            binding = {}
            params = [a.arg for a in fn.args.posonlyargs + fn.args.args]
            for p, a in zip(params, n.args):
                binding[p] = a
            for k in n.keywords:
                if k.arg:
                    binding[k.arg] = k.value
            return m, fn, binding
    raise AnalysisError('cannot find the function through which SimpleCallNode.generate_result_code emits C function calls')


def _call_roles(fn, binding):
    """parameter of the emitter that is the function type / the result variable."""
    params = [a.arg for a in fn.args.posonlyargs + fn.args.args + fn.args.kwonlyargs]
    ft = None
    for n in walk_no_nested(fn):
        if isinstance(n, ast.Attribute) and n.attr == 'exception_check' and isinstance(n.value, ast.Name) and n.value.id in params:
            ft = n.value.id
    res = None
    for p, a in binding.items():
        if any(isinstance(x, ast.Call) and isinstance(x.func, ast.Attribute) and x.func.attr == 'result' and isinstance(x.func.value, ast.Name) and x.func.value.id == 'self'
               for x in ast.walk(a)):
            res = p
    if ft is None or res is None:
        raise AnalysisError('%s: cannot identify the function-type parameter (%s) or the result-variable parameter (%s)' % (fn.name, ft, res))
    return ft, res


def call_table(fn, ft, res, cpp_fn, cpp_roles, builder='build_c_call_code'):
    """-> list of (point, [problem texts], description) for the complete domain."""
    rows = []
    for kind, chk, val, gil, given in itertools.product(RET_KINDS, (False, True, '+'), (False, True), (True, False), (True, False)):
        SENT = Fresh('SENTINEL')
        R0 = Fresh('RESULT')
        hits = set()

        def oracle(p, kind=kind, chk=chk, val=val, gil=gil, given=given):
            if p == ft + '.exception_check':
                return chk
            if p == ft + '.exception_value':
                return SENT if val else None
            if p == ft + '.return_type.is_pyobject':
                return kind == 'object'
            if p == ft + '.return_type.is_memoryviewslice':
                return kind == 'memoryview'
            if p.endswith('.gil_owned'):
                hits.add('gil')
                return gil
            if p.endswith('.nogil') or p.endswith('.in_nogil_context'):
                hits.add('gil')
                return not gil
            if p == res:
                return R0 if given else None
            return NOTFOUND
        def call_oracle(f, a, k):
            if f.endswith('.allocate_temp'):
                return Fresh('TEMP')          # a temp name is a non-empty string, distinct per allocation
            return NOTFOUND
        ev = Evaluator(oracle, call_oracle, what=fn.name)
        paths = ev.run_function(fn)
        problems, descs = [], set()
        is_builder = lambda v: isinstance(v, Call) and v.name == builder
        for p in paths:
            if p.kind == 'raise':
                continue
            cpp = p.calls(cpp_fn.name)
            stmts = [c for c in p.calls('putln') if c.args and isinstance(c.args[0], Str) and _contains(c.args[0], is_builder)]
            if chk == '+':
                if len(cpp) != 1 or stmts:
                    problems.append('does not hand the call to %s exactly once (%d translation(s), %d plain statement(s)): a C++ exception escapes' % (cpp_fn.name, len(cpp), len(stmts)))
                    continue
                b = _bind_call(cpp[0], cpp_fn)
                inside, pyres = b.get(cpp_roles['inside']), b.get(cpp_roles['py_result'])
                exc, ng = b.get(cpp_roles['exception_value']), b.get(cpp_roles['nogil'])
                descs.add('C++ translation(result test=%s, handler=%s, nogil=%r)' % ('yes' if E.truth(pyres) else 'no', 'declared' if exc is SENT else exc, ng))
                if not (isinstance(inside, Str) and _contains(inside, is_builder)):
                    problems.append('the statement given to %s does not contain the call' % cpp_fn.name)
                    continue
                if kind == 'object':
                    if E.truth(pyres) is not True:
                        problems.append('object return under `except +`: no result variable is handed over for the NULL test')
                    elif not _assigns(inside, pyres, is_builder):
                        problems.append('object return under `except +`: the NULL-tested variable is not the one the call result is assigned to')
                elif E.truth(pyres) is not False:
                    problems.append('non-object return under `except +`: a Python result %r is handed over for a NULL test' % (pyres,))
                if (exc is not SENT) if val else (exc is not None):
                    problems.append('the declared `except +` handler (%s.exception_value) is not handed to %s (got %r)' % (ft, cpp_fn.name, exc))
                if ng is not (not gil):
                    problems.append('%s is told nogil=%r while the GIL is %s' % (cpp_fn.name, ng, 'held' if gil else 'released'))
                continue
            if cpp:
                problems.append('uses the C++ translation although exception_check is %r' % (chk,))
                continue
            if len(stmts) != 1:
                problems.append('emits %d statements containing the call' % len(stmts))
                continue
            s = stmts[0].args[0]
            idx = next(i for i, x in enumerate(s.parts) if not isinstance(x, str) and _contains(x, is_builder))
            after = s.parts[idx + 1:]
            gotos = [x for x in after if not isinstance(x, str)]
            tokens, ops, wrapper_ok = [], set(), True
            for g in gotos:
                if isinstance(g, Call) and g.name.startswith('error_goto'):
                    if g.name != 'error_goto_if':
                        wrapper_ok = False
                        problems.append('wraps the error test in %s instead of error_goto_if' % g.name)
                    t, o = _cond_tokens(g.args[0] if g.args else None)
                    tokens += t
                    ops |= o
                else:
                    tokens.append(('other', repr(g)))
            descs.add(_fmt_tokens(tokens) + (' [operators %s]' % '/'.join(sorted(ops)) if ops else ''))
            if ops:
                problems.append('joins the error tests with %s instead of &&: %s' % ('/'.join(sorted(ops)), _fmt_tokens(tokens)))
            # expected token kinds
            if kind == 'object':
                want = ['null']
            elif kind == 'memoryview':
                want = ['slice']
            else:
                want = (['sentinel'] if val else []) + ((['pyerr'] if gil else ['pyerr_gil']) if chk else [])
            got = [t[0] for t in tokens]
            if got != want:
                what = {'null': '!result', 'slice': 'the memoryview error condition', 'sentinel': 'result == sentinel', 'pyerr': PYERR, 'pyerr_gil': PYERR_GIL}
                msg = 'tests %s, the declaration requires %s' % (_fmt_tokens(tokens), ' && '.join(what[w] for w in want) or 'no test')
                if 'pyerr' in got and not gil:
                    msg += ' (PyErr_Occurred() is called without the GIL)'
                problems.append(msg)
                continue
            # the tests refer to the variable the result is assigned to, the sentinel is the declared one
            for t in tokens:
                if t[0] in ('null', 'slice', 'sentinel'):
                    var = t[1]
                    if E.is_none(var) is not False:
                        problems.append('the %s test is applied to %r, not to a result variable' % (t[0], var))
                    elif not _assigns(Str(s.parts[:idx + 1]), var, is_builder):
                        problems.append('the %s test is applied to %r but the call result is not assigned to that variable' % (t[0], var))
                if t[0] == 'sentinel' and t[2] is not SENT:
                    problems.append('the sentinel test is generated by %r, not by %s.exception_value' % (t[2], ft))
                if t[0] == 'slice' and not (isinstance(t[2], Obj) and t[2].path == ft + '.return_type'):
                    problems.append('the memoryview error condition is taken from %r, not from the return type' % (t[2],))
        if 'gil' not in hits and chk is True and kind == 'other':
            raise AnalysisError('%s: cannot see how the GIL state is determined (no *.gil_owned / *.nogil read)' % fn.name)
        rows.append(((kind, chk, val, gil, given), sorted(set(problems)), sorted(descs)))
    return rows


def _assigns(stmt, var, is_builder):
    """the emitted text before the call is `<var> = `"""
    if not isinstance(stmt, Str):
        return False
    pre = []
    for x in stmt.parts:
        if not isinstance(x, str) and _contains(x, is_builder):
            break
        pre.append(x)
    vals = [x for x in pre if not isinstance(x, str)]
    txt = ''.join(x for x in pre if isinstance(x, str)).strip()
    return len(vals) == 1 and vals[0] is var and txt == '='


def rule_call(ctx, cpp_fn, cpp_roles):
    ix = ctx.index
    r = Rule('C32-CALL', 'decision table of the error test emitted after a C function call = specification table of the exception declarations (72 domain points)', floor=72)
    m, fn, binding = _locate_call_emitter(ix)
    ft, res = _call_roles(fn, binding)

    def key(pt):
        kind, chk, val, gil, given = pt
        return 'call:%s/check=%s/value=%s/%s/result=%s' % (kind, chk, 'set' if val else 'unset', 'gil' if gil else 'nogil', 'given' if given else 'not-given')
    for pt, problems, descs in call_table(fn, ft, res, cpp_fn, cpp_roles):
        r.inst(key(pt), sample='%s -> %s' % (key(pt), '; '.join(descs)))
        for pb in problems:
            r.violate(key(pt), m.rel, fn.lineno,
                      '%s for a C function with %s return, exception_check=%r, exception_value %s, GIL %s: %s — an exception raised in the callee is lost or an '
                      'exception is fabricated for a legitimate return value' % (fn.name, pt[0], pt[1], 'set' if pt[2] else 'unset', 'held' if pt[3] else 'released', pb))
    pc = ast.parse(
        "def generate_cfunction_call(pos, code, func_type, function_cname, args, result_cname=None):\n"
        "    nogil = not code.funcstate.gil_owned\n    exc_checks = []\n"
        "    if func_type.exception_value is not None:\n        exc_checks.append(func_type.exception_value.exception_test_code(result_cname, code))\n"
        "    if func_type.exception_check:\n        exc_checks.append('PyErr_Occurred()')\n"
        "    rhs = build_c_call_code(func_type, function_cname, args)\n"
        "    goto_error = code.error_goto_if(' || '.join(exc_checks), pos) if exc_checks else ''\n"
        "    code.putln(f'{result_cname} = {rhs}; {goto_error}')\n").body[0]
    rows = call_table(pc, 'func_type', 'result_cname', cpp_fn, cpp_roles)
    d = {pt: pbs for pt, pbs, _ in rows}
    ok = any('||' in p for p in d[('other', True, True, True, True)]) and any('without the GIL' in p for p in d[('other', True, False, False, True)]) \
        and d[('object', False, False, True, True)] and not d[('other', False, True, True, True)]
    r.positive_control(ok, '|| joiner, PyErr_Occurred() under nogil, missing !result test')
    return r


# ====================================================================================== C32-COND
def _cond_of(ret):
    """returned condition value -> (tokens, ops, falsy?)"""
    if E.truth(ret) is False:
        return [], set(), True
    toks, ops = _cond_tokens(ret)
    return toks, ops, False


def _eq_shape(text, vals):
    """classify a sentinel comparison text: ('eq', a, b) | ('memcmp', a, b) | ('macro', name, a, b) | None"""
    t = E.strip_parens(text)
    atom = r'\(*\s*(?:\(\s*(?:[^()§]*|§\d+§)\s*\)\s*)?&?\s*§(\d+)§\s*\)*'
    m = re.fullmatch(atom + r'\s*==\s*' + atom, t)
    if m:
        return ('eq', vals[int(m.group(1))], vals[int(m.group(2))])
    m = re.fullmatch(r'memcmp\s*\(\s*&\s*§(\d+)§\s*,\s*&\s*§(\d+)§\s*,\s*sizeof\s*\(\s*§(\d+)§\s*\)\s*\)\s*==\s*0', t) or \
        re.fullmatch(r'!\s*memcmp\s*\(\s*&\s*§(\d+)§\s*,\s*&\s*§(\d+)§\s*,\s*sizeof\s*\(\s*§(\d+)§\s*\)\s*\)', t)
    if m:
        return ('memcmp', vals[int(m.group(1))], vals[int(m.group(2))], vals[int(m.group(3))])
    m = re.fullmatch(r'(__P[Yy][Xx]_\w+)\s*\(\s*§(\d+)§\s*,\s*§(\d+)§\s*\)', t)
    if m:
        return ('macro', m.group(1), vals[int(m.group(2))], vals[int(m.group(3))])
    return None


def nan_macro_problems(ctx, name, body_params, body):
    """The NaN-aware comparison macro must be: ev == ev ? v == ev : v != v  (v = first, ev = second macro parameter)."""
    if len(body_params) != 2:
        return ['%s takes %d parameters, expected (value, error_value)' % (name, len(body_params))]
    v, evn = body_params
    src = 'int __sa_probe(double %s, double %s) { return %s; }\n' % (v, evn, body)
    fn = absint.clang_function_ast(src, '__sa_probe', prelude='')
    ret = None
    for n in absint.c_walk(fn):
        if n.get('kind') == 'ReturnStmt':
            ret = n
    if ret is None:
        return ['cannot parse the body of %s' % name]
    e = absint.c_strip(ret['inner'][0])

    def binop(n, op):
        n = absint.c_strip(n)
        if n.get('kind') == 'BinaryOperator' and n.get('opcode') == op:
            return [absint.c_name(x) for x in n['inner']]
        return None
    if e.get('kind') != 'ConditionalOperator':
        return ['%s is not a conditional (error_value == error_value ? value == error_value : value != value)' % name]
    c, a, b = e['inner']
    probs = []
    if binop(c, '==') != [evn, evn]:
        probs.append('the NaN test is not `%s == %s`' % (evn, evn))
    if sorted(binop(a, '==') or []) != sorted([v, evn]):
        probs.append('the ordinary branch is not `%s == %s`' % (v, evn))
    if binop(b, '!=') != [v, v]:
        probs.append('the NaN branch is not `%s != %s` (a NaN sentinel must match exactly a NaN result)' % (v, v))
    return probs


def rule_cond(ctx):
    ix = ctx.index
    r = Rule('C32-COND', 'error conditions built by CType/CTypedefType.error_condition and ExceptionValue.exception_test_code: sentinel equality, && PyErr_Occurred() iff exception_check', floor=21)
    m = ix.mod('PyrexTypes')

    # ---- CType.error_condition
    ct = ix.cls('PyrexTypes', 'CType')
    fn = ct.methods.get('error_condition')
    if fn is None:
        raise AnalysisError('CType.error_condition vanished')

    def ctype_problems(fn):
        out = []
        arg = fn.args.args[1].arg
        for strlike, val, chk in itertools.product(('no', 'string', 'pyunicode_ptr'), (False, True), (False, True)):
            SENT = Fresh('self.exception_value#')

            def oracle(p):
                return {'self.is_string': strlike == 'string', 'self.is_pyunicode_ptr': strlike == 'pyunicode_ptr',
                        'self.exception_value': SENT if val else None, 'self.exception_check': chk}.get(p, NOTFOUND)
            for p in Evaluator(oracle, what='CType.error_condition').run_function(fn):
                if p.kind != 'return':
                    continue
                toks, ops, falsy = _cond_of(p.ret)
                pt = (strlike, val, chk)
                probs = []
                want_first = 'null' if strlike != 'no' else ('eq' if val else None)
                got = []
                if isinstance(p.ret, (str, Str)) and not falsy:
                    text, vals = _numbered(p.ret if isinstance(p.ret, Str) else Str([p.ret]))
                    parts, ops = E.conjuncts(text)
                    for part in parts:
                        tk = _classify_conjunct(part, vals, None, None)
                        if tk[0] == 'other':
                            sh = _eq_shape(part, vals)
                            if sh and sh[0] == 'eq':
                                sides = [sh[1], sh[2]]
                                # one side is the result code, the other contains the sentinel
                                if any(isinstance(x, Obj) and x.path == arg for x in sides) and _value_in(text, vals, part, SENT):
                                    got.append('eq')
                                    continue
                            got.append('other:' + part)
                        elif tk[0] == 'null':
                            got.append('null' if isinstance(tk[1], Obj) and tk[1].path == arg else 'null-of-other')
                        else:
                            got.append(tk[0])
                want = ([want_first] if want_first else []) + (['pyerr'] if chk else [])
                if ops:
                    probs.append('joins its parts with %s instead of &&' % '/'.join(sorted(ops)))
                if got != want:
                    probs.append('yields [%s], required [%s]' % (', '.join(got), ', '.join(want)))
                if not want and not falsy:
                    probs.append('yields a non-empty condition although the type has neither an exception value nor an exception check')
                out.append((pt, probs, p.ret))
        return out

    def _value_in(text, vals, part, sent):
        ks = [int(k) for k in re.findall(r'§(\d+)§', part)]
        return any(_contains(vals[k], lambda v: v is sent) for k in ks)
    for pt, probs, ret in ctype_problems(fn):
        key = 'cond:CType.error_condition:%s/value=%s/check=%s' % pt
        r.inst(key, sample='%s -> %r' % (key, ret))
        for pb in probs:
            r.violate('cond:CType.error_condition', m.rel, fn.lineno,
                      'CType.error_condition for (string-like=%s, exception_value %s, exception_check=%s) %s: a failed conversion is not detected or a legitimate value equal to the '
                      'sentinel raises' % (pt[0], 'set' if pt[1] else 'unset', pt[2], pb))
    pc = ast.parse("def error_condition(self, result_code):\n    conds = []\n    if self.exception_value is not None:\n        conds.append('(%s == %s)' % (result_code, self.exception_value))\n"
                   "    if self.exception_check:\n        conds.append('PyErr_Occurred()')\n    return ' || '.join(conds)\n").body[0]
    pc_ok = any(pbs for _, pbs, _ in ctype_problems(pc))

    # ---- CTypedefType.error_condition (external typedef branch)
    td = ix.cls('PyrexTypes', 'CTypedefType')
    fn2 = td.methods.get('error_condition')
    if fn2 is None:
        raise AnalysisError('CTypedefType.error_condition vanished')
    arg2 = fn2.args.args[1].arg
    for ext, val, chk in itertools.product((False, True), (False, True), (False, True)):
        SENT = Fresh('self.exception_value#')

        def oracle(p):
            return {'self.typedef_is_external': ext, 'self.exception_value': SENT if val else None, 'self.exception_check': chk}.get(p, NOTFOUND)
        key = 'cond:CTypedefType.error_condition:external=%s/value=%s/check=%s' % (ext, val, chk)
        for p in Evaluator(oracle, what='CTypedefType.error_condition').run_function(fn2):
            if p.kind != 'return':
                continue
            r.inst(key, sample='%s -> %r' % (key, p.ret))
            delegated = isinstance(p.ret, Call) and p.ret.name == 'error_condition' and p.ret.args and isinstance(p.ret.args[0], Obj) and p.ret.args[0].path == arg2
            if delegated:
                continue
            if not isinstance(p.ret, (str, Str)):
                r.violate('cond:CTypedefType.error_condition', m.rel, fn2.lineno, 'CTypedefType.error_condition returns %r for %s' % (p.ret, key))
                continue
            text, vals = _numbered(p.ret if isinstance(p.ret, Str) else Str([p.ret]))
            parts, ops = E.conjuncts(text)
            got = []
            for part in parts:
                tk = _classify_conjunct(part, vals, None, None)
                if tk[0] == 'other':
                    sh = _eq_shape(part, vals)
                    if sh and sh[0] == 'eq' and any(isinstance(x, Obj) and x.path == arg2 for x in sh[1:3]) and _value_in(text, vals, part, SENT):
                        got.append('eq')
                        continue
                    got.append('other:' + part)
                else:
                    got.append(tk[0])
            want = ['eq'] + (['pyerr'] if chk else [])
            if ops or got != want:
                r.violate('cond:CTypedefType.error_condition', m.rel, fn2.lineno,
                          'CTypedefType.error_condition for an external typedef with exception_value set, exception_check=%s yields [%s]%s, required [%s] joined by &&: '
                          'a legitimate value equal to the sentinel raises, or a failed conversion is missed' % (chk, ', '.join(got), (' joined by ' + '/'.join(sorted(ops))) if ops else '', ', '.join(want)))

    # ---- CFuncType.ExceptionValue.exception_test_code
    evc = None
    for c in ix._all_classes(m) if hasattr(ix, '_all_classes') else []:
        if c.name == 'ExceptionValue' and 'exception_test_code' in c.methods:
            evc = c
    if evc is None:
        raise AnalysisError('CFuncType.ExceptionValue.exception_test_code vanished')
    fn3 = evc.methods['exception_test_code']
    res_arg = fn3.args.args[1].arg
    macro_names = set()
    for ctuple, nan in itertools.product((False, True), (False, True)):
        def oracle(p):
            return {'self.type.is_ctuple': ctuple}.get(p, NOTFOUND)

        def call_oracle(f, a, k):
            if f == 'self.may_be_nan':
                return nan
            return NOTFOUND
        key = 'cond:ExceptionValue.exception_test_code:ctuple=%s/nan=%s' % (ctuple, nan)
        for p in Evaluator(oracle, call_oracle, what='exception_test_code').run_function(fn3):
            if p.kind != 'return':
                continue
            r.inst(key, sample='%s -> %r' % (key, p.ret))
            if not isinstance(p.ret, Str):
                r.violate('cond:ExceptionValue.exception_test_code', m.rel, fn3.lineno, 'exception_test_code returns %r, not a C condition' % (p.ret,))
                continue
            text, vals = _numbered(p.ret)
            sh = _eq_shape(text, vals)
            # the result itself, or the result passed through a cast of the type (value-level correctness of casts is C32-TYPED's business)
            is_res = lambda v: (isinstance(v, Obj) and v.path == res_arg) or (isinstance(v, Call) and v.name == 'cast_code' and len(v.args) == 1
                                                                             and isinstance(v.args[0], Obj) and v.args[0].path == res_arg)
            is_sent = lambda v: _contains(v, lambda x: isinstance(x, Obj) and x.path == 'self') and not is_res(v)
            ok = False
            if sh and sh[0] == 'eq':
                ok = (is_res(sh[1]) and is_sent(sh[2])) or (is_res(sh[2]) and is_sent(sh[1]))
                if ctuple:
                    ok = False    # structs cannot be compared with ==
            elif sh and sh[0] == 'memcmp':
                ok = ((is_res(sh[1]) and is_sent(sh[2])) or (is_res(sh[2]) and is_sent(sh[1]))) and (is_res(sh[3]) or is_sent(sh[3]))
            elif sh and sh[0] == 'macro':
                ok = is_res(sh[2]) and is_sent(sh[3]) and nan
                macro_names.add(sh[1])
            if nan and not ctuple and not (sh and sh[0] == 'macro'):
                ok = False
            if not ok:
                r.violate('cond:ExceptionValue.exception_test_code', m.rel, fn3.lineno,
                          'exception_test_code for (ctuple=%s, sentinel may be NaN=%s) yields `%s`, which is not an equality test between the call result and the declared exception '
                          'value (==, memcmp(..)==0 for ctuples, the NaN-aware macro for float sentinels): `except <value>` functions lose or fabricate exceptions'
                          % (ctuple, nan, p.ret.text('<x>')))
    if not macro_names:
        raise AnalysisError('exception_test_code no longer uses a NaN-aware comparison macro; adapt the rule')
    for name in sorted(macro_names):
        decls = [d for d in ctx.cat.decls.get(name, []) if d.kind == 'macro']
        if not decls:
            r.violate('cond:' + name, m.rel, fn3.lineno, 'exception_test_code emits %s, which Cython/Utility does not define' % name)
            continue
        for d in decls:
            r.inst('cond:%s' % name, sample='%s(%s) %s' % (name, ', '.join(d.params or []), ' '.join((d.body or '').split())[:80]))
            for pb in nan_macro_problems(ctx, name, [p.strip() for p in (d.params or [])], d.body or '0'):
                r.violate('cond:' + name, d.file, d.line, '%s: %s — `except? <float sentinel>` functions lose or fabricate exceptions' % (name, pb))
    pc_macro = nan_macro_problems(ctx, 'X', ['value', 'error_value'], '((error_value) == (error_value) ? (value) == (error_value) : (value) == (value))')
    r.positive_control(pc_ok and bool(pc_macro), '|| joiner in error_condition; NaN branch of the macro inverted')
    return r


# ====================================================================================== C32-DEF
def _find_block(fn, names, any_of=()):
    """Innermost statement list of fn that contains calls to all the given method names (and one of any_of) -> (stmts, {name: [Call]})."""
    best = None
    allnames = tuple(names) + tuple(any_of)

    def calls_in(stmts):
        d = {}
        for s in stmts:
            for n in ast.walk(s):
                if isinstance(n, (ast.FunctionDef, ast.Lambda)) and n is not s:
                    pass
                if isinstance(n, ast.Call) and isinstance(n.func, ast.Attribute) and n.func.attr in allnames:
                    d.setdefault(n.func.attr, []).append(n)
        return d

    def rec(stmts):
        nonlocal best
        d = calls_in(stmts)
        if not all(k in d for k in names) or (any_of and not any(k in d for k in any_of)):
            return
        best = (stmts, d)
        for s in stmts:
            for field in ('body', 'orelse', 'finalbody'):
                sub = getattr(s, field, None)
                if isinstance(sub, list) and sub and isinstance(sub[0], ast.stmt) and not isinstance(s, (ast.FunctionDef, ast.ClassDef)):
                    rec(sub)
            for h in getattr(s, 'handlers', []) or []:
                rec(h.body)
    rec(fn.body)
    return best


def error_exit_rows(stmts):
    """Evaluate the error-exit block over memoryview x error value x caller-checks."""
    tracked = {'put_add_traceback', 'put_unraisable', 'error_value', 'caller_will_check_exceptions', 'putln'}
    # variables that (transitively) feed the tests guarding the tracked calls: names assigned from the two queries and names combined with them
    dep = set()
    changed = True
    while changed:
        changed = False
        for s in stmts:
            for n in ast.walk(s):
                if isinstance(n, ast.Assign) and len(n.targets) == 1 and isinstance(n.targets[0], ast.Name):
                    src_calls = {c.func.attr for c in ast.walk(n.value) if isinstance(c, ast.Call) and isinstance(c.func, ast.Attribute)}
                    src_names = {x.id for x in ast.walk(n.value) if isinstance(x, ast.Name)}
                    if (src_calls & {'error_value', 'caller_will_check_exceptions'} or src_names & dep) and n.targets[0].id not in dep:
                        dep.add(n.targets[0].id)
                        changed = True
                elif isinstance(n, ast.If):
                    tn = {x.id for x in ast.walk(n.test) if isinstance(x, ast.Name)}
                    if tn & dep:
                        for b in n.body + n.orelse:
                            for a in ast.walk(b):
                                if isinstance(a, ast.Assign) and len(a.targets) == 1 and isinstance(a.targets[0], ast.Name) and a.targets[0].id not in dep \
                                        and any(isinstance(x, ast.Name) and x.id in dep for x in ast.walk(a.value)) is False and a.targets[0].id in _names_used_in_tests(stmts, dep):
                                    dep.add(a.targets[0].id)
                                    changed = True

    def relevant(s):
        for n in ast.walk(s):
            if isinstance(n, ast.Call) and isinstance(n.func, ast.Attribute) and n.func.attr in ('put_add_traceback', 'put_unraisable'):
                return True
            if isinstance(n, ast.Name) and isinstance(n.ctx, ast.Store) and n.id in dep:
                return True
            if isinstance(n, ast.Call) and isinstance(n.func, ast.Attribute) and n.func.attr == 'putln' and \
                    any(isinstance(x, ast.Name) and x.id in dep for x in ast.walk(n)):
                return True
        return False
    rows = []
    for mv, has_val, chk in itertools.product((False, True), (False, True), (False, True, '+')):
        ERR = Fresh('ERROR_VALUE')

        def oracle(p):
            if p.endswith('.is_memoryviewslice'):
                return mv
            if re.fullmatch(r'Naming\.\w+', p):
                return Obj(p, True)           # Naming.* are non-empty C identifier strings
            return NOTFOUND

        def call_oracle(f, a, k):
            if f == 'self.error_value':
                return ERR if has_val else None
            if f == 'self.caller_will_check_exceptions':
                return chk
            return NOTFOUND
        ev = Evaluator(oracle, call_oracle, relevant=relevant, sensitive=lambda n: n in ('put_add_traceback', 'put_unraisable', 'error_value', 'caller_will_check_exceptions'),
                       what='FuncDefNode error exit')
        for p in ev.run_block(stmts):
            tb, ur = p.calls('put_add_traceback'), p.calls('put_unraisable')
            assigned = False
            for c in p.calls('putln'):
                a = c.args[0] if c.args else None
                if isinstance(a, Str):
                    text, vals = _numbered(a)
                    mm = re.fullmatch(r'\s*§(\d+)§\s*=\s*§(\d+)§\s*;\s*', text)
                    if mm and vals[int(mm.group(2))] is ERR and isinstance(vals[int(mm.group(1))], Obj) and vals[int(mm.group(1))].path.endswith('retval_cname'):
                        assigned = True
            rows.append(((mv, has_val, chk), len(tb), len(ur), assigned))
    return rows


def _names_used_in_tests(stmts, dep):
    out = set()
    for s in stmts:
        for n in ast.walk(s):
            if isinstance(n, ast.If):
                out |= {x.id for x in ast.walk(n.test) if isinstance(x, ast.Name)}
    return out


def error_exit_problems(rows):
    probs = set()
    for (mv, has_val, chk), ntb, nur, assigned in rows:
        where = '(%s return, error value %s, caller checks=%r)' % ('memoryview' if mv else 'non-memoryview', 'declared' if has_val else 'none', chk)
        want_tb = mv or has_val or bool(chk)
        if ntb and nur:
            probs.add('both: emits put_add_traceback AND put_unraisable on a path for %s: the exception is reported as unraisable and also propagated' % where)
        elif not ntb and not nur:
            probs.add('neither: emits neither put_add_traceback nor put_unraisable on a path for %s: the exception stays set while the function returns normally' % where)
        elif ntb > 1 or nur > 1:
            probs.add('twice: emits the error report %d times on a path for %s' % (max(ntb, nur), where))
        elif want_tb and not ntb:
            probs.add('unraisable: reports the exception as unraisable for %s although the caller can see the error: the exception is swallowed instead of propagated' % where)
        elif not want_tb and ntb:
            probs.add('traceback: propagates (put_add_traceback) for %s although the caller never tests for an error (noexcept): the exception surfaces at an unrelated later point' % where)
        if has_val and not mv and not assigned:
            probs.add('retval: does not assign the declared error value to the return variable on a path for %s: the caller\'s sentinel test does not see the error' % where)
    return sorted(probs)


def rule_def(ctx):
    ix = ctx.index
    r = Rule('C32-DEF', 'error exit of a function definition: exactly one of traceback / unraisable, traceback iff an error value exists or the caller checks; error value assigned; '
                        'CFuncDefNode reads the declaration the call side reads', floor=17)
    fd = ix.cls('Nodes', 'FuncDefNode')
    fn = fd.methods.get('generate_function_definitions')
    if fn is None:
        raise AnalysisError('FuncDefNode.generate_function_definitions vanished')
    blk2 = _find_block(fn, ('error_value', 'caller_will_check_exceptions'), any_of=('put_add_traceback', 'put_unraisable'))
    if blk2 is None:
        raise AnalysisError('FuncDefNode.generate_function_definitions: no block queries error_value() and caller_will_check_exceptions() and emits a traceback / unraisable report '
                            '(error exit not found)')
    stmts = blk2[0]
    rows = error_exit_rows(stmts)
    seen = set()
    for pt, ntb, nur, assigned in rows:
        k = 'def:error-exit:memoryview=%s/value=%s/check=%s' % pt
        r.inst(k + '#%d' % len(seen), sample='%s -> traceback x%d, unraisable x%d, error value assigned=%s' % (k, ntb, nur, assigned), nontrivial=k not in seen)
        seen.add(k)
    if len(seen) < 12:
        raise AnalysisError('error exit: only %d of 12 domain points produced a path' % len(seen))
    for pb in error_exit_problems(rows):
        kind, _, text = pb.partition(': ')
        r.violate('def:error-exit:' + kind, fd.module.rel, stmts[0].lineno, 'FuncDefNode.generate_function_definitions error exit ' + text)
    pc = ast.parse(
        "def f(self, code):\n    err_val = self.error_value()\n    exc_check = self.caller_will_check_exceptions()\n"
        "    if err_val is not None and exc_check:\n        code.put_add_traceback(self.entry.qualified_name)\n    else:\n        code.put_unraisable(self.entry.qualified_name)\n"
        "    if err_val is not None:\n        code.putln('%s = %s;' % (Naming.retval_cname, err_val))\n").body[0]
    pc_ok = any(p.startswith('unraisable') for p in error_exit_problems(error_exit_rows(pc.body)))

    # ---- CFuncDefNode.error_value / caller_will_check_exceptions
    cf = ix.cls('Nodes', 'CFuncDefNode')
    for meth, attr in (('error_value', 'exception_value'), ('caller_will_check_exceptions', 'exception_check')):
        f2 = cf.methods.get(meth)
        if f2 is None:
            raise AnalysisError('CFuncDefNode.%s vanished' % meth)
        for is_obj in ((False, True) if meth == 'error_value' else (False,)):
            def oracle(p):
                if p.endswith('.is_pyobject'):
                    return is_obj
                return NOTFOUND
            key = 'def:CFuncDefNode.%s' % meth
            for p in Evaluator(oracle, what='CFuncDefNode.' + meth).run_function(f2):
                if p.kind != 'return':
                    r.violate(key, cf.module.rel, f2.lineno, 'CFuncDefNode.%s can fall off its end (returns None): the declared %s is ignored on the definition side' % (meth, attr))
                    continue
                r.inst(key + ':object=%s' % is_obj, sample='CFuncDefNode.%s (object return=%s) -> %r' % (meth, is_obj, p.ret))
                if meth == 'error_value' and is_obj:
                    if p.ret not in ('0', 'NULL'):
                        r.violate(key, cf.module.rel, f2.lineno, 'CFuncDefNode.error_value returns %r for an object return; the call side tests `!result`, so the error value must be NULL' % (p.ret,))
                    continue
                ok = isinstance(p.ret, Obj) and re.fullmatch(r'self(\.entry)?\.type\.%s' % attr, p.ret.path)
                if not ok:
                    r.violate(key, cf.module.rel, f2.lineno,
                              'CFuncDefNode.%s returns %r instead of the %s of the function\'s CFuncType (self.entry.type), which is what the call side tests: definition and '
                              'call site disagree about how an error is signalled' % (meth, p.ret, attr))
    r.positive_control(pc_ok, 'traceback only when value AND check')
    return r


# ====================================================================================== C32-CHELP (clang as parser)
C_PRELUDE = '''
typedef struct _object PyObject;
typedef int PyGILState_STATE;
typedef long Py_ssize_t;
PyGILState_STATE PyGILState_Ensure(void);
void PyGILState_Release(PyGILState_STATE);
PyObject *PyErr_Occurred(void);
void PyErr_PrintEx(int);
void PyErr_WriteUnraisable(PyObject *);
PyObject *PyUnicode_FromString(const char *);
void __Pyx_ErrFetch(PyObject **, PyObject **, PyObject **);
void __Pyx_ErrRestore(PyObject *, PyObject *, PyObject *);
void Py_XINCREF(PyObject *); void Py_INCREF(PyObject *); void Py_DECREF(PyObject *); void Py_XDECREF(PyObject *);
extern PyObject *Py_None;
#define NULL ((void*)0)
#define CYTHON_INLINE inline
#define CYTHON_UNUSED_VAR(x) (void)(x)
#define CYTHON_MAYBE_UNUSED_VAR(x) (void)(x)
#define __Pyx_PyThreadState_declare
#define __Pyx_PyThreadState_assign
#define likely(x) (x)
#define unlikely(x) (x)
'''

CLEARS = {'__Pyx_ErrFetch', 'PyErr_Fetch', 'PyErr_Clear', 'PyErr_PrintEx', 'PyErr_Print', 'PyErr_WriteUnraisable', '__Pyx_PyErr_Clear'}
SETS = {'__Pyx_ErrRestore', 'PyErr_Restore', 'PyErr_SetString', 'PyErr_SetObject', 'PyErr_SetNone', 'PyErr_Format'}


def _c_func_text(ctx, name):
    ds = [d for d in ctx.cat.decls.get(name, []) if d.kind == 'func']
    if not ds:
        raise AnalysisError('C helper %s not found in Cython/Utility' % name)
    d = ds[0]
    sec_text = None
    for secs in ctx.cat.files.get(d.file.split('/')[-1], {}).values():
        for s in secs.values():
            if re.search(r'\b%s\s*\(' % re.escape(name), s.text) and '{' in s.text and (sec_text is None or d.body and d.body[:40] in s.text):
                if d.body and d.body[:40] in s.text:
                    sec_text = s.text
    return d, sec_text


def _c_calls(n):
    out = []
    for x in absint.c_walk(n):
        if x.get('kind') == 'CallExpr' and x.get('inner'):
            nm = absint.c_name(x['inner'][0])
            if nm:
                out.append((nm, x))
    return out


def c_typestate(fnast, params):
    """Walk a structured C function body for every valuation of the int parameters in `params` (tests on them are decided, other tests fork).
    -> list of (valuation, final error state 'set'|'clear', call name sequence)."""
    body = [c for c in fnast['inner'] if c.get('kind') == 'CompoundStmt'][0]
    results = []

    def cond_value(e, val):
        e = absint.c_strip(e)
        k = e.get('kind')
        if k == 'DeclRefExpr':
            nm = absint.c_name(e)
            return val.get(nm) if nm in val else None
        if k == 'UnaryOperator' and e.get('opcode') == '!':
            v = cond_value(e['inner'][0], val)
            return None if v is None else (not v)
        if k == 'IntegerLiteral':
            return bool(int(e.get('value', '0')))
        return None

    def run(stmts, states, val):
        for s in stmts:
            nxt = []
            for st in states:
                nxt.extend(step(s, st, val))
            states = nxt
        return states

    def apply_calls(node, st):
        err, seq, done = st
        if done:
            return st
        seq = list(seq)
        for nm, _ in sorted(_c_calls(node), key=lambda c: (c[1].get('range', {}).get('end', {}).get('offset', 0))):
            seq.append(nm)
            if nm in CLEARS:
                err = 'clear'
            elif nm in SETS:
                err = 'set'
        return (err, tuple(seq), done)

    def step(s, st, val):
        k = s.get('kind')
        if st[2]:
            return [st]
        if k == 'CompoundStmt':
            return run(s.get('inner', []), [st], val)
        if k == 'IfStmt':
            inner = s['inner']
            cond, then = inner[0], inner[1]
            els = inner[2] if len(inner) > 2 else None
            st = apply_calls(cond, st)
            v = cond_value(cond, val)
            out = []
            if v is not False:
                out.extend(step(then, st, val))
            if v is not True:
                out.extend(step(els, st, val) if els is not None else [st])
            return out
        if k == 'ReturnStmt':
            st = apply_calls(s, st)
            return [(st[0], st[1], True)]
        if k in ('ForStmt', 'WhileStmt', 'DoStmt', 'SwitchStmt', 'GotoStmt', 'LabelStmt'):
            raise AnalysisError('C helper uses %s, which the structured typestate walk does not model' % k)
        return [apply_calls(s, st)]
    for combo in itertools.product((False, True), repeat=len(params)):
        val = dict(zip(params, combo))
        for err, seq, _ in run(body.get('inner', []), [('set', (), False)], val):
            results.append((val, err, seq))
    return results


def unraisable_problems(text, name='__Pyx_WriteUnraisable'):
    fnast = absint.clang_function_ast(text, name, prelude=C_PRELUDE)
    params = [p.get('name') for p in fnast.get('inner', []) if p.get('kind') == 'ParmVarDecl']
    if 'nogil' not in params:
        raise AnalysisError('%s has no `nogil` parameter any more' % name)
    probs = set()
    rows = c_typestate(fnast, ['nogil'])
    for val, err, seq in rows:
        ng = val['nogil']
        if err != 'clear':
            probs.add('returns with the error indicator still set on a path (calls: %s): the "unraisable" exception leaks into the code that runs after the noexcept function' % ' '.join(seq))
        if 'PyErr_WriteUnraisable' not in seq:
            probs.add('has a path that never calls PyErr_WriteUnraisable: the exception disappears silently')
        # the reporters print the CURRENT exception: the error indicator must be set when they run (fourth round)
        cur = 'set'
        for c in seq:
            if c in ('PyErr_WriteUnraisable', 'PyErr_PrintEx', 'PyErr_Print') and cur != 'set':
                probs.add('calls %s while the error indicator is clear (the exception was fetched and not restored; calls: %s): nothing is reported and the fetched exception objects leak' % (c, ' '.join(seq)))
            if c in CLEARS:
                cur = 'clear'
            elif c in SETS:
                cur = 'set'
        py = [i for i, c in enumerate(seq) if c not in ('PyGILState_Ensure', 'PyGILState_Release')]
        ens = [i for i, c in enumerate(seq) if c == 'PyGILState_Ensure']
        rel = [i for i, c in enumerate(seq) if c == 'PyGILState_Release']
        if ng:
            if len(ens) != 1 or len(rel) != 1 or (py and not (ens[0] < py[0] and rel[0] > py[-1])):
                probs.add('with nogil=1 the Python API calls are not bracketed by exactly one PyGILState_Ensure/PyGILState_Release pair (calls: %s)' % ' '.join(seq))
        elif ens or rel:
            probs.add('with nogil=0 it still takes/releases the GIL state (calls: %s)' % ' '.join(seq))
    return sorted(probs), len(rows)


def err_occurred_problems(text, name='__Pyx_ErrOccurredWithGIL'):
    fnast = absint.clang_function_ast(text, name, prelude=C_PRELUDE)
    body = [c for c in fnast['inner'] if c.get('kind') == 'CompoundStmt'][0]
    if any(n.get('kind') in ('IfStmt', 'ForStmt', 'WhileStmt', 'GotoStmt', 'SwitchStmt', 'ConditionalOperator') for n in absint.c_walk(body)):
        raise AnalysisError('%s is no longer straight-line code' % name)
    calls = sorted(_c_calls(body), key=lambda c: c[1].get('range', {}).get('begin', {}).get('offset', 0))
    order = [nm for nm, _ in calls]
    probs = []
    core = [c for c in order if c in ('PyGILState_Ensure', 'PyErr_Occurred', 'PyGILState_Release')]
    if core != ['PyGILState_Ensure', 'PyErr_Occurred', 'PyGILState_Release']:
        probs.append('does not call PyGILState_Ensure, PyErr_Occurred, PyGILState_Release in this order (found %s): the error indicator is read without the GIL' % ' '.join(order))
    # the returned value is the truth of PyErr_Occurred()
    src = None     # variable (or direct expression) holding the result
    holder = {}
    for n in absint.c_walk(body):
        k = n.get('kind')
        tgt, val = None, None
        if k == 'BinaryOperator' and n.get('opcode') == '=':
            tgt, val = absint.c_name(n['inner'][0]), n['inner'][1]
        elif k == 'VarDecl' and n.get('inner'):
            tgt, val = n.get('name'), n['inner'][-1]
        if tgt and val is not None and any(nm == 'PyErr_Occurred' for nm, _ in _c_calls(val)):
            holder[tgt] = val
    ret = [n for n in absint.c_walk(body) if n.get('kind') == 'ReturnStmt']
    if len(ret) != 1 or not ret[0].get('inner'):
        probs.append('does not return a value exactly once')
    else:
        rv = absint.c_name(ret[0]['inner'][0])
        expr = holder.get(rv)
        if expr is None:
            probs.append('returns a value that is not computed from PyErr_Occurred()')
        else:
            # polarity: count logical negations / comparisons with NULL around the call
            def polarity(e):
                e = absint.c_strip(e)
                k = e.get('kind')
                if k == 'CallExpr':
                    return True if absint.c_name(e['inner'][0]) == 'PyErr_Occurred' else None
                if k == 'UnaryOperator' and e.get('opcode') == '!':
                    p = polarity(e['inner'][0])
                    return None if p is None else (not p)
                if k == 'BinaryOperator' and e.get('opcode') in ('!=', '=='):
                    a, b = e['inner']
                    for x, y in ((a, b), (b, a)):
                        p = polarity(x)
                        ys = absint.c_strip(y)
                        zero = ys.get('kind') == 'IntegerLiteral' and ys.get('value') == '0' or ys.get('kind') in ('GNUNullExpr', 'CXXNullPtrLiteralExpr') or \
                            (ys.get('kind') == 'IntegerLiteral')
                        if p is not None and zero:
                            return p if e.get('opcode') == '!=' else (not p)
                    return None
                return None
            pol = polarity(expr)
            if pol is not True:
                probs.append('returns %s of PyErr_Occurred(): every `except *` call under nogil then %s' % (
                    'the negation' if pol is False else 'an unrecognised function', 'raises when nothing happened and misses real errors' if pol is False else 'is tested wrongly'))
    return probs


def rule_chelp(ctx):
    r = Rule('C32-CHELP', 'C helpers: __Pyx_ErrOccurredWithGIL reads the error indicator under the GIL; __Pyx_WriteUnraisable clears the error indicator on every path and brackets by nogil', floor=5)
    for name, fnc in (('__Pyx_ErrOccurredWithGIL', err_occurred_problems), ('__Pyx_WriteUnraisable', None)):
        ds = [d for d in ctx.cat.decls.get(name, []) if d.kind == 'func']
        if not ds:
            raise AnalysisError('C helper %s not found in Cython/Utility/Exceptions.c' % name)
        for d in ds:
            text = '%s %s(%s) %s\n' % (d.ret, name, ', '.join(d.params or []) or 'void', d.body if d.body.lstrip().startswith('{') else '{' + d.body + '}')
            text = re.sub(r'\bstatic\b', '', text)
            if fnc is not None:
                r.inst('chelp:' + name, sample=name + ' call order checked through the clang AST')
                for pb in fnc(text, name):
                    r.violate('chelp:' + name, d.file, d.line, '%s %s' % (name, pb))
            else:
                probs, n = unraisable_problems(text, name)
                for i in range(n):
                    r.inst('chelp:%s:path%d' % (name, i), sample='%s path %d' % (name, i))
                for pb in probs:
                    r.violate('chelp:' + name, d.file, d.line, '%s %s' % (name, pb))
    pc = ('void __Pyx_WriteUnraisable(const char *name, int clineno, int lineno, const char *filename, int full_traceback, int nogil) {\n'
          ' PyObject *a, *b, *c, *ctx; PyGILState_STATE state; if (nogil) state = PyGILState_Ensure(); else state = 0;\n'
          ' __Pyx_ErrFetch(&a, &b, &c); ctx = PyUnicode_FromString(name); __Pyx_ErrRestore(a, b, c);\n'
          ' if (!ctx) { PyErr_WriteUnraisable(Py_None); } else { Py_DECREF(ctx); }\n if (nogil) PyGILState_Release(state); }\n')
    pc2 = 'int __Pyx_ErrOccurredWithGIL(void) { int err; PyGILState_STATE s = PyGILState_Ensure(); PyGILState_Release(s); err = !!PyErr_Occurred(); return err; }\n'
    r.positive_control(bool(unraisable_problems(pc)[0]) and bool(err_occurred_problems(pc2)), 'error indicator left set; PyErr_Occurred after releasing the GIL')
    return r


HELPERS = ('__Pyx_WriteUnraisable', '__Pyx_AddTraceback', '__Pyx_ErrOccurredWithGIL', '__Pyx_CppExn2PyErr', '__PYX_CHECK_FLOAT_EXCEPTION')


def run(ctx):
    cpp, tr, roles = rule_cpp(ctx)
    rules = [rule_call(ctx, tr, roles), cpp, rule_cond(ctx), rule_def(ctx), rule_chelp(ctx),
             rule_I5(ctx, modules=('Code', 'ExprNodes', 'PyrexTypes', 'Nodes', 'ModuleNode'), names=lambda n: n in HELPERS, floor=5, rid='C32-I5')]
    from ..rules import functype_copy, sC32
    rules.append(functype_copy.rule_copy(ctx))
    rules.append(sC32.rule_typed(ctx))
    # fourth round: the declaration side (parser table, declaration analysis, signature compatibility) and call/def-side couplings
    rules += [sC32.rule_parse(ctx), sC32.rule_decl(ctx), sC32.rule_compat(ctx), sC32.rule_temp(ctx), sC32.rule_errgil(ctx), sC32.rule_argname(ctx, HELPERS)]
    return rules
