"""C10 — string/bytes literals keep their values: escape decision table (lexicon x parser x builders vs. CPython),
totality of the string states, lexicon/scanner/parser name agreement, sibling literal builders, compression numbering."""
from ..rules import pC10

ID = 'C10'
TECHNIQUE = ('finite-domain folding of table-like source: Lexicon.make_lexicon() is rebuilt as NFAs from its Plex constructor expressions; '
             'p_string_literal_shared_read/_append_escape_sequence and the literal-builder methods are folded on their ASTs with scanner and builder as '
             'recording placeholders (only builtins of the checker\'s interpreter are ever called); the resulting decision table is compared with the '
             'checker\'s own CPython (ast.literal_eval, unicodedata); first-set/longest-match analysis; table comparison for the compression numbers')
DECIDES = ('C10-ESC: for every escape token the lexicon cuts out of a string body (every ASCII character after the backslash, with the operand shapes of '
           'octal, \\x, \\u, \\U, \\N{}; str, bytes, unprefixed, raw, triple-quoted and f-string bodies) the branch of _append_escape_sequence reached and the '
           'builder calls made there yield the value, or the error, CPython assigns to the same literal, and the compiler does not raise; '
           'C10-NAME: the \\N{...} token accepts every character that occurs in a Unicode character name; '
           'C10-TOTAL: every string state of the lexicon has a matching rule for every next character and for end of file; '
           'C10-L6: Method() actions name PyrexScanner methods, begin() targets are lexicon states, every string state is entered, '
           'every token symbol of a string state has a branch in p_string_literal_shared_read; '
           'C10-SIB: StrLiteralBuilder.append* have on each side exactly the effect of the corresponding sibling builder, getstrings() returns (bytes, unicode); '
           'C10-ALG: compression algorithm numbers agree between Code.compression_algorithms, the module chain of __Pyx_DecompressString and the emitted '
           '#if guards; each branch decompresses the data it wrote with the matching helper, lengths and *_UNUSED switch.')
NOT_DECIDED = ('decoding of non-escape characters (source encoding, non-ASCII text, surrogate pairs), prefix validation and implicit concatenation in '
               'p_string_literal/p_cat_string_literal, Py2-style ur"" literals (language_level 2), the path from the literal node to the C string table '
               '(escaping: C11; LZSS bit format: C12) and the run-time decoding (PyUnicode_DecodeUTF8 per table entry).')
ASSUMPTIONS = [
    'builder class per literal kind as constructed in p_string_literal: u/f -> UnicodeLiteralBuilder, b/c -> BytesLiteralBuilder, unprefixed -> StrLiteralBuilder',
    'Plex semantics: longest match, earlier rule wins ties, Bol/Eol are optional markers (Cython/Plex/Regexps.py)',
    'the reference is the CPython running the checker (3.12): escape table of ast.literal_eval, names of unicodedata',
]

# single-edit variants tried on a scratch copy (file, edit, finding that reported it) - all 22 reported
MUTATIONS = [
    ('Cython/Compiler/Parsing.py', '_append_escape_sequence: `elif c in "abfnrtv"` -> `"abfnrt"` (the \\v branch removed)', 'C10-ESC escape:\\v:value'),
    ('Cython/Compiler/Parsing.py', '_append_escape_sequence: `len(escape_sequence) == 4` -> `== 3` in the \\x branch', 'C10-ESC escape:\\x:spurious-error'),
    ('Cython/Compiler/Parsing.py', '_append_escape_sequence: `int(escape_sequence[1:], 8)` -> base 10', 'C10-ESC escape:\\octal:value'),
    ('Cython/Compiler/Parsing.py', "p_string_literal_shared_read: `elif sy == 'NEWLINE'` branch removed", 'C10-L6 symbol:NEWLINE (+ C10-ESC unhandled-token)'),
    ('Cython/Compiler/Lexicon.py', 'escapeseq: "v" dropped from Opt(Any("\\n\\\\\'\\"abfnrtvNxuU"))', 'C10-ESC escape:\\v:value'),
    ('Cython/Compiler/Lexicon.py', "escapeseq: Str('x') + two_hex -> Str('x') + hexdigit", 'C10-ESC escape:\\x:*'),
    ('Cython/Compiler/Lexicon.py', "SQ_STRING: rule (Str('\"'), 'CHARS') removed", "C10-TOTAL state:SQ_STRING:'\"'"),
    ('Cython/Compiler/Lexicon.py', "TDQ_STRING: AnyBut('\"\\'\\n\\\\') -> AnyBut('\"\\'\\n\\\\x')", "C10-TOTAL state:TDQ_STRING:'x'"),
    ('Cython/Compiler/Lexicon.py', "Method('unclosed_string_action') -> Method('unclosed_string')", 'C10-L6 Method:unclosed_string'),
    ('Cython/Compiler/Scanning.py', "string_states: 'TSQ_STRING' -> 'TSQ_STRINGS'", 'C10-L6 begin:*:TSQ_STRINGS, state-entered:TSQ_STRING'),
    ('Cython/Compiler/StringEncoding.py', 'StrLiteralBuilder.append_uescape: self._unicode.append_charval(char_number) -> self._unicode.append(escape_string)', 'C10-SIB + C10-ESC escape:\\u:value'),
    ('Cython/Compiler/StringEncoding.py', 'StrLiteralBuilder.getstrings: tuple order swapped', 'C10-SIB StrLiteralBuilder.getstrings:order'),
    ('Cython/Compiler/StringEncoding.py', "char_from_escape_sequence: r'\\v' : '\\v' -> '\\f'", 'C10-ESC escape:\\v:value'),
    ('Cython/Compiler/Parsing.py', '_append_escape_sequence: \\u/\\U value parsed with int(..., 10)', 'C10-ESC escape:\\u:value/crash, escape:\\U:crash/missing-error'),
    ('Cython/Compiler/Parsing.py', "_append_escape_sequence: `elif c in \"'\\\"\\\\\"` loses the backslash", 'C10-ESC escape:\\\\:value'),
    ('Cython/Compiler/StringEncoding.py', "BytesLiteralBuilder.append_charval: .encode('ISO-8859-1') -> .encode('UTF-8')", 'C10-ESC escape:\\octal:bytes-value, escape:\\x:bytes-value'),
    ('Cython/Compiler/Parsing.py', 'p_string_literal_shared_read: `is_python3_source` negated in the raw test', 'C10-ESC escape:\\u:value (raw str literal)'),
    ('Cython/Compiler/Code.py', "compression_algorithms: (2, 'bz2', ...) -> (4, 'bz2', ...)", 'C10-ALG compression:4:bz2'),
    ('Cython/Utility/StringTools.c', '__Pyx_DecompressString: `algo == 2 ? "bz2"` -> `algo == 4 ? "bz2"`', 'C10-ALG compression:2:bz2'),
    ('Cython/Compiler/Code.py', 'generate_pystring_constants: zstd guard `== {algo_number}` -> `== 4`', 'C10-ALG guard:zstd:=='),
    ('Cython/Compiler/Code.py', 'generate_pystring_constants: the two `#define ..._UNUSED` lines of the lzss/else branches swapped', 'C10-ALG define:lzss:__Pyx_DecompressString_LZSS_UNUSED'),
    ('Cython/Compiler/Code.py', '__Pyx_DecompressString_LZSS(cstring, {len(compressed_bytes)}, {len(concat_bytes)}) -> lengths swapped', 'C10-ALG call:__Pyx_DecompressString_LZSS:length/size'),
]
# behaviour-preserving edits - all silent (apart from the two findings of the unchanged tree)
PRESERVING = [
    ('Cython/Compiler/Parsing.py', '_append_escape_sequence: branches reordered (quotes before octal), local `c` renamed, `c in "abfnrtv"` rewritten as `c in "abfnrt" or c == "v"`', 'silent'),
    ('Cython/Compiler/Lexicon.py', 'escapeseq alternatives reordered, two_hex inlined as hexdigit + hexdigit, state rules of DQ_STRING reordered where lengths differ', 'silent'),
    ('Cython/Compiler/StringEncoding.py', 'StrLiteralBuilder.append_uescape forwards to self._bytes.append_uescape / self._unicode.append_uescape instead of the inlined calls', 'silent'),
    ('Cython/Compiler/Code.py', 'generate_pystring_constants: `n = len(compressed_bytes)` hoisted into a local used in both calls; table rows of compression_algorithms reordered after lzss', 'silent'),
]


def _lzss(ctx):
    """the literal values must survive the default (LZSS) compression setting: the C12 writer/reader rules of the LZSS format, under C10 ids"""
    from ..rules import sC12
    rules = sC12.lzss_rules(ctx) + [sC12.rule_match(ctx), sC12.rule_end(ctx), sC12.rule_literal(ctx), sC12.rule_caller(ctx), sC12.rule_extent(ctx)]
    for r in rules:
        r.id = 'C10-LZSS-' + r.id.split('-', 1)[1]
        for f in r.findings:
            f.rule = r.id
    return rules


def _cstring(ctx):
    """the literal values must survive being written as C string / character literals: a literal, or the whole string table, longer than the C-literal split limit is cut
    into `"..." "..."` pieces (split_string_literal) or written as a character array (_split_characters), after byte-wise escaping (escape_byte_string / escape_char).
    These are the C11 rules of that leg (escape table read back with a reference C reader, decision table of the cut position over every sequence of escape-token shapes
    lying across a chunk end, tokeniser of the array form, def-use from every quoted placeholder back to an escaper), under C10 ids: a cut inside `\\ooo`, a lost escape
    or an unescaped quote changes the run-time value of the literal, which is this property."""
    from ..rules import pC11, sC11
    esc, _longest = pC11.rule_escape_table(ctx)
    rules = [esc, pC11.rule_escape_char(ctx), pC11.rule_raw_literals(ctx), sC11.rule_cut(ctx), sC11.rule_char_array(ctx), sC11.rule_sinks(ctx)]
    for r in rules:
        if r.id == 'C11-SRC':
            r.floor = 2      # three call sites today; a literal writer that escapes piece-wise and needs no splitter leaves two (the floor in pC11 equals the count)
        r.id = 'C10-CSTR-' + r.id.split('-', 1)[1]
        for f in r.findings:
            f.rule = r.id
    return rules


# the one benign inconsistency of the escaper that C11 lists (see sa/props/C11.py EXEMPT), under the id the rule has here
EXEMPT = {
    ('C10-CSTR-ESC', 'byte:0x7f:unreadable'):
        'escape_byte_string writes DEL (0x7f) raw when no byte >= 128 is present and as \\177 otherwise; a raw DEL inside a string literal is implementation-defined, not invalid, '
        'and gcc/clang/MSVC map it to 0x7f (same entry as C11-ESC in sa/props/C11.py). Inconsistent, not wrong.',
}


def run(ctx):
    from ..rules import sC10
    return _lzss(ctx) + _cstring(ctx) + [pC10.rule_escapes(ctx), pC10.rule_name_alphabet(ctx), pC10.rule_total(ctx), pC10.rule_l6(ctx),
            pC10.rule_siblings(ctx), pC10.rule_algorithms(ctx),
            sC10.rule_prefix(ctx), sC10.rule_cat(ctx), sC10.rule_strtab(ctx), sC10.rule_pykey(ctx), sC10.rule_strfold(ctx), sC10.rule_clen(ctx), sC10.rule_builders(ctx), sC10.rule_pyrequest(ctx), sC10.rule_newlines(ctx), sC10.rule_codec(ctx)]


# ---------------------------------------------------------------------------------------------------------------------------------
# fourth strengthening round (session G11): rules of sa/rules/sC10.py
DECIDES += (' C10-PREFIX: for every prefix the lexicon accepts (all spellings / orders of u b r, c, f t with r; four quote styles; language level 2/3) p_string_literal / '
            'p_ft_string_literal give the kind, rawness and builder CPython assigns (reference: ast.literal_eval of the prefix), and begin_string_action / begin_ft_string_action '
            'enter the lexicon state of the quote style, raw exactly when the parser reads the literal raw. '
            'C10-CAT: p_cat_string_literal on every sequence of two or three literals of kinds b / u / unprefixed / f joins the parts in source order in both values, keeps plain '
            'parts of an f-string, rejects bytes mixed with str. '
            'C10-BUILD: the three literal builders hand back (None, str) / (bytes, None) / (bytes, str) and encode text pieces with the source encoding. '
            'C10-NL: line breaks in triple-quoted bodies. '
            'C10-TAB: generate_pystring_constants folded on 53 mixes of plain / non-ASCII / interned text and bytes constants with and without compressible data; in every #if branch '
            'every #define names the slot that the emitted unpacking loops fill with the constant\'s value and type (length index widths, offsets, sort order, branch data lineage). '
            'C10-PYKEY / C10-PYREQ: the per-C-string cache of Python constants and GlobalState.get_py_string_const return a constant of the kind / encoding of the requesting literal. '
            'C10-STRFOLD: folding of `literal * n` and `literal + literal` keeps the str value and its bytes twin in step. '
            'C10-CLEN / C10-CODEC: sizeof(<C string>) - 1 as data length, the decompressor\'s length parameter unchanged, encode codec == emitted PyUnicode_Decode<codec>.')
NOT_DECIDED = ('decoding of the source file itself (coding cookie, BOM), surrogate pairs on narrow builds, Py2-style ur"" literals (language_level 2), the escaping of the table data as a C '
               'string literal (C11), the LZSS bit format (C12), the stdlib codecs behind zlib / bz2 / zstd, the interning decision beyond "identifier-like constants are interned".')
MUTATIONS = 'see /verif/mutants/C10/*/meta.json (34 brainstormed mutants: 26 breaking - all reported, 8 behaviour-preserving - all silent); the 22 variants of the first build are listed above'

# sixth strengthening round (session I1)
DECIDES += (' C10-CSTR-*: the leg from the literal value to the C source text, i.e. the C11 rules under C10 ids: CSTR-ESC / CSTR-CHR (escape_byte_string / escape_char read back with a '
            'reference C reader for all 256 bytes and adversarial neighbours), CSTR-CUT (split_string_literal puts the `""` separator of a literal longer than the split limit only between '
            'escape tokens: decision table over every sequence of the escaper\'s token shapes lying across a chunk end), CSTR-SRC (what is handed to the splitter is escaper output or joined '
            'with complete escapes), CSTR-ARR (the character-array form of constants >= 64K tokenises exactly at C token boundaries), CSTR-SINK (every quoted placeholder of the literal '
            'writers is derived from an escaper on every def-use path). C10-TAB now folds _write_escaped_cstring_const as written, with the folded escape_byte_string, and reads the text that '
            'reaches _write_cstring_const back with the reference C reader: the table slots are compared with the bytes a C compiler sees (two constants whose seam reads `??=` are part of '
            'the mixes, so escaping string by string instead of the table as a whole is reported). C10-LZSS-EXTENT: see C12-EXTENT.')
NOT_DECIDED = ('decoding of the source file itself (coding cookie, BOM), surrogate pairs on narrow builds, Py2-style ur"" literals (language_level 2), the LZSS match finder beyond C12-MATCH, '
               'the stdlib codecs behind zlib / bz2 / zstd, the interning decision beyond "identifier-like constants are interned"; that the cut table of split_string_literal computed at '
               'limits 6 / 7 is the table at the production limit 2000 (see C11 NOT_DECIDED); C compilers\' limits on literal length.')
MUTATIONS = ('see /verif/mutants/C10/*/meta.json (47 brainstormed mutants: 33 breaking - all reported, 14 behaviour-preserving - all silent); round 6 added x6-* / P6-* for the C-literal leg '
             '(cut position, run handling, chunk bookkeeping, literal writer bypassing the splitter, table escaped string by string, separator of the number table); the 22 variants of the '
             'first build are listed above')
