"""C42 — compilation is deterministic (structural clause: no hash-order dependent iteration reaches the output)."""
import ast

from ..core import Rule, AnalysisError, node_src
from ..rules import det, sC42
from ..engine.pyindex import walk_no_nested

ID = 'C42'
TECHNIQUE = ('order-taint dataflow (sets and containers filled by iterating sets, one-level function summaries, sets held by other objects, sets handed to iterating callees, dicts filled from sets) '
             'to order-sensitive sinks; id()/hash()/clock/pid/random values never flow into emitted text or sort keys; memo keys cover what the memoised value depends on, attribute by attribute where the key holds only a projection of a parameter; '
             'no class-level mutable state mutated through instances; typestate of the compilation Context')
DECIDES = ('D1/D1b: in Cython/Compiler, Build/Dependencies.py, Cache.py, Inline.py, Utils.py no set/frozenset (or list/tuple/dict built by iterating one, also through one level of calls, also when the set is an '
           'attribute of another object or is handed to a callee that iterates its parameter) is iterated into an order-sensitive effect (emitting code, appending, joining, list()/tuple(), yield, yield from) without sorted(); '
           'D2: id()/hash() of objects never flows into strings and is never a sort key; D4: clock, process id and random sources never reach code-writer calls or returned strings; '
           'D3/D3g: every memo container whose cached value depends on a parameter includes it in the key (whole mapping, not single entries); '
           'D3p: a parameter that enters a memo key only through projections (p.attr, p.method(), len/type/truth of p, the keys of a **mapping) is read by the '
           'memoised value only through those projections - attribute reads by prefix, method calls by the union of the self-attributes every compiler method of that name reads; '
           'D5: no class-level mutable container is mutated through instances without being rebound per instance; D6: compile_multiple never reuses a Context for a second source.')
NOT_DECIDED = ('nondeterminism from file-system listing order (it changes the order of module lists, not a generated file), parallel build scheduling, object addresses used as set-iteration order where all '
               'consumers are order-insensitive (exempted case by case), and state shared through module-level globals other than memo containers.  D3p resolves p.method() nominally (union over every compiler class that defines the method): '
               'a key holding exactly the attributes that one override reads is still reported when another override reads more; functional dependencies between attributes (a key on p.a where the value reads '
               'p.b = f(p.a)) are not known to it; a parameter handed as a whole to an opaque function inside the KEY expression counts as present as a whole.')

MUTATIONS = [
    # patches and outcomes under /verif/mutants/C42/<name>/
    ('Cython/Compiler/*.py, Cython/Build/Dependencies.py', 'cleanup-temps-unsorted, dict-helpers-unsorted, switch-chars-unsorted, cimports-unsorted, incdirs-unsorted, normalize-unsorted, requires-unsorted, privates-set-join', 'D1'),
    ('Cython/Compiler/*.py', 'subscopes-unsorted (yield from), types-imported-unsorted (set of another object), fused-mapper-set (set handed to an iterating callee), helpers-via-dict (dict filled from a set)', 'D1b'),
    ('Cython/Compiler/Code.py, ModuleNode.py', 'label-with-id (.format), label-id-concat, const-name-hash, sort-by-id', 'D2'),
    ('Cython/Compiler/Code.py, Symtab.py', 'header-timestamp, header-pid, tempname-random', 'D4'),
    ('Cython/Compiler/PyrexTypes.py, Code.py', 'typeid-cache-no-scope, utilcache-no-context, specialize-cache-name-only', 'D3 / D3g'),
    ('Cython/Compiler/PyrexTypes.py, Code.py', 'seed C42h (key scope.name, value scope.mangle()), typeid-key-scope-truth, typeid-key-and-name, typeid-key-getattr-name, typeid-key-type-of-scope, '
     'typeid-key-string-name, tempita-cache-context-keys, tempita-cache-context-len, specialize-key-kwarg-names', 'D3p'),
    ('Cython/Compiler/Symtab.py', 'idcounters-class-level', 'D5'),
    ('Cython/Compiler/Main.py', 'context-reused', 'D6'),
    ('*', 'silent: p-sorted-key, p-list-sort, p-membership-only, p-typeid-key-reordered, p-id-in-repr, p-context-reset-else, p-fused-allbuf-set, p-pid-tmpfile, p-glob-unsorted, p-typeid-key-helper, p-typeid-value-helper, p-typeid-key-redundant-name, p-typeid-early-return', ''),
]

_B = 'benign: '
EXEMPT = {
    ('D1', "Inline.unbound_symbols:UnboundSymbols()(tree)-set(dir(builtins))"): _B + 'the consumer only tests membership / fills kwds whose names are sorted (arg_names = sorted(kwds)) before they reach the generated module',
    ('D1', 'Code.UtilityCodeBase.load:values'): _B + 'list(values)[0] is taken only under len(values) == 1; the multi-valued case iterates sorted(values)',
    ('D1', 'ExprNodes.infer_sequence_item_type:item_types'): _B + 'the set of item types is reduced with reduce_spanning_types, a lattice join (commutative, associative)',
    ('D1', 'ExprNodes.MergedSequenceNode.calculate_constant_result:result'): _B + 'flow-insensitive alias: `result` is a list when tuple()/iteration happens; it is rebound to a set only in the branch that produces a set constant',
    ('D1', 'ExprNodes.MergedSequenceNode.compile_time_value:result'): _B + 'same as calculate_constant_result',
    ('D1', 'FlowControl.ControlFlow.initialize:self.blocks:for'): _B + 'assigns internal bit positions to assignments; the bit numbering is an internal identifier of the dataflow solver, results are mapped back to statements',
    ('D1', 'Options.CompilationOptions.__init__:unknown_directives'): _B + 'only the wording of a ValueError message for invalid directives, no generated code',
    ('D1', 'Options.CompilationOptions.__init__:unknown_options'): _B + 'only the wording of a ValueError message for invalid options, no generated code',
    ('D1', 'PyrexTypes.widest_cpp_type:common_bases'): _B + 'feeds reduce(set.union, ...) and a candidate list that is only used when it has exactly one element',
    ('D1b', 'FlowControl.GV.render:self.flow.blocks'): _B + 'GV renders the control-flow graph as a graphviz .dot file (directive control_flow.dot_output, a debugging aid); it is not part of the generated C',
    ('D1b', 'FlowControl.check_definitions:flow.blocks'): _B + 'fills entry.cf_assignments / cf_references per entry; every consumer is order-insensitive: any()/existence tests with early return, per-element flag updates, '
                                                                  'set building in type inference and the spanning-type join (commutative, associative)',
    ('D3g', 'Code.sub_tempita:__cache:file,name'): _B + 'file/name only label the compiled Template object for Tempita error messages; the substitution result depends on the template text (the key) and the context passed at call time',
    ('D3g', 'Symtab.ModuleScope.declare_defaults_c_class:self._cached_defaults_c_class_entries:pos'): _B + 'pos is only the source position recorded for diagnostics of the synthesized defaults class; the per-module memo is keyed by the component types',
    ('D5', 'Code.UtilityCodeBase._utility_cache'): _B + 'process-wide memo of parsed utility FILES keyed by path: its value is a function of the file content, identical for every module compiled in the process',
    ('D5', 'Options.ShouldBeFromDirective.known_directives'): _B + 'registry filled by the module-level ShouldBeFromDirective(...) instances while Options.py is imported, never during a compilation',
    ('D1', 'Symtab.Scope.lookup_operator:set(method_alternatives+function_alternatives)'): _B + 'de-duplication before PyrexTypes.best_match, which scores every alternative and reports ambiguity instead of picking by position',
}


def rule_D2(ctx):
    ix = ctx.index
    r = Rule('D2', 'id()/hash() values never flow into strings (names, labels, C identifiers)', floor=1)
    n_calls = 0
    for m in ix.modules.values():
        if not (m.name.startswith('Cython.Compiler') or m.short in ('Dependencies', 'Cache', 'Utils')):
            continue
        for qn, owner, fn in ix.functions_of(m):
            for n in walk_no_nested(fn):
                if isinstance(n, ast.Call) and isinstance(n.func, ast.Name) and n.func.id in ('id', 'hash') and len(n.args) == 1:
                    n_calls += 1
                    # where does it go?  string formatting / concatenation / str() is a sink; dict keys, comparisons, set membership are fine
                    parent_fmt = False
                    for p in walk_no_nested(fn):
                        if isinstance(p, ast.JoinedStr) and any(x is n for x in ast.walk(p)):
                            parent_fmt = True
                        if isinstance(p, ast.BinOp) and isinstance(p.op, ast.Mod) and any(x is n for x in ast.walk(p.right)) and isinstance(p.left, ast.Constant) and isinstance(p.left.value, str):
                            parent_fmt = True
                        if isinstance(p, ast.Call) and isinstance(p.func, ast.Name) and p.func.id in ('str', 'repr', 'hex', 'format', 'oct', 'bin') and any(x is n for x in ast.walk(p)):
                            parent_fmt = True
                        if isinstance(p, ast.Call) and isinstance(p.func, ast.Attribute) and p.func.attr in ('format', 'format_map', 'join') and \
                                any(x is n for a in list(p.args) + [k.value for k in p.keywords] for x in ast.walk(a)):
                            parent_fmt = True
                        if isinstance(p, ast.BinOp) and isinstance(p.op, ast.Mod) and any(x is n for x in ast.walk(p.right)) and not isinstance(p.left, ast.Constant) \
                                and not any(isinstance(y, (ast.Constant,)) and isinstance(y.value, (int, float)) for y in [p.left]):
                            # `fmt % (..., id(x))` with a non-literal format: strings only when the left operand is not numeric
                            if isinstance(p.left, (ast.Name, ast.Attribute)) and ('fmt' in ast.unparse(p.left).lower() or 'template' in ast.unparse(p.left).lower() or 'format' in ast.unparse(p.left).lower()):
                                parent_fmt = True
                    key = '%s.%s:%s' % (m.short, qn, ast.unparse(n))
                    r.inst(key, sample=key)
                    if parent_fmt and not (fn.name in ('__repr__', '__str__', 'dump', 'dump_pos', 'print_call_chain') or 'debug' in fn.name.lower()):
                        r.violate(key, m.rel, n.lineno, '%s of an object is formatted into a string in %s.%s: memory addresses / salted hashes differ between runs' % (n.func.id, m.short, qn))
    # sorting by address / salted hash:  sorted(xs, key=id), xs.sort(key=hash), min/max(..., key=lambda x: id(x))
    for m in ix.modules.values():
        if not (m.name.startswith('Cython.Compiler') or m.short in ('Dependencies', 'Cache', 'Utils')):
            continue
        for qn, owner, fn in ix.functions_of(m):
            for n in walk_no_nested(fn):
                if not isinstance(n, ast.Call):
                    continue
                fname = n.func.id if isinstance(n.func, ast.Name) else n.func.attr if isinstance(n.func, ast.Attribute) else None
                if fname not in ('sorted', 'sort', 'min', 'max', 'groupby', 'nsmallest', 'nlargest'):
                    continue
                for k in n.keywords:
                    if k.arg != 'key':
                        continue
                    v = k.value
                    by_addr = isinstance(v, ast.Name) and v.id in ('id', 'hash')
                    if isinstance(v, ast.Lambda):
                        by_addr = any(isinstance(x, ast.Call) and isinstance(x.func, ast.Name) and x.func.id in ('id', 'hash') for x in ast.walk(v.body))
                    key = '%s.%s:%s(key=%s)' % (m.short, qn, fname, ast.unparse(v)[:30])
                    if by_addr:
                        r.inst(key, sample=key)
                        r.violate(key, m.rel, n.lineno, '%s.%s orders elements by id()/hash() (%s): memory addresses and salted hashes differ between runs, so does the resulting order' % (m.short, qn, node_src(n, 60)))
    if n_calls == 0:
        r.inst('none', sample='no id()/hash() calls in the compiler', nontrivial=False)
    return r


def rule_D3(ctx):
    """Process-wide memo caches of scope-dependent names: the key must contain every parameter the cached value is computed from."""
    ix = ctx.index
    r = Rule('D3', 'module-level memo dictionaries are keyed by every function parameter the memoised value depends on', floor=1)
    for m in ix.modules.values():
        if not m.name.startswith('Cython.Compiler'):
            continue
        caches = {nm for nm, v in m.bindings.items() if isinstance(v, ast.Dict) and not v.keys and 'cache' in nm.lower()}
        if not caches:
            continue
        for fname, fn in m.functions.items():
            params = [a.arg for a in fn.args.args]
            for n in walk_no_nested(fn):
                if isinstance(n, ast.Assign) and isinstance(n.targets[0], ast.Subscript) and isinstance(n.targets[0].value, ast.Name) and n.targets[0].value.id in caches:
                    keyexpr = n.targets[0].slice
                    # names the stored value is computed from (one level of local assignments)
                    used = {x.id for x in ast.walk(n.value) if isinstance(x, ast.Name)}
                    for _ in range(3):
                        for a in walk_no_nested(fn):
                            if isinstance(a, ast.Assign) and any(isinstance(t, ast.Name) and t.id in used for t in a.targets):
                                used |= {x.id for x in ast.walk(a.value) if isinstance(x, ast.Name)}
                    # key names, resolving a local key variable
                    knames = {x.id for x in ast.walk(keyexpr) if isinstance(x, ast.Name)}
                    for a in walk_no_nested(fn):
                        if isinstance(a, ast.Assign) and any(isinstance(t, ast.Name) and t.id in knames for t in a.targets):
                            knames |= {x.id for x in ast.walk(a.value) if isinstance(x, ast.Name)}
                    key = '%s.%s:%s' % (m.short, fname, n.targets[0].value.id)
                    r.inst(key, sample='%s caches by (%s); value depends on parameters %s' % (key, ast.unparse(keyexpr), sorted(used & set(params))))
                    missing = (used & set(params)) - knames
                    if missing:
                        r.violate(key + ':' + ','.join(sorted(missing)), m.rel, n.lineno,
                                  '%s memoises a value computed from parameter(s) %s in the process-wide cache %s but the key (%s) does not contain them: '
                                  'the second module compiled in the same process gets the first module\'s result' % (fname, sorted(missing), n.targets[0].value.id, ast.unparse(keyexpr)))
    return r


def run(ctx):
    return [sC42.rule_D1(ctx), sC42.rule_D1b(ctx), rule_D2(ctx), rule_D3(ctx), sC42.rule_D3g(ctx), sC42.rule_D3p(ctx), sC42.rule_D4(ctx), sC42.rule_D5(ctx), sC42.rule_D6(ctx)]
