"""C42 — compilation is deterministic (structural clause: no hash-order dependent iteration reaches the output)."""
import ast

from ..core import Rule, AnalysisError
from ..rules import det
from ..engine.pyindex import walk_no_nested

ID = 'C42'
TECHNIQUE = 'order-taint dataflow (sets and containers filled by iterating sets, one-level function summaries) to order-sensitive sinks; id()/hash() never flow into emitted names; cache keys cover what the cached value depends on'
DECIDES = ('D1: in Cython/Compiler, Build/Dependencies.py, Cache.py, Inline.py, Utils.py no set/frozenset (or list/tuple built by iterating one, also through one level of calls) is iterated into an '
           'order-sensitive effect (emitting code, appending, joining, list()/tuple(), yield) without sorted(); D2: id()/hash() of objects never flows into strings; '
           'D3: module-level memo caches whose cached value depends on a scope argument include it in the key.')
NOT_DECIDED = 'nondeterminism from file-system listing order, parallel build scheduling and object addresses used as set-iteration order of non-string objects.'

_B = 'benign: '
EXEMPT = {
    ('D1', "Inline.unbound_symbols:UnboundSymbols()(tree)-set(dir(builtins))"): _B + 'the consumer only tests membership / fills kwds whose names are sorted (arg_names = sorted(kwds)) before they reach the generated module',
    ('D1', 'Code.UtilityCodeBase.load:values'): _B + 'list(values)[0] is taken only under len(values) == 1; the multi-valued case iterates sorted(values)',
    ('D1', 'ExprNodes.infer_sequence_item_type:item_types'): _B + 'the set of item types is reduced with reduce_spanning_types, a lattice join (commutative, associative)',
    ('D1', 'ExprNodes.MergedSequenceNode.calculate_constant_result:result'): _B + 'flow-insensitive alias: `result` is a list when tuple()/iteration happens; it is rebound to a set only in the branch that produces a set constant',
    ('D1', 'ExprNodes.MergedSequenceNode.compile_time_value:result'): _B + 'same as calculate_constant_result',
    ('D1', 'FlowControl.ControlFlow.initialize:self.blocks'): _B + 'assigns internal bit positions to assignments; the bit numbering is an internal identifier of the dataflow solver, results are mapped back to statements',
    ('D1', 'Options.CompilationOptions.__init__:unknown_directives'): _B + 'only the wording of a ValueError message for invalid directives, no generated code',
    ('D1', 'Options.CompilationOptions.__init__:unknown_options'): _B + 'only the wording of a ValueError message for invalid options, no generated code',
    ('D1', 'PyrexTypes.widest_cpp_type:common_bases'): _B + 'feeds reduce(set.union, ...) and a candidate list that is only used when it has exactly one element',
    ('D1', 'Symtab.Scope.lookup_operator:set(method_alternatives+function_alternatives)'): _B + 'de-duplication before PyrexTypes.best_match, which scores every alternative and reports ambiguity instead of picking by position',
}


def rule_D2(ctx):
    ix = ctx.index
    r = Rule('D2', 'id()/hash() values never flow into strings (names, labels, C identifiers)', floor=1)
    n_calls = 0
    for m in ix.modules.values():
        if not (m.name.startswith('Cython.Compiler') or m.short in ('Dependencies', 'Cache', 'Utils')):
            continue
        for qn, owner, fn in ix.functions_of(m):
            for n in walk_no_nested(fn):
                if isinstance(n, ast.Call) and isinstance(n.func, ast.Name) and n.func.id in ('id', 'hash') and len(n.args) == 1:
                    n_calls += 1
                    # where does it go?  string formatting / concatenation / str() is a sink; dict keys, comparisons, set membership are fine
                    parent_fmt = False
                    for p in walk_no_nested(fn):
                        if isinstance(p, ast.JoinedStr) and any(x is n for x in ast.walk(p)):
                            parent_fmt = True
                        if isinstance(p, ast.BinOp) and isinstance(p.op, ast.Mod) and any(x is n for x in ast.walk(p.right)) and isinstance(p.left, ast.Constant) and isinstance(p.left.value, str):
                            parent_fmt = True
                        if isinstance(p, ast.Call) and isinstance(p.func, ast.Name) and p.func.id in ('str', 'repr', 'hex') and any(x is n for x in ast.walk(p)):
                            parent_fmt = True
                    key = '%s.%s:%s' % (m.short, qn, ast.unparse(n))
                    r.inst(key, sample=key)
                    if parent_fmt and not (fn.name in ('__repr__', '__str__', 'dump', 'dump_pos', 'print_call_chain') or 'debug' in fn.name.lower()):
                        r.violate(key, m.rel, n.lineno, '%s of an object is formatted into a string in %s.%s: memory addresses / salted hashes differ between runs' % (n.func.id, m.short, qn))
    if n_calls == 0:
        r.inst('none', sample='no id()/hash() calls in the compiler', nontrivial=False)
    return r


def rule_D3(ctx):
    """Process-wide memo caches of scope-dependent names: the key must contain every parameter the cached value is computed from."""
    ix = ctx.index
    r = Rule('D3', 'module-level memo dictionaries are keyed by every function parameter the memoised value depends on', floor=1)
    for m in ix.modules.values():
        if not m.name.startswith('Cython.Compiler'):
            continue
        caches = {nm for nm, v in m.bindings.items() if isinstance(v, ast.Dict) and not v.keys and 'cache' in nm.lower()}
        if not caches:
            continue
        for fname, fn in m.functions.items():
            params = [a.arg for a in fn.args.args]
            for n in walk_no_nested(fn):
                if isinstance(n, ast.Assign) and isinstance(n.targets[0], ast.Subscript) and isinstance(n.targets[0].value, ast.Name) and n.targets[0].value.id in caches:
                    keyexpr = n.targets[0].slice
                    # names the stored value is computed from (one level of local assignments)
                    used = {x.id for x in ast.walk(n.value) if isinstance(x, ast.Name)}
                    for _ in range(3):
                        for a in walk_no_nested(fn):
                            if isinstance(a, ast.Assign) and any(isinstance(t, ast.Name) and t.id in used for t in a.targets):
                                used |= {x.id for x in ast.walk(a.value) if isinstance(x, ast.Name)}
                    # key names, resolving a local key variable
                    knames = {x.id for x in ast.walk(keyexpr) if isinstance(x, ast.Name)}
                    for a in walk_no_nested(fn):
                        if isinstance(a, ast.Assign) and any(isinstance(t, ast.Name) and t.id in knames for t in a.targets):
                            knames |= {x.id for x in ast.walk(a.value) if isinstance(x, ast.Name)}
                    key = '%s.%s:%s' % (m.short, fname, n.targets[0].value.id)
                    r.inst(key, sample='%s caches by (%s); value depends on parameters %s' % (key, ast.unparse(keyexpr), sorted(used & set(params))))
                    missing = (used & set(params)) - knames
                    if missing:
                        r.violate(key + ':' + ','.join(sorted(missing)), m.rel, n.lineno,
                                  '%s memoises a value computed from parameter(s) %s in the process-wide cache %s but the key (%s) does not contain them: '
                                  'the second module compiled in the same process gets the first module\'s result' % (fname, sorted(missing), n.targets[0].value.id, ast.unparse(keyexpr)))
    return r


def run(ctx):
    return [det.rule_D1(ctx), rule_D2(ctx), rule_D3(ctx)]
