"""C19 — comparisons, membership tests and if-chains rewritten into C switches: guard dominance on every path that creates a
SwitchStatNode, the duplicate detector, single evaluation and short-circuit structure of the comparison nodes, the interface of
the bool-compare helpers and the membership-equality obligation of display-flattening transforms."""
import ast, dis, os, re

from ..core import Rule, AnalysisError, node_src
from ..engine import tables
from ..engine.pyindex import walk_no_nested, is_self_attr
from ..rules import iface, typed
from ..rules import pC14
from ..rules import pC19 as P

ID = 'C19'
TECHNIQUE = ('path-sensitive dataflow (guard dominance with branch-fact refutation) over the dispatch methods of SwitchTransform, one level interprocedural through the '
             'switch-building helper; three-valued evaluation of the extractor\'s type test; must-not-repeat / must-be-guarded dataflow over generate_evaluation_code of the '
             'comparison nodes; interface agreement (arity, categories) between the helper names bound by find_special_bool_compare_function/find_compare_function, the call '
             'templates that emit them and the C declarations; table comparison of richcmp_constants with the interpreter\'s dis.cmp_op and the Py_LT..Py_GE values of the CPython headers; '
             'field completeness of the syntactic-sameness predicate against the construction sites in the parser + propositional entailment of sameness from the path facts in the condition extractors; '
             'interval abstract interpretation (sign / compactness / finiteness / magnitude / overflow) of the Tempita int<->float compare helpers with the operator-set placeholders '
             'evaluated over all six operators (rules/sC19.py); '
             'fourth round (rules/s4C19.py): a path-exploring partial evaluator for single compiler methods (quantified attributes bound to every value of their finite domain, the rest symbolic; '
             'constructor calls, calls and returns recorded) compared with the decision table Python\'s comparison semantics dictates; an interpreter for the small C helpers run over the complete '
             'partition of the results their C-API calls can deliver / of the operand classes their tests distinguish, Tempita templates expanded by the checker\'s own expander')
DECIDES = ('(SWITCH) every path from a dispatch method of SwitchTransform to a SwitchStatNode (directly in visit_IfStatNode, through build_simple_switch_statement for the expression '
           'visitors) passed a failing has_duplicate_values test over exactly the case values used, and every case-value list is the non-None result of extract_common_conditions; '
           'extract_common_conditions reports a match only after a test that refutes "switch variable not int/enum" and "some case value not int/enum"; has_duplicate_values answers True '
           'before recording a value twice and for values it cannot identify; '
           '(ONCE) on every path through PrimaryCmpNode/CascadedCmpNode.generate_evaluation_code no operand receiver is evaluated twice, and every evaluated receiver is disposed and freed by the class; '
           '(SHORT) in CascadedCmpNode every operand evaluation and the comparison are emitted inside the `if (<previous result>) {` guard, which is closed on every path; '
           '(CMPH) every helper name bound to special_bool_cmp_function or returned by find_compare_function is declared in the utility library / CPython headers with as many parameters as the '
           'emitting template passes (3), an int third parameter, and a first parameter whose category (object / C integer) is the one operand1 was coerced to on that path; I5 for the helpers '
           'the comparison nodes emit by name; '
           '(TAB) richcmp_constants maps each comparison operator to the Py_XX constant whose header value is the operator\'s index in dis.cmp_op; c_operator maps is/is_not to ==/!= and leaves C relations unchanged; '
           '(MEMEQ) a transform that replaces `x in <display>` by per-element == / != comparisons builds each comparison with identity-or-equality semantics (an `is` disjunct, or a keyword the '
           'comparison code generator reads) — FAILS TODAY (known finding K5); '
           '(SAME) Optimize.is_common_value answers True for two nodes of an accepted kind only on paths that compared every syntactic field of that kind (the keywords the parser passes at every '
           'construction site: AttributeNode obj recursively + attribute, NameNode name; or the symbol-table entry for the naming part), and extract_conditions / extract_common_conditions return a '
           'match only on paths whose branch facts entail `W is None or is_common_value(V, W)` for every other switch-variable candidate W in scope; '
           '(CMPIV) in __Pyx_PyObject_CompareFloatInt/IntFloat every `return_true if op in ...` answer given without comparing values is, for all six operators, the answer for EVERY pair of '
           'operands satisfying the path conditions (PyLong_SHIFT 15 and 30, 64-bit long), value-comparing sites keep op1 left, cast integers to double only within +-2**53, and the constant 0.0 '
           'stands in for the integer only where the float is inf/nan; '
           '(POLAR) extract_conditions reports ==/in with not_in=False and !=/not in with not_in=True and nothing else, a negated match only when allow_not_in is set, none for a comparison whose '
           'cascade was not tested None; extract_common_conditions forwards the flag and returns the extractor\'s triple; a visitor that discards the polarity passes allow_not_in=False, the others '
           'hand polarity / variable / values to the builder; the builder stores the "true" value in the cases and the "false" value in the default and exchanges exactly these two for a negated '
           'match; CondExprNode hands (true_val, false_val), boolean visitors BoolNode(True)/BoolNode(False); every child of the replaced node reaches the switch (if-clause body paired with its own '
           'condition, else clause kept); '
           '(CASE) SwitchCaseNode emits a `case` label per element of its condition list and `break;` after the body; SwitchStatNode evaluates the switch variable before `switch (..) {`, emits the '
           'cases inside the braces and the else body directly behind a `default:` label; '
           '(CONN) `x in <display>` becomes == joined by or, `not in` != joined by and (or the negation of the other form), only when node.cascade is None; the empty display / empty container is '
           'answered False for in and True for not in (FlattenInListTransform, calculate_cascaded_constant_result); the C-array search loop tests ==, stores True + breaks on a hit, False when '
           'exhausted, and is negated exactly for not in; chains split by ConstantFolding are joined by and; the `!` prefix of the complex equality helper, the Eq/Ne token of the numeric helper and '
           'op / c_op / helper name of the PyObjectCompare instantiation follow the operator; '
           '(HAND) the right operand handed to the next link of a chain is flagged needs_evaluation exactly when no evaluation code was emitted for it, and the link evaluates, disposes and frees a '
           'handed-over operand under the same flag; '
           '(NONE) a containment helper whose C body applies type-specific C-API to the container is bound only behind as_none_safe_node() (or for a freshly converted C value); '
           '(TF) every (item, container, eq) helper bound by find_special_bool_compare_function returns a negative value when a C-API call failed and otherwise (found == (eq == Py_EQ)), for every '
           'configuration of the SAFE macros, every string kind x character class, identical operands; __Pyx__PyUnicode_EqualsUCS4 and both variants of __Pyx_PyObject_Equals_uchar over every '
           'length / kind / character class / None / identity / declared-str case; the per-character macro passes the non-literal operand first and the Python side sets REVERSE / IS_STR from the '
           'operand that is not the literal; the object-result wrapper maps the helper\'s error to NULL and the emitted error test matches the result type; '
           '(MAIN) the dispatching function of the PyObjectCompare template for all 36 type pairs x 6 operators (+ the object-returning variant): constant answers only where every such operand pair '
           'compares that way (None / identity shortcuts, never for floats or foreign objects), helper calls with (op1, op2) in order and operand classes the helper reads, float/float compared as '
           '`op1 c_op op2`, generic fallback with (op1, op2, Py_<op>); the str/str helper against the result contracts of PyUnicode_Compare / PyUnicode_Equal; '
           '(PAIR) the bytes/bytearray helpers (all four type pairs, six operators) on a representative of every class of operand pairs (length relation x first-byte relation x signedness class x '
           'common-prefix relation x hash state x failing C-API call) and the int/int helper for single-digit values: answer = Python order, bytes compared as unsigned, memcmp inside both operands, '
           'hash shortcut only with both hashes computed; '
           '(LONGCMP) __Pyx_PyLong_{Eq,Ne}{ObjC,CObj} for every class of the object operand relative to the constant, PyLong_SHIFT 15/30 x 32/64-bit long; '
           '(INTTYPE) find_common_int_type returns only types established as C integer types on that path.')
NOT_DECIDED = ('outcomes of comparisons in general; find_common_type / the coercion of the links of a chain to the common type (coerce_operands_to and its recursion into the cascade depend on the '
               'operand types of the program: hold-out mutant ho-coerce-cascade-recursion-dropped is missed); the multi-digit part of CompareIntInt (digit loop / pylong_join: listed as info lines); '
               'which constant links ConstantFolding.visit_PrimaryCmpNode treats as short-circuiting and which partial cascades it keeps (depends on the constant_result values of the links; deciding it '
               'needs an abstract interpretation of the list-of-lists cascade splitter: mutants constfold-cascade-false-link, ho-constfold-short-cascade-dropped are missed); which set displays '
               'FlattenInListTransform must leave alone because a member is unhashable (CPython raises TypeError; depends on the member types: ho-flatten-unhashable-guard-dropped is missed); the body of '
               '__Pyx_PySet_ContainsUnhashable (treated as an API with a three-valued result: the pending-exception state around PyErr_Clear is not modelled, ho-set-unhashable-errclear is missed); '
               'one pending finding keeps C19-DUPKEY out of run() (FINDING_C19_1: case values of `c in b"ab"` are keyed by a bytes slice) and one the 32-bit-long model of C19-CMPIV; '
               'evaluation ORDER of the temporaries introduced by FlattenInListTransform (finding 22, claimed by C20/LET-ORDER); that extract_conditions only collects literal/const operands; '
               'I3 is vacuous here (no PythonCapiCallNode site names a compare helper) and is replaced by CMPH.')
ASSUMPTIONS = ['a C switch is only correct for integer/enum operands without duplicate labels (C standard 6.8.4.2)',
               'CPython membership on tuple/list/set displays is identity-or-equality (PyObject_RichCompareBool shortcut; language reference 6.10.2)']

EXEMPT = {}

MUTATIONS = [
    # (file, single edit on a scratch copy, rule that reported it) -- all 20 reported (exit 1) with a message naming the construct
    ('Cython/Compiler/Optimize.py', 'visit_CondExprNode: drop `or self.has_duplicate_values(conditions)`', 'C19-SWITCH'),
    ('Cython/Compiler/Optimize.py', 'visit_IfStatNode: delete the `if self.has_duplicate_values(condition_values): ... return node` block', 'C19-SWITCH'),
    ('Cython/Compiler/Optimize.py', 'visit_PrimaryCmpNode: self.has_duplicate_values([]) instead of (conditions)', 'C19-SWITCH'),
    ('Cython/Compiler/Optimize.py', 'visit_IfStatNode: delete `if common_var is None: ... return node` inside the clause loop', 'C19-SWITCH'),
    ('Cython/Compiler/Optimize.py', 'extract_common_conditions: delete the is_int/is_enum elif', 'C19-SWITCH'),
    ('Cython/Compiler/Optimize.py', 'extract_common_conditions: keep only the test of var, drop any([... for cond in conditions])', 'C19-SWITCH'),
    ('Cython/Compiler/Optimize.py', 'has_duplicate_values: `if value.constant_result in seen: return False`', 'C19-SWITCH'),
    ('Cython/Compiler/Optimize.py', 'has_duplicate_values: `except AttributeError: return False`', 'C19-SWITCH'),
    ('Cython/Compiler/Optimize.py', 'visit_BoolBinopNode: pass list(conditions) + [common_var] to build_simple_switch_statement', 'C19-SWITCH'),
    ('Cython/Compiler/ExprNodes.py', 'PrimaryCmpNode.generate_evaluation_code: second self.operand2.generate_evaluation_code(code) under is_temp', 'C19-ONCE'),
    ('Cython/Compiler/ExprNodes.py', 'CascadedCmpNode.generate_evaluation_code: operand2 evaluated before the `if (result) {` line', 'C19-SHORT'),
    ('Cython/Compiler/ExprNodes.py', 'CascadedCmpNode.generate_evaluation_code: drop the final code.putln("}")', 'C19-SHORT'),
    ('Cython/Compiler/ExprNodes.py', 'find_special_bool_compare_function: UCS4 branch binds __Pyx_PyUnicode_ContainsTF', 'C19-CMPH'),
    ('Cython/Compiler/ExprNodes.py', 'find_special_bool_compare_function: "__Pyx_PySet_ContainsTF" -> "__Pyx_PyAnySet_ContainsTF"', 'C19-CMPH'),
    ('Cython/Compiler/ExprNodes.py', 'generate_operation_code: f"{function}({op1}, {op2})" without the richcmp constant', 'C19-CMPH'),
    ('Cython/Utility/ObjectHandling.c', '__Pyx_PySequence_ContainsTF loses its `int eq` parameter', 'C19-CMPH'),
    ('Cython/Compiler/ExprNodes.py', 'richcmp_constants["<"] = "Py_GT"', 'C19-TAB'),
    ('Cython/Compiler/ExprNodes.py', 'richcmp_constants["not_in"] = "Py_EQ"', 'C19-TAB'),
    ('Cython/Compiler/ExprNodes.py', "c_operator: 'is_not' -> \"==\"", 'C19-TAB'),
    ('Cython/Compiler/ExprNodes.py', 'CascadedCmpNode: emitted __Pyx_PyObject_IsTrue(%s, 1)', 'C19-I5'),
    ('Cython/Compiler/Optimize.py', 'FlattenInListTransform: (with an `is`/`is_not` PrimaryCmpNode disjunct added per element the rule is silent) remove that disjunct again', 'C19-MEMEQ (fires on the clean tree: known finding K5)'),
    # C19-SAME / C19-CMPIV (rules/sC19.py), tried on /tmp/strengthen/G4/scr.  Seeds: C19a -> C19-SAME Optimize.is_common_value:is_attribute:obj ; C19b -> C19-CMPIV ...CompareIntFloat:const#4
    ('Cython/Compiler/Optimize.py', 'is_common_value: drop `and a.attribute == b.attribute`', 'C19-SAME ...is_common_value:is_attribute:name'),
    ('Cython/Compiler/Optimize.py', 'is_common_value: `is_common_value(a.obj, a.obj)`', 'C19-SAME ...is_common_value:is_attribute:obj'),
    ('Cython/Compiler/Optimize.py', 'is_common_value: `return a.name == a.name`', 'C19-SAME ...is_common_value:is_name:name'),
    ('Cython/Compiler/Optimize.py', 'extract_conditions: drop `and is_common_value(t1, t2)` from the BoolBinopNode merge', 'C19-SAME ...SwitchTransform.extract_conditions:t1~t2'),
    ('Cython/Compiler/Optimize.py', 'extract_common_conditions: `not is_common_value(var, var)`', 'C19-SAME ...extract_common_conditions:var~common_var'),
    ('Cython/Compiler/Optimize.py', 'extract_common_conditions: `common_var is None and not is_common_value(var, common_var)`', 'C19-SAME ...extract_common_conditions:var~common_var'),
    ('Cython/Utility/Optimize.c', "CompareFloatInt: `if (sign2 < 0) {{return_true if op in 'NeGeGt' ...}}` -> 'NeLeLt'", 'C19-CMPIV ...CompareFloatInt:const#1'),
    ('Cython/Utility/Optimize.c', "CompareIntFloat: magnitude test `float_op2 < (double) (1L << PyLong_SHIFT)` -> `(1LL << 53)`", 'C19-CMPIV ...CompareIntFloat:const#2'),
    ('Cython/Utility/Optimize.c', 'CompareIntFloat: `float_op2 {{c_op}} ((double)iop1)` (operands swapped)', 'C19-CMPIV ...CompareIntFloat:rel#1'),
    ('Cython/Utility/Optimize.c', 'CompareIntFloat fallback: `(long long) iop1 >= (1LL << 53)` -> `(1LL << 60)` (inexact double conversion)', 'C19-CMPIV ...CompareIntFloat:rel#3'),
    ('Cython/Utility/Optimize.c', 'CompareIntFloat: `if (unlikely(!isfinite(float_op2)))` -> `if ((0))` (nan reaches the sign shortcuts)', 'C19-CMPIV ...CompareIntFloat:const#3'),
    # behaviour preserving: only the K5 finding remains
    ('Cython/Compiler/Optimize.py', 'is_common_value: attribute branch as early returns with local aliases `oa, ob = a.obj, b.obj; if not is_common_value(ob, oa): return False; return b.attribute == a.attribute`', 'silent'),
    ('Cython/Compiler/Optimize.py', 'is_common_value: `return a.entry is b.entry if a.entry is not None else a.name == b.name`', 'silent'),
    ('Cython/Compiler/Optimize.py', 'extract_common_conditions: De Morgan `elif not (common_var is None or is_common_value(common_var, var))`', 'silent'),
    ('Cython/Compiler/Optimize.py', 'extract_conditions: the merge test split into nested ifs, arguments of is_common_value swapped', 'silent'),
    ('Cython/Utility/Optimize.c', "CompareIntFloat: if/else swapped under `!(float_op2 >= 0.)`, `sign1 >= 1`, `0 > sign1`, else-if chain, placeholder sets rewritten ('EqLeLt' false-set, tuple of names)", 'silent'),
    ('Cython/Utility/Optimize.c', 'CompareIntFloat: locals float_op2 / sign1 / iop1 renamed', 'silent'),
    ('Cython/Utility/Optimize.c', 'CompareIntFloat: `float_op2 >= 0.` -> `float_op2 > 0.` (zero then takes the other, equally correct, arm)', 'silent'),
    ('Cython/Compiler/Optimize.py', 'visit_CondExprNode: guard split into two ifs with a local `too_few`', 'silent'),
    ('Cython/Compiler/Optimize.py', 'extract_common_conditions: type test rewritten as two ifs, second one `not all(c.type.is_int or c.type.is_enum for c in conditions)`', 'silent'),
    ('Cython/Compiler/ExprNodes.py', 'PrimaryCmpNode.generate_evaluation_code: extra local aliases; richcmp_constants rows reordered; c_operator branches reordered', 'silent'),
    # fourth round (rules/s4C19.py): 63 breaking (11 of them a hold-out set written after the rules were final: 7 reported) + 13 behaviour-preserving edits are kept as patches under /verif/mutants/C19/<name>/ (meta.json: what, breaking, caught_by);
    # the thorough tier replays the ones recorded as caught.  One line per rule here:
    ('Cython/Compiler/Optimize.py', 'extract_conditions: == reported with not_in=True / the `not_in and not allow_not_in` gate dropped / the cascade test dropped', 'C19-POLAR'),
    ('Cython/Compiler/Nodes.py', 'SwitchCaseNode: `break;` dropped / label for conditions[:1] only; SwitchStatNode: `default:` dropped', 'C19-CASE'),
    ('Cython/Compiler/Optimize.py', 'FlattenInListTransform: in -> and; empty display answered from the wrong operator; IterationTransform: NotNode for `in`, break dropped, != test', 'C19-CONN'),
    ('Cython/Compiler/ExprNodes.py', 'PrimaryCmpNode hands self.operand2 with needs_evaluation=True; CascadedCmpNode: needs_evaluation=(coerced_operand2 is None)', 'C19-HAND'),
    ('Cython/Compiler/ExprNodes.py', 'find_special_bool_compare_function: as_none_safe_node() dropped in the str branch', 'C19-NONE'),
    ('Cython/Utility/ObjectHandling.c', '__Pyx_PySequence_ContainsTF without the `result < 0` pass-through; __Pyx_PyBoolOrNull_FromLong with b <= 0', 'C19-TF'),
    ('Cython/Utility/StringTools.c', '__Pyx_UnicodeContainsUCS4: `character > 0xFF && str_kind == 2` shortcut; EqualsUCS4 `length < 1`; Equals_uchar None -> Py_EQ; REVERSE macro arguments', 'C19-TF'),
    ('Cython/Utility/Optimize.c', 'PyObjectCompare main: None answers exchanged / identity shortcut EqLeGt / CompareFloatInt(op2, op1) / RichCompare(op2, op1)', 'C19-MAIN'),
    ('Cython/Utility/Optimize.c', 'bytes helpers: first-byte answers exchanged / length2 - length1 / (const char*) first byte / hash2 != -1 dropped; IntInt: sign flip dropped', 'C19-PAIR'),
    ('Cython/Utility/Optimize.c', 'PyLongCompare: IsNonNeg -> IsNeg under intval < 0', 'C19-LONGCMP'),
    ('Cython/Compiler/ExprNodes.py', 'find_common_int_type returns type2 where type1 was tested .is_int', 'C19-INTTYPE'),
    ('Cython/Compiler/*.py, Cython/Utility/*.c', '13 behaviour-preserving rewrites (mutants/C19/np-*): De Morgan, early returns, helper closures, renamed locals, f-string <-> %, reordered keywords, '
     'complemented operator sets, enumerate(list(..)) loops, C helpers as single return expressions', 'silent (np-flatten-refactor made C19-MEMEQ give up before pC19.local_env2)'),
]


def _method(c, name):
    fn = c.methods.get(name)
    if fn is None:
        raise AnalysisError('%s.%s vanished' % (c.qual, name))
    return fn


# ------------------------------------------------------------------------------------------------------------ SWITCH
def rule_SWITCH(ctx):
    ix = ctx.index
    cls = ix.cls('Optimize', 'SwitchTransform')
    rel = cls.module.rel
    r = Rule('C19-SWITCH', 'every SwitchStatNode is created only after a failing duplicate test over its case values and from type-tested extract_common_conditions results', floor=11)
    ext = _method(cls, 'extract_common_conditions')
    dupf = _method(cls, 'has_duplicate_values')
    vi, ci, problems, nret = P.extractor_contract(ext)
    r.inst('Optimize.SwitchTransform.extract_common_conditions:type-test', sample='extract_common_conditions: %d successful return(s), layout var@%s conds@%s' % (nret, vi, ci))
    for line, text in problems:
        r.violate('Optimize.SwitchTransform.extract_common_conditions:type-test', rel, line, 'extract_common_conditions ' + text)
    if vi is None:
        vi, ci = 1, 2
    # the positions must agree with NO_MATCH = (None, None, None): `V is None` <=> no match
    nm = cls.attrs.get('NO_MATCH')
    v = tables.literal(nm) if nm is not None else None
    r.inst('Optimize.SwitchTransform.NO_MATCH', sample='NO_MATCH = %r' % (v,))
    if not (isinstance(v, tuple) and len(v) > vi and v[vi] is None):
        r.violate('Optimize.SwitchTransform.NO_MATCH', rel, getattr(nm, 'lineno', ext.lineno),
                  'NO_MATCH = %r does not carry None at the position of the switch variable (%d): callers testing `common_var is None` would accept a failed match' % (v, vi))
    pts, helpers = P.switch_points(cls, var_idx=vi, conds_idx=ci)
    if not helpers:
        r.info('no switch-building helper method found (all switches are built in the dispatch methods)')
    for m, kind, key, line, ok, text in pts:
        k = 'Optimize.SwitchTransform.' + key
        r.inst(k, sample='%s (%s)' % (key, kind))
        if not ok:
            r.violate(k, rel, line, text)
    if not any(kind == 'dup' for m, kind, key, line, ok, text in pts):
        raise AnalysisError('no SwitchStatNode creation point found in SwitchTransform')
    for key, line, ok, text in P.duplicate_detector(dupf):
        k = 'Optimize.SwitchTransform.has_duplicate_values:' + key
        r.inst(k, sample=key)
        if not ok:
            r.violate(k, rel, line, text)
    # positive control: a visitor that forgot the duplicate test
    pc = ast.parse(
        "class T:\n"
        "    def visit_X(self, node):\n"
        "        not_in, common_var, conditions = self.extract_common_conditions(None, node, True)\n"
        "        if common_var is None or len(conditions) < 2:\n"
        "            return node\n"
        "        return self.build(node, common_var, conditions)\n"
        "    def build(self, node, common_var, conditions):\n"
        "        cases = [Nodes.SwitchCaseNode(pos=node.pos, conditions=conditions, body=None)]\n"
        "        return Nodes.SwitchStatNode(pos=node.pos, test=common_var, cases=cases, else_clause=None)\n").body[0]

    class _C:
        methods = {f.name: f for f in pc.body}
    res, _ = P.switch_points(_C())
    r.positive_control(any(kind == 'dup' and not ok for _, kind, _, _, ok, _ in res) and all(ok for _, kind, _, _, ok, _ in res if kind == 'type'),
                       'expression visitor without has_duplicate_values')
    return r


# ------------------------------------------------------------------------------------------------------------ ONCE / SHORT
def _cmp_classes(ix):
    return [ix.cls('ExprNodes', 'PrimaryCmpNode'), ix.cls('ExprNodes', 'CascadedCmpNode')]


def rule_ONCE(ctx):
    ix = ctx.index
    r = Rule('C19-ONCE', 'comparison nodes: no operand receiver is evaluated twice on any path of generate_evaluation_code; evaluated receivers are disposed and freed by the class', floor=4)
    for c in _cmp_classes(ix):
        fn = _method(c, 'generate_evaluation_code')
        seen, bad = P.eval_events(fn)
        disp, free = P.class_disposals(ix, c)
        if not seen:
            raise AnalysisError('%s.generate_evaluation_code evaluates no operand' % c.qual)
        for recv in sorted(seen):
            key = '%s.generate_evaluation_code:%s' % (c.qual, recv)
            r.inst(key, sample='%s evaluates %s' % (c.name, recv))
            if recv in bad:
                r.violate(key + ':twice', c.module.rel, bad[recv],
                          '%s.generate_evaluation_code emits %s.generate_evaluation_code(code) a second time on some path: the operand (and its side effects) would be evaluated twice' % (c.name, recv))
            if recv not in disp or recv not in free:
                r.violate(key + ':dispose', c.module.rel, fn.lineno,
                          '%s evaluates %s but no method of the class emits %s for it: the operand\'s temporary is leaked or never released'
                          % (c.name, recv, 'generate_disposal_code' if recv not in disp else 'free_temps'))
    pc = ast.parse("def generate_evaluation_code(self, code):\n    self.operand1.generate_evaluation_code(code)\n    if self.is_temp:\n        self.operand1.generate_evaluation_code(code)\n").body[0]
    r.positive_control(bool(P.eval_events(pc)[1]), 'operand evaluated twice under is_temp')
    return r


def rule_SHORT(ctx):
    ix = ctx.index
    c = ix.cls('ExprNodes', 'CascadedCmpNode')
    fn = _method(c, 'generate_evaluation_code')
    r = Rule('C19-SHORT', 'CascadedCmpNode: operand evaluation and comparison of a chained link are emitted inside the `if (<result so far>) {` guard, closed on every path', floor=4)
    params = [a.arg for a in fn.args.args]
    if len(params) < 3:
        raise AnalysisError('CascadedCmpNode.generate_evaluation_code lost its result parameter')
    result_param = params[2]
    n = 0
    for x in walk_no_nested(fn):
        if isinstance(x, ast.Call) and isinstance(x.func, ast.Attribute) and x.func.attr in ('generate_evaluation_code', 'generate_operation_code'):
            n += 1
            r.inst('ExprNodes.CascadedCmpNode.generate_evaluation_code:%s.%s' % (node_src(x.func.value), x.func.attr), sample=node_src(x, 70))
    for key, (line, text) in sorted(P.short_circuit(fn, result_param).items()):
        r.violate('ExprNodes.CascadedCmpNode.generate_evaluation_code:' + re.sub(r'\s+', '', key), c.module.rel, line, 'CascadedCmpNode.generate_evaluation_code: ' + text)
    pc = ast.parse("def g(self, code, result, operand1, needs_evaluation=False):\n    self.operand2.generate_evaluation_code(code)\n    code.putln('if (%s) {' % result)\n"
                   "    self.generate_operation_code(code, result, operand1, self.operator, self.operand2)\n    code.putln('}')\n").body[0]
    r.positive_control(any(k.startswith('unguarded') for k in P.short_circuit(pc, 'result')), 'operand evaluated before the guard')
    return r


# ------------------------------------------------------------------------------------------------------------ CMPH
def _representative(e, env):
    """constant helper names of an expression; f-strings with dynamic parts become one representative name (parts -> X)."""
    names = iface.const_strs(e, env)
    if names:
        return set(names), False
    if isinstance(e, ast.JoinedStr):
        out = ''
        for v in e.values:
            out += v.value if isinstance(v, ast.Constant) else 'X'
        return {out}, True
    return set(), False


def _dynamic_call_arities(fn):
    """{callee placeholder source: set of argument counts} for `§(...)` calls inside emitted templates of fn whose callee is a placeholder."""
    from ..engine.cutil import split_args, match_paren
    out = {}
    seen_inner = set()
    for n in ast.walk(fn):
        if id(n) in seen_inner or not isinstance(n, (ast.JoinedStr, ast.BinOp)):
            continue
        t = iface.str_template(n)
        if t is None:
            continue
        for sub in ast.walk(n):
            if sub is not n:
                seen_inner.add(id(sub))
        text, ph = t
        k = -1
        for i, ch in enumerate(text):
            if ch == iface.PLACEHOLDER:
                k += 1
                if text[i + 1:i + 2] == '(' and k < len(ph) and ph[k] is not None:
                    rp = match_paren(text, i + 1)
                    if rp < 0:
                        continue
                    args = split_args(text[i + 2:rp])
                    inner_first = args[0].strip() if args else ''
                    if len(args) == 1 and re.match(re.escape(iface.PLACEHOLDER) + r'\(', inner_first):
                        continue        # wrapper call around the real one: coerce_result(helper(...))
                    out.setdefault(node_src(ph[k]), set()).add(len(args))
    return out


def rule_CMPH(ctx):
    ix = ctx.index
    cmp = ix.cls('ExprNodes', 'CmpNode')
    rel = cmp.module.rel
    r = Rule('C19-CMPH', 'bool-compare helpers bound by the comparison nodes: declared, 3 parameters as emitted, int third parameter, first parameter category = coercion of operand1 on that path', floor=9)
    finder = _method(cmp, 'find_special_bool_compare_function')
    cfinder = _method(cmp, 'find_compare_function')
    gen = _method(cmp, 'generate_operation_code')
    attr = 'special_bool_cmp_function'
    arities = _dynamic_call_arities(gen)
    em_special = arities.get('self.' + attr)
    if not em_special:
        raise AnalysisError('generate_operation_code no longer emits a call through self.%s' % attr)
    # the local that receives find_compare_function()
    local = None
    for n in walk_no_nested(gen):
        if isinstance(n, ast.Assign) and P.self_call(n.value, cfinder.name) and isinstance(n.targets[0], ast.Name):
            local = n.targets[0].id
    em_generic = arities.get(local) if local else None
    if not em_generic:
        raise AnalysisError('generate_operation_code no longer emits a call through the result of find_compare_function')

    def check(name, pattern, emitted, op1cat, line, origin):
        key = 'ExprNodes.CmpNode.%s:%s' % (origin, name)
        if pattern:
            # a name with computed parts: only template declarations that share its literal prefix are candidates
            prefix = name.split('X', 1)[0]
            protos = []
            for d in ctx.cat.lookup(name):
                dp = d.name.split('{{', 1)[0]
                if '{{' in d.name and len(dp) >= 10 and (dp.startswith(prefix) or prefix.startswith(dp)) and d.params is not None:
                    protos.append(('utility %s:%s' % (d.file, d.line), d.ret, d.param_types() if d.kind != 'macro' else [None] * len(d.params), None, d))
            if not protos:
                r.info('%s: computed helper name %s has no indexable template declaration (not decided)' % (origin, name))
                return
        else:
            protos = typed.c_prototypes(ctx, name)
        r.inst(key, sample='%s -> %s (%s)' % (origin, name, 'pattern' if pattern else 'operand1 as %s' % op1cat))
        if not protos:
            r.violate(key + ':undeclared', rel, line, '%s binds the comparison helper %s, but no utility section or CPython header declares it: the generated C does not compile' % (origin, name))
            return
        ars = {len(p[2]) for p in protos if p[2] is not None}
        if ars and not (ars & emitted):
            r.violate(key + ':arity', rel, line, 'helper %s takes %s parameter(s) but generate_operation_code emits it with %s argument(s)' % (name, sorted(ars), sorted(emitted)))
            return
        for src, ret, ptypes, pnames, decl in protos:
            if ptypes is None or len(ptypes) not in emitted:
                continue
            if ptypes[-1]:
                cc = typed.c_category(ptypes[-1])
                if cc and cc != 'int':
                    r.violate(key + ':op-param', rel, line, 'the last parameter of %s is %r but the comparison node passes a Py_EQ/Py_NE style int constant [%s]' % (name, ptypes[-1], src))
            if op1cat in ('object', 'int') and ptypes[0]:
                cc = typed.c_category(ptypes[0])
                if cc in ('object', 'int') and cc != op1cat:
                    r.violate(key + ':operand1', rel, line,
                              'on the path that selects %s the left operand is coerced to a %s, but the helper\'s first parameter is %r (%s) [%s]: '
                              'the wrong kind of value is passed (pointer/integer confusion)' % (name, 'Python object' if op1cat == 'object' else 'C integer', ptypes[0], cc, src))
    env = iface.local_env(finder)
    n_bind = 0
    for names, cat, line in P.special_function_bindings(finder, attr):
        if names is None:
            continue
        for nm in sorted(names):
            n_bind += 1
            check(nm, False, em_special, cat, line, finder.name)
    # dynamic (f-string) bindings -> representative names, arity only
    for n in walk_no_nested(finder):
        if isinstance(n, ast.Assign) and any(is_self_attr(t) and t.attr == attr for t in n.targets) and isinstance(n.value, ast.JoinedStr):
            for nm in sorted(_representative(n.value, env)[0]):
                check(nm, True, em_special, None, n.lineno, finder.name)
    if n_bind < 5:
        raise AnalysisError('only %d constant helper bindings found in %s' % (n_bind, finder.name))
    cenv = iface.local_env(cfinder)
    for n in walk_no_nested(cfinder):
        if isinstance(n, ast.Return) and n.value is not None:
            names, pat = _representative(n.value, cenv)
            if not names:
                raise AnalysisError('find_compare_function returns %s, not a resolvable helper name' % node_src(n.value))
            for nm in sorted(names):
                check(nm, pat, em_generic, 'object', n.lineno, cfinder.name)
    pcf = ast.parse("def g(self, code, r, f, a, b):\n    code.putln('%s = %s(%s, %s);' % (r, f, a, b))\n").body[0]
    r.positive_control(_dynamic_call_arities(pcf).get('f') == {2} and not typed.c_prototypes(ctx, '__Pyx_PyNoSuch_ContainsTF'),
                       'two-argument emission through a computed callee is counted; an undeclared helper has no prototype')
    return r


# ------------------------------------------------------------------------------------------------------------ TAB
def _richcmp_reference():
    inc = tables.cpython_include()
    txt = open(os.path.join(inc, 'object.h'), encoding='utf-8', errors='replace').read()
    vals = {m.group(1): int(m.group(2)) for m in re.finditer(r'^\s*#\s*define\s+(Py_(?:LT|LE|EQ|NE|GT|GE))\s+(\d+)\s*$', txt, re.M)}
    if len(vals) != 6:
        raise AnalysisError('Py_LT..Py_GE not found in %s/object.h' % inc)
    by_val = {v: k for k, v in vals.items()}
    ref = {}
    for i, op in enumerate(dis.cmp_op):
        if i in by_val:
            ref[op] = by_val[i]
    if len(ref) != 6:
        raise AnalysisError('dis.cmp_op of the running interpreter does not list the six rich comparisons')
    return ref


def rule_TAB(ctx):
    ix = ctx.index
    m = ix.mod('ExprNodes')
    r = Rule('C19-TAB', 'richcmp_constants agrees with dis.cmp_op / Py_LT..Py_GE of the CPython headers; in/not_in use the equality pair; c_operator maps is/is_not to ==/!=', floor=13)
    node = tables.module_assign(m.tree, 'richcmp_constants')
    table = tables.literal(node) if node is not None else None
    if not isinstance(table, dict):
        raise AnalysisError('ExprNodes.richcmp_constants is not a literal dict any more')
    ref = _richcmp_reference()
    for op, want in sorted(ref.items()):
        key = 'ExprNodes.richcmp_constants:%s' % op
        r.inst(key, sample='%r -> %r (reference %s)' % (op, table.get(op), want))
        if table.get(op) != want:
            r.violate(key, m.rel, node.lineno, 'richcmp_constants[%r] is %r but CPython\'s rich comparison code for %r is %s: object comparisons with this operator call the wrong slot operation'
                      % (op, table.get(op), op, want))
    for op, eqop in (('in', '=='), ('not_in', '!=')):
        if op in table:
            key = 'ExprNodes.richcmp_constants:%s' % op
            r.inst(key, sample='%r -> %r' % (op, table[op]))
            if table[op] != ref[eqop]:
                r.violate(key, m.rel, node.lineno, 'richcmp_constants[%r] is %r; the containment helpers take the expected answer as %s (membership is "faked" through the equality pair): `%s` would be negated'
                          % (op, table[op], ref[eqop], op.replace('_', ' ')))
    cmp = ix.cls('ExprNodes', 'CmpNode')
    cop = _method(cmp, 'c_operator')
    p = cop.args.args[1].arg
    want = {'is': '==', 'is_not': '!='}
    want.update({op: op for op in ref})
    for op, w in sorted(want.items()):
        got = pC14.eval_decision(cop, {p: op})
        key = 'ExprNodes.CmpNode.c_operator:%s' % op
        r.inst(key, sample='c_operator(%r) = %r' % (op, got))
        if got != w:
            r.violate(key, m.rel, cop.lineno, 'c_operator(%r) yields %r instead of %r: C-level comparisons with `%s` compute a different relation' % (op, got, w, op.replace('_', ' ')))
    return r


# ------------------------------------------------------------------------------------------------------------ MEMEQ
DISPLAY_PREDICATES = ('is_sequence_or_set_constructor', 'is_sequence_constructor', 'is_set_literal')
MEMBERSHIP = {'in': '==', 'not_in': '!='}


def _codegen_read_attrs(ix):
    """attributes the comparison code generator reads from the node when it selects/emits the comparison"""
    cmp = ix.cls('ExprNodes', 'CmpNode')
    out = set()
    for name in ('generate_operation_code', 'find_compare_function', 'find_special_bool_compare_function', 'is_python_comparison'):
        fn = cmp.methods.get(name)
        if fn is not None:
            out |= {n.attr for n in walk_no_nested(fn) if is_self_attr(n) and isinstance(n.ctx, ast.Load)}
    return out


def flattening_sites(ix, modules=('Optimize', 'ParseTreeTransforms')):
    """Functions that test a node's operator against in/not_in, look at a display on operand2 and build PrimaryCmpNodes
    with == / != : -> list of (module, qualname, fn, [construction calls with their operator set])"""
    out = []
    for ms in modules:
        m = ix.mod(ms)
        for qn, owner, fn in ix.functions_of(m):
            reads_display = any(isinstance(n, ast.Attribute) and n.attr in DISPLAY_PREDICATES and isinstance(n.value, ast.Attribute) and n.value.attr == 'operand2'
                                for n in walk_no_nested(fn))
            if not reads_display:
                continue
            tests_membership = any(isinstance(n, ast.Compare) and isinstance(n.left, ast.Attribute) and n.left.attr == 'operator' and
                                   any(tables.literal(c) in MEMBERSHIP or (isinstance(tables.literal(c), (tuple, list)) and set(tables.literal(c)) & set(MEMBERSHIP))
                                       for c in n.comparators) for n in walk_no_nested(fn))
            if not tests_membership:
                continue
            env = P.local_env2(fn)
            cons = []
            for n in walk_no_nested(fn):
                if P.constructs(n, 'PrimaryCmpNode'):
                    ops = iface.const_strs(P.kwarg(n, 'operator'), env) if P.kwarg(n, 'operator') is not None else None
                    if ops and set(ops) <= set(MEMBERSHIP.values()):
                        cons.append((n, sorted(ops)))
            if cons:
                out.append((m, qn, fn, cons))
    return out


def rule_MEMEQ(ctx):
    ix = ctx.index
    r = Rule('C19-MEMEQ', 'a transform that rewrites `x in <display>` into per-element comparisons keeps CPython\'s identity-or-equality membership semantics', floor=1)
    read = _codegen_read_attrs(ix)
    STD = {'pos', 'operand1', 'operand2', 'operator', 'cascade', 'type', 'is_temp'}

    def judge(fn, call):
        extra = {k.arg for k in call.keywords if k.arg} - STD
        if extra & read:
            return True          # a flag the comparison code generator consults
        # or: the comparison is combined with an identity test on the same operands
        o1, o2 = P.kwarg(call, 'operand1'), P.kwarg(call, 'operand2')
        for n in walk_no_nested(fn):
            if P.constructs(n, 'PrimaryCmpNode') and n is not call:
                ops = iface.const_strs(P.kwarg(n, 'operator'), P.local_env2(fn)) if P.kwarg(n, 'operator') is not None else None
                if ops and set(ops) <= {'is', 'is_not'} and o1 is not None and o2 is not None and \
                        node_src(P.kwarg(n, 'operand1')) == node_src(o1) and node_src(P.kwarg(n, 'operand2')) == node_src(o2):
                    return True
        return False
    sites = flattening_sites(ix)
    if not sites:
        raise AnalysisError('no display-flattening membership transform found (FlattenInListTransform vanished?)')
    for m, qn, fn, cons in sites:
        for call, ops in cons:
            key = '%s.%s:membership-equality' % (m.short, qn)
            r.inst(key, sample='%s.%s builds PrimaryCmpNode(operator in %s) per display element' % (m.short, qn, ops))
            if not judge(fn, call):
                r.violate(key, m.rel, call.lineno,
                          '%s replaces a membership test on a tuple/list/set display by plain %s comparisons: CPython\'s `in` accepts an element that IS the left operand before calling __eq__, '
                          'so for x = y = float("nan") `x in [y, 2]` is True in CPython and False here (and `x not in (y, 2)` is True instead of False); same for any object whose __eq__ is not reflexive'
                          % (qn, '/'.join(ops)))
    pcm = ast.parse("def visit_PrimaryCmpNode(self, node):\n    if node.operator == 'in' and node.operand2.is_sequence_constructor:\n"
                    "        return ExprNodes.PrimaryCmpNode(pos=node.pos, operand1=lhs, operator='==', operand2=arg, cascade=None)\n").body[0]
    call = [n for n in ast.walk(pcm) if P.constructs(n, 'PrimaryCmpNode')][0]
    r.positive_control(not judge(pcm, call), 'plain == replacement')
    return r


# ------------------------------------------------------------------------------------------------------------ run
def run(ctx):
    ix = ctx.index
    # helper names the comparison nodes emit literally
    emitted = set()
    for c in [ix.cls('ExprNodes', 'CmpNode')] + _cmp_classes(ix):
        for fn in c.methods.values():
            for n, name, args, argph in iface.emitted_calls_fn(fn):
                emitted.add(name)
    if not emitted:
        raise AnalysisError('the comparison nodes emit no __Pyx_ helper by name any more')
    from ..rules import switchpol, sC19, s4C19
    return [
        switchpol.rule_switch_polarity(ctx),
        rule_SWITCH(ctx),
        rule_ONCE(ctx),
        rule_SHORT(ctx),
        rule_CMPH(ctx),
        iface.rule_I5(ctx, modules=('ExprNodes',), floor=5, names=lambda n: n in emitted, rid='C19-I5'),
        rule_TAB(ctx),
        rule_MEMEQ(ctx),
        sC19.rule_same(ctx),
        sC19.rule_cmpiv(ctx),
        sC19.rule_cmplen(ctx),          # guards the repaired ordering of two empty bytes/bytearray operands (f97d24a71)
        s4C19.rule_polar(ctx),
        s4C19.rule_case(ctx),
        s4C19.rule_conn(ctx),
        s4C19.rule_hand(ctx),
        s4C19.rule_none(ctx),
        s4C19.rule_tf(ctx),
        s4C19.rule_main(ctx),
        s4C19.rule_pair(ctx),
        s4C19.rule_longcmp(ctx),
        s4C19.rule_inttype(ctx),
        s4C19.rule_dupkey(ctx),         # armed after the repair 070eee6dd (FINDING_C19_1: CharNode case values of `c in b"ab"` are keyed by a bytes slice, `c == 97 or c in b"ab"` -> duplicate case labels)
        # sC19.rule_cmpiv_llp64(ctx),   # pending finding (FINDING_2: 32-bit long fallback of CompareFloatInt)
    ]
