"""C12 — module string-table compression round-trips (LZSS.py compressor vs. the C decompressor)."""
from ..rules import num, tabs

ID = 'C12'
TECHNIQUE = 'abstract interpretation with a known-bits-with-provenance domain of the Python token encoder and (through clang\'s AST) the C token decoder; structural checks of the decoder loop'
DECIDES = ('C12-BITS: for each of the four token forms the encoder can emit (literal, 7-bit, 2+7-bit, 7+7-bit offset), the decoder takes the matching branch, consumes exactly the emitted bytes and '
           'recomputes the same end offset and match length (bit fields, the +3 and +0x80 biases, range guards vs. field widths), and every emitted value fits a byte; '
           'C12-STRUCT: the copy size equals the output advance, the output-full test follows every token, the caller compares the consumed length, the flag shift register agrees; '
           'C12-ALG: the compression algorithm numbers agree between Code.py and __Pyx_DecompressString.')
NOT_DECIDED = 'match finding (that the offsets found point at equal data) and that back references never reach before the start of the output.'
ASSUMPTIONS = ['match length <= the MAX_MATCH constant read from find_longest_match()', 'clang 14 parses the decompressor function faithfully']


def run(ctx):
    return num.lzss_rules(ctx) + [tabs.rule_compression_algorithms(ctx)]
