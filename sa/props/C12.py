"""C12 — module string-table compression round-trips (LZSS.py compressor vs. the C decompressor)."""
from ..rules import num, tabs

ID = 'C12'
TECHNIQUE = 'abstract interpretation with a known-bits-with-provenance domain of the Python token encoder and (through clang\'s AST) the C token decoder; structural checks of the decoder loop'
DECIDES = ('C12-BITS: for each of the four token forms the encoder can emit (literal, 7-bit, 2+7-bit, 7+7-bit offset), the decoder takes the matching branch, consumes exactly the emitted bytes and '
           'recomputes the same end offset and match length (bit fields, the +3 and +0x80 biases, range guards vs. field widths), and every emitted value fits a byte; '
           'C12-STRUCT: the copy size equals the output advance, the output-full test follows every token, the caller compares the consumed length, the flag shift register agrees; '
           'C12-ALG: the compression algorithm numbers agree between Code.py and __Pyx_DecompressString.')
NOT_DECIDED = 'match finding (that the offsets found point at equal data) and that back references never reach before the start of the output.'
ASSUMPTIONS = ['match length <= the MAX_MATCH constant read from find_longest_match()', 'clang 14 parses the decompressor function faithfully']


def run(ctx):
    from ..rules import sC12
    # sC12.lzss_rules: copy of num.lzss_rules with two false alarms on behaviour-preserving rewrites repaired (see sa/rules/sC12.py)
    from ..rules import sC10
    tab = sC10.rule_strtab(ctx)          # algorithm selection: every #if branch carries the data its own compressor produced and unpacks to the same table
    tab.id = 'C12-TAB'
    for f in tab.findings:
        f.rule = tab.id
    return sC12.lzss_rules(ctx) + [tabs.rule_compression_algorithms(ctx), sC12.rule_match(ctx), sC12.rule_end(ctx), sC12.rule_caller(ctx), sC12.rule_literal(ctx), tab, sC12.rule_extent(ctx)]

# fourth strengthening round (session G11): rules of sa/rules/sC12.py
DECIDES += (' C12-MATCH: the match finder takes candidates from the hash bucket of the 3-byte key at the current position (stored under keys of the same width), starts at that width, '
            'extends by comparing data at equal distances from candidate and position, and reports the distance to the candidate whose length it measured. '
            'C12-END: for 0..7 tokens in the last flag group and every flag pattern the statements after the token loop store the flags in the bits the decoder reads and remove only '
            'the unused placeholder. C12-LIT: literal tokens carry data[pos], advance by one on both sides; the decoder returns the input position. '
            'C12-CALLER: the decoder is given the size the result buffer was allocated with. C12-TAB: every #if branch of the string table carries the data its own compressor produced.')
NOT_DECIDED = ('that offsets never reach before the start of the output (follows from the match finder invariants only together with the order of hash insertions), the lazy-matching '
               'heuristic (affects only the ratio), the stdlib codecs of the other algorithms.')
MUTATIONS = 'see /verif/mutants/C12/*/meta.json (33 brainstormed mutants: 26 breaking - all reported, 7 behaviour-preserving - all silent)'

# sixth strengthening round (session I1): C12-EXTENT (sa/rules/sC12.py, rule_extent / token_footprint / TokenExec)
TECHNIQUE += ("; symbolic execution of one step of the decoder's token loop on clang's AST with linear forms over the start-of-step positions, dst_len, the token's input bytes and "
              'atoms for masks/shifts of them: branches on input bytes split the byte\'s value set exactly, branches on dst_len become constraints on the room left, copy loops are run for '
              'every value of the bytes their bound depends on, helpers of the same file are inlined')
DECIDES += (' C12-EXTENT: for every token the format can express and every amount of room R left in the output (R >= what the token denotes - the stream is the compressor\'s): '
            'every store into the output (memcpy / memmove / byte store, also inside a copy loop or a helper) lies inside the token\'s slice [out_pos, out_pos + advance) or is kept below '
            'dst_len by the conditions that dominate it (a "wild copy" needs a guard that leaves room for its surplus); the stores cover the whole slice; a copy out of the output reads only '
            'below its own destination (no overlapping memcpy, no not-yet-decoded bytes) and all copies of a token use one displacement; the advance does not depend on the room; only input '
            'bytes that the step consumes are read. C12-STRUCT bound-test and C12-LIT literal / return are now decided on the same execution (the step returns exactly when room == advance, '
            'with the input position; a literal stores input byte 0 at offset 0 and advances by one) instead of by the place and spelling of the statements; an error exit that only '
            'malformed streams reach (`if (out_pos + n > dst_len) return 0;`) is recognised as such.')
NOT_DECIDED = ('that offsets never reach before the start of the output (follows from the match finder invariants only together with the order of hash insertions), the lazy-matching '
               'heuristic (affects only the ratio), the stdlib codecs of the other algorithms; behaviour of the decoder on streams the compressor cannot produce (it trusts the stream: '
               'C12-EXTENT assumes at least as much room as the token denotes); a decoder restructured around running pointers instead of positions, `break` out of the token loop, goto / '
               'switch in the token step end in ANALYSIS-ERROR, not in a verdict.')
MUTATIONS = ('see /verif/mutants/C12/*/meta.json (57 brainstormed mutants: 40 breaking - all reported, 17 behaviour-preserving - all silent); round 6 added x6-* (14 breaking edits of the '
             'copy / store / stop mechanism of the decoder) and P6-* (10 rewrites: inverted token dispatch, byte loop, blocks + tail, guarded wild copy, pointer + memmove, helper, early continue, renamed locals, '
             'defensive bounds test, literal through pointer arithmetic)')

# eighth strengthening round (session K3, seed C12l): the token step may stage bytes in a scratch object of its own
TECHNIQUE += ('; scratch objects of the token step (a local whose address is taken, a local array) are regions of their own: a copy into one records where its bytes came from, '
              'a copy out of one is a copy from there with memmove semantics; sizeof is folded to its LP64 value in the AST for both engines')
DECIDES += (' C12-EXTENT (round 8): copies that go through a machine word or a small local buffer (`memcpy(&word, dst + ref, 8); memcpy(dst + out, &word, 8);`, also inside a helper '
            'or a block loop) are decided like direct copies - the stored extent against the room left, coverage, displacement; new clause read-extent: every load from the output '
            '(direct, through a cast pointer, or into a scratch object, whose size need not be the size stored later) ends at or below dst_len for the smallest room the path admits, '
            'refuted only by a concrete token. A condition that compares a position involving the offset fields with dst_len is weakened to the extreme values of its bound instead '
            'of ending in ANALYSIS-ERROR. C12-BITS leaves copy sizes it has no value for (a product with sizeof, a copy through a scratch object) to C12-EXTENT.')
MUTATIONS = ('see /verif/mutants/C12/*/meta.json; round 8 added y8-* (8 breaking edits of the staged "copy one machine word" mechanism: missing / exact / too small slack, 16 byte buffer, '
             'load overrun with exact store, two byte literal, unguarded helper, block loop, guard on the wrong position) and P8-* (4 rewrites: guarded word copy, exact staged copy, '
             'sizeof spelling + staged literal, guarded helper)')
