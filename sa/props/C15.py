"""C15 — indexing/slicing of builtin sequences: the flag interface between IndexNode/SliceIndexNode and the
__Pyx_{Get,Set,Del}ItemInt* / __Pyx_PyObject_{Get,Set,Del}Slice helpers, and the guards inside the C fast paths."""
import ast, re

from ..core import Rule, AnalysisError, node_src
from ..engine import tables
from ..engine.cutil import split_args, match_paren
from ..engine.pyindex import walk_no_nested, is_self_attr
from ..rules import pC15 as P
from ..rules import sC15 as S
from ..rules import s7C15 as S7
from ..rules.iface import const_strs, local_env, str_template, PLACEHOLDER

ID = 'C15'
TECHNIQUE = ('interface agreement (arity, name-aligned argument order, directive provenance) between the emitting node methods and the C helper '
             'signatures read from the utility catalogue; propositional enumeration of the Python guard expressions that compute the flags; '
             'path enumeration of the C fast-path helpers per preprocessor configuration and flag value with an index-status domain '
             '(raw / length-added / bounds-tested), used in both directions (length added at least once before a non-wrapping accessor, at most once before a '
             'wrapping consumer); decision table of the bound normalisation in ConstantFolding.visit_SliceIndexNode over the complete partition of bound values, folded on model nodes; '
             'fourth round: abstract interpretation of the fast paths on sets of linear forms over IDX and LEN (C15-AMOUNT); truth tables of the two bounds predicates with C conversion '
             'rules over every integer width / signedness and the boundary classes relative to the limit (C15-VALID); symbolic execution of the C slice helpers on linear forms over the '
             'complete class partition of both bounds relative to the length, emptiness test forked (C15-CLAMP); role agreement over assignments and their guards (C15-SLICEOBJ); '
             'type-test / helper-name agreement with path conditions (C15-KIND); reference table of the default bounds (C15-DEFAULT); exception class of the out-of-range alternative '
             '(C15-RANGE); folding of the emitted byte range test on model nodes and evaluation on the boundary values of each value type (C15-BYTE)')
DECIDES = ('(ARITY) every helper name IndexNode emits receives explicit arguments + the flag tuple of extra_index_params exactly when it is an '
           'integer-index helper, and that count equals the C parameter count; '
           '(FLAGS) the flag tuple has one format item per element, all integer-index macros agree on the trailing parameter names, each tuple element '
           'sits at the position of the C parameter whose name it carries, the elements for parameters named like a directive read that directive, '
           'and the computed value is true whenever the directive is on (for wraparound: whenever the index is signed and not a non-negative constant), '
           'has_gil is false under nogil; '
           '(FWD) inside the helper macros/functions a forwarded parameter lands on the callee parameter of the same name, and a callee parameter that the caller '
           'also has under the same name does not receive a different caller parameter; '
           '(GUARD) in every flag-taking C fast path, for every preprocessor configuration and flag value: an unchecked element access is reached only '
           'after __Pyx_is_valid_index on the same variable when boundscheck is on; an accessor that does not wrap is reached only with an index that is '
           'known non-negative or had the length added on the negative path when wraparound is on; a bounds test that rejects an unadjusted negative index '
           'hands it to a wrapping fallback; flag values handed to sibling helpers are not weakened without the obligation being discharged; '
           '(SLICE) arity and name-aligned order of the calls SliceIndexNode emits, the unpacking order of get_slice_config(), and that the value for each '
           'start/stop/slice parameter is computed from the matching sub-expression; '
           '(RAW) IndexNode selects the unchecked non-temp result path only where boundscheck is off and wrap-around cannot be needed; '
           '(ONCE) in every flag-taking C fast path, for every preprocessor configuration and flag value: an index that had the container length added is handed to a consumer '
           'that wraps by itself (PySequence_{Get,Set,Del}Item, the generic fallback behind PyLong_FromSsize_t, plain helpers that forward their parameter to one of those - derived '
           'from the catalogue -, sibling fast paths called with wraparound possibly on) only on paths where it is known to be non-negative (bounds test passed or explicit `x < 0` rejection): '
           'the length is never added twice; '
           '(BOUND) ConstantFolding.visit_SliceIndexNode turns a slice bound into "no bound" only for bound values where x[a:b] on a builtin sequence cannot change '
           '(absent, constant None; for the start also integer 0 / False): tabulated for both bounds over absent / None / 0 / False / 1 / True / -1 / other positive / other negative / '
           'falsy and truthy non-integer constants / not a constant / constant not computed, in all combinations; the item list of a constant sequence is cut only when it carries no multiplier. '
           '(AMOUNT) in every flag-taking fast path, every helper that receives the index by address and every bounds-testing accessor macro they use: an assignment that writes the index (or a '
           'variable whose new value is IDX + something) adds exactly 0 or the length of the indexed container (a size accessor applied to the container parameter, through locals and '
           'flag-decided conditionals), and every <, <=, >, >= / __Pyx_is_valid_index comparison of such a value is against a constant or that same length; '
           '(VALID) __Pyx_is_valid_index(i, limit) <=> 0 <= i < limit for i in {MIN, MIN+1, -limit-1, -limit, -2, -1, 0, 1, limit-2, limit-1, limit, limit+1, MAX-1, MAX} and limit in {0, 1, 2, 7, MAX}; '
           '__Pyx_fits_Py_ssize_t(v, type, is_signed) <=> PY_SSIZE_T_MIN <= v <= PY_SSIZE_T_MAX for signed/unsigned types of 8, 16, 32, 64 and 128 bits and v at the type limits and around both '
           'Py_ssize_t limits; (CLAMP) for __Pyx_PyUnicode_Substring and __Pyx_crop_slice (found as: reachable from the helpers SliceIndexNode emits, assigning their start/stop): for every pair of '
           'classes of start and stop relative to the length (11 x 11, symbolic length >= 4 and lengths 0..3) the normalised bounds at the point of use equal PySlice_AdjustIndices (start may stay '
           'above the length and stop below 0 only where that makes the slice empty), a constant result is returned only where the Python slice can be empty, the whole object only for [0:len], '
           'a result is built only behind a start/stop comparison where the slice can be empty, the stored length is stop - start, and the callers read the normalised start and length; '
           '(SLICEOBJ) in both instantiations of the SliceObject helper an assignment to a start/stop variable reads only values of the same bound and stands only under tests of flags/pointers of the '
           'same bound, PySlice_New receives (start, stop); (KIND) in IndexNode / SliceIndexNode a helper whose name carries List / Tuple / Bytes / ByteArray / Unicode / Dict is selected under a test '
           'of the indexed object for that type, and not on the branch where that type is excluded unless the helper tests the type itself; (DEFAULT) absent / run-time None bounds stand for 0 (start) '
           'and PY_SSIZE_T_MAX (stop); (RANGE) every integer-index macro guards its fast path with __Pyx_fits_Py_ssize_t(index, type, is_signed) and raises nothing but IndexError for an index '
           'outside the Py_ssize_t range; (BYTE) the range test emitted for `bytearray[i] = v` is true exactly for the values outside 0..255 that the C type of v can hold.')
NOT_DECIDED = ('overflow of i + size; the construction of the result object from the normalised slice bounds (pointer arithmetic in units of the character width in __Pyx_PyUnicode_Substring, '
               'the item copy loops of __Pyx_Py{List,Tuple}_FromArray and their `n <= 0` guards - mutants substring-kind-offset, fromarray-copy-short); '
               'the cutting of constant strings by constant bounds (as_sliced_node) in visit_SliceIndexNode; the generic object-protocol fallbacks; helpers whose body uses goto/loops are only checked at their interface; '
               'the DESIGN clause "dominance in the non-templated _Fast functions" is implemented for the templated List/Tuple variants as well by expanding the template.')
ASSUMPTIONS = ['the classification of element accessors into unchecked / checked-but-not-wrapping / wrapping (pC15.RAW_ACCESSORS etc.) follows the CPython C-API documentation',
               'flag arguments are compile-time 0/1 constants (they are emitted with %d from Python bools)']

EXEMPT = {}

MUTATIONS = [
    # (file, single edit applied on a scratch copy, rule that reported it) — all variants were reported (exit 1) with a message naming the construct
    ('Cython/Compiler/ExprNodes.py', 'extra_index_params: swap `wraparound, boundscheck` in the returned tuple', 'C15-FLAGS'),
    ('Cython/Compiler/ExprNodes.py', "extra_index_params: `boundscheck = bool(...directives['wraparound'])`", 'C15-FLAGS'),
    ('Cython/Compiler/ExprNodes.py', 'extra_index_params: drop `not` in `not (isinstance(...constant_result, int) and ...constant_result >= 0)`', 'C15-FLAGS'),
    ('Cython/Compiler/ExprNodes.py', 'extra_index_params: `has_gil = self.in_nogil_context`', 'C15-FLAGS'),
    ('Cython/Compiler/ExprNodes.py', 'extra_index_params: drop `has_gil` from format and tuple (6 flags)', 'C15-ARITY'),
    ('Cython/Compiler/ExprNodes.py', 'IndexNode.generate_deletion_code: `function = "__Pyx_DelItemInt"` on the non-integer (dict) branch', 'C15-ARITY'),
    ('Cython/Compiler/ExprNodes.py', "analyse_as_pyobject: `and not env.directives['boundscheck']` -> `and env.directives['boundscheck']`", 'C15-RAW'),
    ('Cython/Compiler/ExprNodes.py', 'analyse_as_pyobject: `self.index.constant_result >= 0` -> `<= 0`', 'C15-RAW'),
    ('Cython/Compiler/ExprNodes.py', "analyse_as_pyobject: `or not env.directives['wraparound']` -> `or env.directives['wraparound']`", 'C15-RAW'),
    ('Cython/Compiler/ExprNodes.py', 'analyse_as_pyobject: swap `self.is_temp = 0` / `self.is_temp = 1`', 'C15-RAW'),
    ('Cython/Compiler/ExprNodes.py', 'SliceIndexNode.generate_result_code: swap {has_c_start:d} and {has_c_stop:d} in the GetSlice call', 'C15-SLICE'),
    ('Cython/Compiler/ExprNodes.py', 'get_slice_config: return (has_c_stop, has_c_start, ...)', 'C15-SLICE'),
    ('Cython/Compiler/ExprNodes.py', 'get_slice_config: `c_stop = self.start.result()`', 'C15-SLICE'),
    ('Cython/Compiler/ExprNodes.py', 'SliceIndexNode.generate_deletion_code: drop the py_slice argument of __Pyx_PyObject_DelSlice', 'C15-SLICE'),
    ('Cython/Compiler/ExprNodes.py', 'SliceIndexNode.generate_assignment_code: unpack get_slice_config() as (..., c_stop, c_start, ...)', 'C15-SLICE'),
    ('Cython/Compiler/ExprNodes.py', '__Pyx_PyUnicode_Substring({base_result}, {stop_code}, {start_code})', 'C15-SLICE'),
    ('Cython/Utility/ObjectHandling.c', '__Pyx_GetItemInt macro: forward `boundscheck, wraparound` to __Pyx_GetItemInt_Fast', 'C15-FWD'),
    ('Cython/Utility/ObjectHandling.c', '__Pyx_GetItemInt_{{type}} macro: forward `boundscheck, wraparound` to the templated _Fast', 'C15-FWD'),
    ('Cython/Utility/ObjectHandling.c', '__Pyx_GetItemInt_Fast: call __Pyx_GetItemInt_List_Fast(o, i, boundscheck, wraparound, ...)', 'C15-FWD + C15-GUARD'),
    ('Cython/Utility/ObjectHandling.c', '__Pyx_SetItemInt macro: parameter list `..., boundscheck, wraparound, ...`', 'C15-FLAGS'),
    ('Cython/Utility/StringTools.c', '__Pyx_GetItemInt_Unicode_Fast prototype+definition: `int boundscheck, int wraparound`', 'C15-FWD'),
    ('Cython/Utility/ObjectHandling.c', '__Pyx_SetItemInt_Fast: `(!boundscheck) ||` -> `(boundscheck) ||`', 'C15-GUARD'),
    ('Cython/Utility/ObjectHandling.c', '__Pyx_SetItemInt_Fast: remove `if (wraparound && (i < 0) && ...__Pyx_GetItemInt_wraparound(o, sm, &i)...) return -1;`', 'C15-GUARD'),
    ('Cython/Utility/ObjectHandling.c', '__Pyx_GetItemInt_{{type}}_Fast: `wraparound & unlikely(i < 0)` -> `boundscheck & unlikely(i < 0)`', 'C15-GUARD'),
    ('Cython/Utility/StringTools.c', '__Pyx_GetItemInt_Unicode_Fast: remove `if (wraparound & unlikely(i < 0)) i += length;`', 'C15-GUARD'),
    ('Cython/Utility/StringTools.c', '__Pyx_GetItemInt_Bytes_Fast: `if (boundscheck) {` -> `if (wraparound) {`', 'C15-GUARD'),
    ('Cython/Utility/StringTools.c', '__Pyx_SetItemInt_ByteArray_Fast: pass literal 0 for boundscheck to _Fast_Locked', 'C15-GUARD'),
    ('Cython/Utility/StringTools.c', '__Pyx_GetItemInt_Unicode_Fast: __Pyx_is_valid_index(length, i)', 'C15-GUARD'),
    ('Cython/Utility/StringTools.c', '__Pyx_GetItemInt_ByteArray_Fast: `wraparound = wraparound && i<0` -> `i>0`', 'C15-GUARD'),
    ('Cython/Utility/StringTools.c', '__Pyx_GetItemInt_Unicode_Fast: __Pyx_SetStringIndexingError(..., boundscheck)', 'C15-FWD'),
    # second round (sa/rules/sC15.py): seeds C15a / C15b + single-edit variants of the same mechanisms - all reported
    ('Cython/Utility/ObjectHandling.c', 'seed C15a: __Pyx_SetItemInt_Fast wraps `i` in place (`i += PyList_GET_SIZE(o)`) instead of the copy `n`; the generic fallback gets the wrapped index', 'C15-ONCE'),
    ('Cython/Utility/ObjectHandling.c', '__Pyx_GetItemInt_{{type}}_Fast: `return __Pyx_GetItemInt_Generic_size(o, i)` -> `(o, wrapped_i)`', 'C15-ONCE'),
    ('Cython/Utility/ObjectHandling.c', '__Pyx_GetItemInt_Tuple_Fast (AVOID_BORROWED_REFS): remove the `if (wrapped_i < 0) {IndexError}` in front of PySequence_GetItem(o, wrapped_i)', 'C15-ONCE'),
    ('Cython/Utility/ObjectHandling.c', '__Pyx_GetItemInt_Fast: `return sm->sq_item(o, i)` -> `return PySequence_GetItem(o, i)` after the helper added the length', 'C15-ONCE'),
    ('Cython/Utility/ObjectHandling.c', '__Pyx_DelItemInt_Fast: sq_ass_item branch no longer returns on failure, falls through to the mapping/generic fallback with the adjusted i', 'C15-ONCE'),
    ('Cython/Utility/ObjectHandling.c', '__Pyx_SetItemInt_Fast: __Pyx_GetItemInt_wraparound(o, sm, &i) hoisted out of the `if (sm && sm->sq_ass_item)` branch', 'C15-ONCE'),
    ('Cython/Utility/StringTools.c', '__Pyx_SetItemInt_ByteArray_Fast: `if (wraparound && i < 0) i += size;` in front of the _Locked callee, which wraps as well', 'C15-ONCE'),
    ('Cython/Compiler/Optimize.py', 'seed C15b: visit_SliceIndexNode `constant_result is None` -> `not constant_result` for both bounds', 'C15-BOUND stop:zero, stop:false, *:falsy-float, *:falsy-str'),
    ('Cython/Compiler/Optimize.py', 'visit_SliceIndexNode: stop test `... is None or node.stop.constant_result == 0`', 'C15-BOUND stop:zero'),
    ('Cython/Compiler/Optimize.py', 'visit_SliceIndexNode: stop test `not node.stop.has_constant_result()`', 'C15-BOUND stop:not-constant'),
    ('Cython/Compiler/Optimize.py', 'visit_SliceIndexNode: copy-paste `start = node.stop = None` in the start branch', 'C15-BOUND stop:*'),
    ('Cython/Compiler/Optimize.py', 'visit_SliceIndexNode: stop test inverted (`is not None`)', 'C15-BOUND stop:*'),
    ('Cython/Compiler/Optimize.py', 'visit_SliceIndexNode: start test `constant_result in (None, 0, -1)`', 'C15-BOUND start:minus-one, start:falsy-float'),
    ('Cython/Compiler/Optimize.py', 'visit_SliceIndexNode: stop test `not isinstance(node.stop.constant_result, int)`', 'C15-BOUND stop:not-constant, stop:float, ...'),
    # behaviour preserving, all silent (exit 0)
    ('Cython/Utility/ObjectHandling.c', '(second round) __Pyx_GetItemInt_Tuple_Fast: `if (wrapped_i < 0) {error; return} return PySequence_GetItem(..)` -> `if (likely(wrapped_i >= 0)) return PySequence_GetItem(..); error`', None),
    ('Cython/Compiler/Optimize.py', '(second round) visit_SliceIndexNode: De Morgan + swapped branches (`if node.start is not None and ...constant_result is not None: ... else: node.start = None`)', None),
    ('Cython/Compiler/Optimize.py', '(second round) visit_SliceIndexNode: the None test extracted into a method self._no_bound(bound)', None),
    ('Cython/Compiler/Optimize.py', '(second round) visit_SliceIndexNode: `node.stop.constant_result is None` -> `node.stop.is_none`', None),
    ('Cython/Compiler/Optimize.py', '(second round) visit_SliceIndexNode: an integer start of 0 is dropped as well (x[0:b] == x[:b])', None),
    ('Cython/Compiler/ExprNodes.py', 'extra_index_params: rename locals wraparound->wrap, boundscheck->bc, inline has_gil', None),
    ('Cython/Compiler/ExprNodes.py', 'extra_index_params: build the tuple in a local `flags` and return fmt % flags', None),
    ('Cython/Utility/ObjectHandling.c', 'rename wrapped_i -> idx; `(!boundscheck) || likely(X)` -> `!boundscheck || X`', None),
    ('Cython/Utility/ObjectHandling.c', 'move the DelItemInt sections in front of the SetItemInt sections', None),
    ('Cython/Utility/ObjectHandling.c', '__Pyx_SetItemInt macro: parenthesise every forwarded argument', None),
    ('Cython/Utility/ObjectHandling.c', '__Pyx_SetItemInt_Fast: ternary `n = ...` -> `n = i; if (wraparound && n < 0) n += PyList_GET_SIZE(o);`', None),
    ('Cython/Utility/StringTools.c', '__Pyx_GetItemInt_Unicode_Fast: `if (wraparound & unlikely(i < 0)) i += length;` -> `if (wraparound && i < 0) { i += length; }`', None),
    ('Cython/Utility/StringTools.c', '__Pyx_GetItemInt_Bytes_Fast: `if (boundscheck)` -> `if (boundscheck != 0)`, `unlikely(!X)` -> `!likely(X)`', None),
    ('Cython/Compiler/ExprNodes.py', 'get_slice_config: stop block before start block; analyse_as_pyobject: swap two conjuncts of the is_temp guard', None),
]

# fourth round (mutation brainstorming, mutants/C15/*): 37 breaking edits over the fast item access helpers, the two bounds predicates, the slice helpers, SliceObject, IndexNode /
# SliceIndexNode and ConstantFolding; 4 were reported before (GUARD, FWD, BOUND), 35 now; 2 declined (see NOT_DECIDED).  15 behaviour-preserving rewrites: all silent after
# IndexNode's helper selection through a conditional expression was understood by the emission model (it used to end in ANALYSIS-ERROR: C15-FWD below its floor).
MUTATIONS += [
    ('Cython/Utility/ObjectHandling.c', '__Pyx_GetItemInt_wraparound `*i = l`; `wrapped_i -= size`; i + PyList_GET_SIZE(v)', 'C15-AMOUNT <function>:amount:<variable>'),
    ('Cython/Utility/StringTools.c', '`i += length - 1`; __Pyx_is_valid_index(i, i + 1)', 'C15-AMOUNT amount / limit'),
    ('Cython/Utility/ModuleSetupCode.c', '__Pyx_PyList_GetItemRef: limit PyList_GET_SIZE(o) + 1', 'C15-AMOUNT __Pyx_PyList_GetItemRef:limit'),
    ('Cython/Utility/TypeConversion.c', '__Pyx_is_valid_index `<=` / signed compare; __Pyx_fits_Py_ssize_t without the unsigned / lower-bound test', 'C15-VALID'),
    ('Cython/Utility/StringTools.c', '__Pyx_PyUnicode_Substring: start clamp / stop wrap dropped, `start == 0` shortcut', 'C15-CLAMP'),
    ('Cython/Utility/ObjectHandling.c', '__Pyx_crop_slice: stop clamp dropped, start clamped to 1, length + 1; __Pyx_PyTuple_GetSlice: `+ start` dropped', 'C15-CLAMP'),
    ('Cython/Utility/ObjectHandling.c', 'SliceObject: PyLong_FromSsize_t(cstart) for the stop, `if (has_cstart)` for the stop, PySlice_New(py_stop, py_start, ..)', 'C15-SLICEOBJ'),
    ('Cython/Utility/ObjectHandling.c', '__Pyx_GetItemInt_List: OverflowError; StringTools.c: __Pyx_SetStringIndexingError raises ValueError', 'C15-RANGE'),
    ('Cython/Compiler/ExprNodes.py', 'List/Tuple helpers exchanged in generate_result_code / calculate_result_code / SliceIndexNode; ByteArray setter on the non-bytearray branch', 'C15-KIND'),
    ('Cython/Compiler/ExprNodes.py', "stop_code -> '-1', start_code -> '1', allow_none(self.stop, '0')", 'C15-DEFAULT'),
    ('Cython/Compiler/ExprNodes.py', "_check_byte_value: '%s > 256'", 'C15-BYTE'),
    ('Cython/Compiler/Optimize.py', 'visit_SliceIndexNode: `base.mult_factor is None` dropped', 'C15-BOUND constant-sequence:multiplier'),
]

# seventh round (seed C15j, sa/rules/s7C15.py; mutants/C15/slicekey-*, slicelit-*, keep-slice*): constant slice objects
TECHNIQUE += ('; seventh round: finite-domain evaluation of the pooling key of constant slice objects (SliceNode.generate_result_code / make_dedup_key folded by the checker\'s ObjFolder on '
              'all triples over absent / 0 / a / b, injectivity of the key) and writer/reader agreement between the literal gate, the PySlice_New arguments and the slice SliceIndexNode caches')
DECIDES += (' (SLICEKEY) the key under which SliceNode pools a constant slice object (code.get_py_const(dedup_key=...)) is different for any two literal slices that differ in start, stop or step: '
            'generate_result_code is folded on the 64 triples over {absent, 0, a, b} and the keys compared pairwise, and the same for 27 slices nested in a constant tuple (recursion of make_dedup_key); '
            '(SLICELIT) SliceNode emits PySlice_New(start, stop, step) from its own three sub-expressions in that order, sets is_literal (which moves the construction into the cached-constants section) only under a '
            'test of .is_literal of each of them, and SliceIndexNode builds the slice object of x[a:b] with start= from its start, stop= from its stop and the constant None as step.')
NOT_DECIDED += ('; constant slices: the pool itself (GlobalState.get_py_const / dedup_const_index in Code.py, decided for C09), the value classes of the components beyond absent / falsy / two truthy '
                'constants (float or string bounds are keyed by the constant branch of make_dedup_key, C09-KEYCOV), SliceNode.constant_result (not modelled: a key function that keys a slice by its '
                'constant_result is seen as "not pooled").')
MUTATIONS += [
    ('Cython/Compiler/ExprNodes.py', 'seed C15j: make_dedup_key keys a slice by (start, stop); also (start, step), (stop, step), item_keys[:2], step keyed by truthiness, SliceNode keying (self.start, self.stop) directly', 'C15-SLICEKEY SliceNode.generate_result_code:pooling-key:<plain|in-tuple>:<component>'),
    ('Cython/Compiler/ExprNodes.py', 'SliceNode.analyse_types: literal gate without the step; PySlice_New(stop, start, step); SliceIndexNode cached slice with stop= copied from the start', 'C15-SLICELIT'),
    ('Cython/Compiler/ExprNodes.py', 'make_dedup_key rewritten with a local helper and early returns, components keyed as (step, start, stop); gate written with all(...); PySlice_New arguments through locals', 'silent'),
]

EX = 'Cython/Compiler/ExprNodes.py'
OPT = 'Cython/Compiler/Options.py'
# directive flags whose "on" value is only needed when the index can be negative
ONLY_FOR_NEGATIVE = {'wraparound'}


# ----------------------------------------------------------------------------------------- python side model
def _cls(tree, name):
    for n in tree.body:
        if isinstance(n, ast.ClassDef) and n.name == name:
            return n
    raise AnalysisError('class %s vanished from ExprNodes.py' % name)


def _methods(cls):
    return {n.name: n for n in cls.body if isinstance(n, (ast.FunctionDef, ast.AsyncFunctionDef))}


def _is_int_test(e):
    return isinstance(e, ast.Attribute) and e.attr == 'is_int' and ast.unparse(e).endswith('index.type.is_int')


def _containing_block(fn, target):
    """The statement list that directly contains `target`."""
    for n in ast.walk(fn):
        for field in ('body', 'orelse', 'finalbody'):
            blk = getattr(n, field, None)
            if isinstance(blk, list) and any(s is target for s in blk):
                return blk
    return []


class Model:
    """What IndexNode emits: the flag tuple and, per emitting method, the helper names with their explicit argument count."""

    def __init__(self, ctx):
        self.ctx = ctx
        self.tree = ctx.parse(EX)
        self.index = _cls(self.tree, 'IndexNode')
        self.m = _methods(self.index)
        if 'extra_index_params' not in self.m:
            raise AnalysisError('IndexNode.extra_index_params vanished')
        self.xfn = self.m['extra_index_params']
        self.fmt = self.tuple = None
        self.xenv = local_env(self.xfn)

        def via_env(e):
            if isinstance(e, ast.Name) and len(self.xenv.get(e.id, ())) == 1:
                return self.xenv[e.id][0]
            return e
        for n in walk_no_nested(self.xfn):
            if isinstance(n, ast.Return) and isinstance(n.value, ast.BinOp) and isinstance(n.value.op, ast.Mod):
                left, right = via_env(n.value.left), via_env(n.value.right)
                if isinstance(left, ast.Constant) and isinstance(left.value, str) and isinstance(right, ast.Tuple):
                    if self.fmt is not None:
                        raise AnalysisError('extra_index_params has several formatted returns')
                    self.fmt, self.tuple, self.ret = left.value, right, n
        if self.fmt is None:
            raise AnalysisError('extra_index_params no longer returns "<format>" % (tuple)')
        self.nflags = len(self.tuple.elts)
        self.sites = []
        for name, fn in self.m.items():
            for n in walk_no_nested(fn):
                if isinstance(n, ast.BinOp) and isinstance(n.op, ast.Mod) and isinstance(n.right, ast.Tuple) and \
                        any(self._is_extra(x) for x in n.right.elts):
                    self.sites.append(self._site(name, fn, n))
        if len(self.sites) < 3:
            raise AnalysisError('only %d IndexNode emission sites use extra_index_params()' % len(self.sites))

    @staticmethod
    def _is_extra(x):
        return isinstance(x, ast.Call) and isinstance(x.func, ast.Attribute) and x.func.attr == 'extra_index_params' and is_self_attr(x.func)

    def _site(self, mname, fn, node):
        t = str_template(node)
        if t is None:
            raise AnalysisError('IndexNode.%s: emission template is not a constant format' % mname)
        text, ph = t
        xi = [i for i, p in enumerate(ph) if p is not None and self._is_extra(p)]
        m = re.search(re.escape(PLACEHOLDER) + r'\(', text)
        if not m or len(xi) != 1:
            raise AnalysisError('IndexNode.%s: cannot find the `<function>(...)` call in the emission template %r' % (mname, text))
        lp = m.end() - 1
        rp = match_paren(text, lp)
        if rp < 0:
            raise AnalysisError('IndexNode.%s: unbalanced emission template %r' % (mname, text))
        args = split_args(text[lp + 1:rp])
        fidx = text[:m.start()].count(PLACEHOLDER)
        first = fidx + 1
        # the flag string must be the tail of the last argument
        k = first
        holder = None
        for ai, a in enumerate(args):
            cnt = a.count(PLACEHOLDER)
            if k <= xi[0] < k + cnt:
                holder = ai
                if not a.rstrip().endswith(PLACEHOLDER) or xi[0] != k + cnt - 1:
                    raise AnalysisError('IndexNode.%s: the flag string is not the tail of an argument' % mname)
            k += cnt
        if holder != len(args) - 1:
            raise AnalysisError('IndexNode.%s: the flag string is not appended after the last explicit argument' % mname)
        fexpr = ph[fidx]
        env = local_env(fn)
        names = const_strs(fexpr, env)
        if names is None:
            raise AnalysisError('IndexNode.%s: helper name %s is not a finite set of constants' % (mname, node_src(fexpr)))
        helpers = {}
        if isinstance(fexpr, ast.Name):
            for n in walk_no_nested(fn):
                if isinstance(n, ast.Assign) and any(isinstance(tg, ast.Name) and tg.id == fexpr.id for tg in n.targets):
                    for c in self._const_choices(n.value):
                        helpers.setdefault(c, []).append(self._intness(fn, n))
        for nm in names:
            helpers.setdefault(nm, [None])
        return dict(method=mname, fn=fn, node=node, explicit=len(args), helpers=helpers, text=text)

    @staticmethod
    def _const_choices(v):
        """string constants an assigned value can take: a constant, or a (nested) conditional expression of constants"""
        if isinstance(v, ast.Constant) and isinstance(v.value, str):
            return [v.value]
        if isinstance(v, ast.IfExp):
            a, b = Model._const_choices(v.body), Model._const_choices(v.orelse)
            return a + b if a and b else []
        return []

    @staticmethod
    def _intness(fn, stmt):
        conds = P.path_conditions(fn, stmt) or []
        for test, pol in conds:
            if _is_int_test(test):
                return pol
            if isinstance(test, ast.UnaryOp) and isinstance(test.op, ast.Not) and _is_int_test(test.operand):
                return not pol
        for s in _containing_block(fn, stmt):
            if isinstance(s, ast.Assert) and _is_int_test(s.test):
                return True
        return None

    def int_helpers(self):
        """{helper name: [method names]} for helpers that receive the flag tuple."""
        out = {}
        for s in self.sites:
            for h, ints in s['helpers'].items():
                if any(i is True for i in ints):
                    out.setdefault(h, []).append(s['method'])
        return out


def _c_arities(ctx, name):
    """(set of parameter counts, [CFun]) of a helper: utility catalogue first, CPython headers second."""
    fs = P.resolve_c(ctx.cat, name)
    if fs:
        return {len(f.params or []) for f in fs if f.params is not None}, fs
    api = tables.cpython_api()
    if name in api:
        ps = api[name][1]
        if ps and ps[-1].strip() == '...':
            return set(), []
        return {len(ps)}, []
    return set(), []


# ----------------------------------------------------------------------------------------- ARITY
def rule_arity(ctx, M):
    r = Rule('C15-ARITY', 'helpers emitted by IndexNode receive explicit arguments + the extra_index_params() flags exactly when they are '
             'integer-index helpers, matching the C parameter count', floor=14)
    for s in M.sites:
        for h, ints in sorted(s['helpers'].items()):
            ar, _ = _c_arities(ctx, h)
            if not ar:
                r.info('%s: helper %s has no resolvable C declaration' % (s['method'], h))
                continue
            for isint in ints:
                key = 'IndexNode.%s:%s' % (s['method'], h)
                want = {s['explicit'] + M.nflags} if isint is True else {s['explicit']} if isint is False else {s['explicit'], s['explicit'] + M.nflags}
                r.inst(key, sample='%s emits %s with %d explicit argument(s)%s; C takes %s' % (
                    s['method'], h, s['explicit'], ' + %d flags' % M.nflags if isint else '', sorted(ar)))
                if not (ar & want):
                    r.violate(key, EX, s['node'].lineno,
                              'IndexNode.%s emits %s(...) with %d explicit argument(s)%s = %s argument(s), but the C helper takes %s: '
                              'the generated C does not compile / a flag lands on the wrong parameter'
                              % (s['method'], h, s['explicit'],
                                 (' plus the %d flags of extra_index_params()' % M.nflags) if isint is True else
                                 ' and no flags (the helper is selected on the non-integer index branch)' if isint is False else '',
                                 ' or '.join(str(w) for w in sorted(want)), sorted(ar)))
    # format string: ", %x" per tuple element
    r.inst('extra_index_params:format', sample='format %r for %d tuple elements' % (M.fmt, M.nflags))
    items = M.fmt.split(',')
    ok = items[0].strip() == '' and all(re.fullmatch(r'\s*%[sdr]\s*', it) for it in items[1:])
    if not ok or len(items) - 1 != M.nflags:
        r.violate('extra_index_params:format', EX, M.ret.lineno,
                  'extra_index_params() formats %d tuple elements with %r: it must emit a leading comma and exactly one placeholder per flag'
                  % (M.nflags, M.fmt))
    r.positive_control(not ({8} & {2 + 7}), 'arity 8 against 2 explicit + 7 flags')
    return r


# ----------------------------------------------------------------------------------------- FLAGS
def _elt_name(e):
    if isinstance(e, ast.BoolOp):          # `x.signed and 1 or 0`
        e = e.values[0]
        if isinstance(e, ast.BoolOp):
            e = e.values[0]
    return P.py_expr_name(e)


def _directives(ctx):
    tree = ctx.parse(OPT)
    d = tables.module_assign(tree, '_directive_defaults')
    if not isinstance(d, ast.Dict):
        raise AnalysisError('Options._directive_defaults vanished')
    keys = {k.value for k in d.keys if isinstance(k, ast.Constant) and isinstance(k.value, str)}
    if len(keys) < 30:
        raise AnalysisError('only %d directives found' % len(keys))
    return keys


def _dirs_read(expr, env, depth=0):
    """Directive names an expression reads, through single local assignments."""
    out = set()
    for n in ast.walk(expr):
        d = P.Worlds.directive_of(n)
        if d is not None:
            out.add(d)
        if isinstance(n, ast.Name) and isinstance(n.ctx, ast.Load) and n.id in env and depth < 5:
            for v in env[n.id]:
                out |= _dirs_read(v, env, depth + 1)
    return out


def _flag_semantics(param, expr, env, directives):
    """Problems of the value computed for C parameter `param` (see DECIDES/FLAGS)."""
    W = P.Worlds(env)
    probs = []
    try:
        for w, atoms in W.worlds([expr]):
            val = W.ev(expr, w)
            if param in directives and ('dir', param) in atoms.values():
                on = W.holds(w, atoms, ('dir', param), True)
                if param in ONLY_FOR_NEGATIVE:
                    c = w['#const']
                    on = on and W.holds(w, atoms, ('signed',), True) and (c is P.SENTINEL or c < 0)
                if on and not val:
                    c = w['#const']
                    probs.append('the %s flag is 0 although the directive is on%s' % (
                        param, '' if param not in ONLY_FOR_NEGATIVE else
                        ' and the index is signed and %s' % ('not a compile-time constant' if c is P.SENTINEL else 'the negative constant %d' % c)))
                    break
            if param == 'has_gil' and ('nogil',) in atoms.values():
                if W.holds(w, atoms, ('nogil',), True) and val:
                    probs.append('has_gil is 1 in a nogil context: the helper raises IndexError without holding the GIL')
                    break
    except P.Unknown as e:
        raise AnalysisError('flag expression for %s uses a constant test the evaluator does not know: %s' % (param, e))
    return probs


def rule_flags(ctx, M, arity_rule):
    r = Rule('C15-FLAGS', 'the flag tuple of extra_index_params() is aligned by name with the trailing parameters of every integer-index helper macro, '
             'reads the directive each parameter is named after, and is on whenever the directive requires it', floor=8)
    directives = _directives(ctx)
    helpers = M.int_helpers()
    if len(helpers) < 6:
        raise AnalysisError('only %d integer-index helpers are emitted by IndexNode' % len(helpers))
    ref = None
    explicit = {}
    for st in M.sites:
        for h in st['helpers']:
            explicit[h] = st['explicit']
    names = [_elt_name(e) for e in M.tuple.elts]
    aligned_against = set()
    for h in sorted(helpers):
        fs = [f for f in P.resolve_c(ctx.cat, h) if f.params is not None and len(f.params) == explicit.get(h, -1) + M.nflags]
        if not fs:
            r.inst('macro:%s' % h, sample='%s: parameter count differs from the emitted argument count' % h)
            r.info('helper %s: no declaration with %d explicit + %d flag parameters (reported by C15-ARITY)' % (h, explicit.get(h, -1), M.nflags))
            continue
        for f in fs:
            tail = f.param_names()[-M.nflags:]
            key = 'macro:%s' % h
            r.inst(key, sample='%s(... %s)' % (h, ', '.join(str(t) for t in tail)))
            if ref is None:
                ref = (h, tail, f)
            elif tail != ref[1]:
                r.violate(key + ':siblings', f.file, f.line,
                          'the trailing %d parameters of %s are (%s) but those of %s are (%s): IndexNode.extra_index_params() emits one flag order for all of them, '
                          'so one of the two helpers receives swapped flags' % (M.nflags, h, ', '.join(map(str, tail)), ref[0], ', '.join(map(str, ref[1]))))
            # name alignment of the emitted tuple against each distinct parameter order
            if tuple(tail) in aligned_against:
                continue
            aligned_against.add(tuple(tail))
            for i, j, a in P.misaligned(names, tail):
                r.violate('%s:%s->%s' % (key, a, tail[i]), EX, M.tuple.elts[i].lineno,
                          'extra_index_params() emits %r in flag position %d, which is parameter %r of %s; the parameter named %r is at position %d: the flags are swapped'
                          % (a, i, tail[i], h, tail[j], j))
    if ref is None:
        if not arity_rule.findings:
            raise AnalysisError('no integer-index helper macro with a matching parameter count found')
        r.info('flag alignment skipped: no helper has explicit + %d parameters (see C15-ARITY)' % M.nflags)
        return r
    tail = ref[1]
    if len([p for p in tail if p in directives]) < 2:
        raise AnalysisError('fewer than two trailing helper parameters are named after a directive (%s)' % ', '.join(map(str, tail)))
    for i, (e, p) in enumerate(zip(M.tuple.elts, tail)):
        if names[i] and P.match_param(names[i], tail) is not None:
            r.inst('tuple:%d:%s' % (i, p), sample='flag %d: %s -> parameter %s' % (i, node_src(e, 60), p))
        reads = _dirs_read(e, M.xenv)
        if p in directives:
            key = 'provenance:%s' % p
            r.inst(key, sample='parameter %s <- directives %s' % (p, sorted(reads)))
            if p not in reads:
                r.violate(key, EX, e.lineno,
                          'the value emitted for C parameter %r (%s) does not read directives[%r]%s: the helper ignores the scoped directive'
                          % (p, node_src(e, 60), p, (' (it reads %s)' % sorted(reads)) if reads else ''))
        for d in sorted(reads & set(tail)):
            if d != p:
                r.violate('provenance:%s<-%s' % (p, d), EX, e.lineno,
                          'the value emitted for C parameter %r is computed from directives[%r], which is the name of another parameter of the same helper' % (p, d))
        if p in directives or p == 'has_gil':
            key = 'semantics:%s' % p
            r.inst(key, sample='%s = %s' % (p, node_src(P.Worlds(M.xenv).resolve(e), 100)))
            for msg in _flag_semantics(p, e, M.xenv, directives):
                r.violate(key, EX, e.lineno, 'IndexNode.extra_index_params(): %s (expression: %s)' % (msg, node_src(P.Worlds(M.xenv).resolve(e), 120)))
    # positive controls
    pc = ast.parse("w = bool(d.directives['wraparound']) and t.signed and (isinstance(i.constant_result, int) and i.constant_result >= 0)").body[0].value
    ok1 = bool(_flag_semantics('wraparound', pc, {}, {'wraparound'}))
    ok2 = bool(P.misaligned(['boundscheck', 'wraparound'], ['wraparound', 'boundscheck']))
    pc3 = ast.parse("self.in_nogil_context").body[0].value
    ok3 = bool(_flag_semantics('has_gil', pc3, {}, set()))
    r.positive_control(ok1 and ok2 and ok3, 'inverted constant test / swapped names / has_gil under nogil')
    return r


# ----------------------------------------------------------------------------------------- C family
class Family:
    """The flag-taking C helpers reachable from the macros IndexNode emits."""

    def __init__(self, ctx, M):
        cat = ctx.cat
        self.macros = {}
        for h in sorted(M.int_helpers()):
            for f in P.resolve_c(cat, h, ('macro',)):
                self.macros.setdefault(h, f)
        if len(self.macros) < 6:
            raise AnalysisError('only %d integer-index helper macros found in the utility catalogue' % len(self.macros))
        self.funcs = {}
        self.adjusting = {}
        todo = []
        for f in self.macros.values():
            todo += [c for c, _, _ in P.c_calls_in_text(f.expanded_body() or '')]
        seen = set()
        while todo:
            n = todo.pop()
            if n in seen:
                continue
            seen.add(n)
            fs = P.resolve_c(cat, n, ('func',))
            if not fs:
                continue
            f = fs[0]
            for i, (t, nm) in enumerate(f.typed_params()):
                if nm and t.endswith('*') and re.search(r'\*\s*%s\s*\+=' % re.escape(nm), f.body or ''):
                    self.adjusting.setdefault(n, set()).add(i)
            names = f.param_names()
            if 'wraparound' not in names and 'boundscheck' not in names:
                continue
            self.funcs[n] = f
            todo += [c for c, _, _ in P.c_calls_in_text(f.expanded_body())]
        if len(self.funcs) < 8:
            raise AnalysisError('only %d flag-taking C fast-path functions found' % len(self.funcs))


def rule_forward(ctx, M, F):
    r = Rule('C15-FWD', 'inside the index helper macros and fast-path functions a forwarded parameter is passed in the position of the callee parameter of the same name', floor=27)
    cat = ctx.cat

    def check(caller, cname, params, body, file, line):
        for callee, args, _ in P.c_calls_in_text(body or ''):
            decls = [d for d in P.resolve_c(cat, callee) if d.params is not None and len(d.params) == len(args)]
            if not decls:
                continue
            d = decls[0]
            pn = d.param_names()
            names = []
            for a in args:
                b = P.bare_c_ident(a)
                names.append(b if b in params and len(b) >= 4 else None)    # o / i / v are too generic to carry a role
            carrying = [n for i, n in enumerate(names) if n and (n in pn or (i < len(pn) and pn[i] in params))]
            if not carrying:
                continue
            key = '%s->%s' % (cname, callee)
            r.inst(key, sample='%s calls %s(%s)' % (cname, callee, ', '.join(args)))
            for i, n in enumerate(names):
                if n and i < len(pn) and pn[i] and pn[i] != n and pn[i] in params and len(pn[i]) >= 4 and n not in pn:
                    r.violate('%s:%s-as-%s' % (key, n, pn[i]), file, line,
                              '%s passes its parameter %r as argument %d of %s, which is that helper\'s parameter %r, although %s has a parameter %r of its own: '
                              'the wrong flag is forwarded' % (cname, n, i, callee, pn[i], cname, pn[i]))
                if n and n in pn and pn.index(n) != i and pn[i] != n and pn.count(n) == 1:
                    r.violate('%s:%s' % (key, n), file, line,
                              '%s forwards its parameter %r as argument %d of %s, which is parameter %r; the parameter named %r is at position %d: '
                              'the two values are exchanged (e.g. boundscheck acts as wraparound)' % (cname, n, i, callee, pn[i], n, pn.index(n)))
    for h, f in sorted(F.macros.items()):
        check(f, h, f.param_names(), f.expanded_body(), f.file, f.line)
    for n, f in sorted(F.funcs.items()):
        check(f, n, f.param_names(), f.expanded_body(), f.file, f.line)
    # positive control
    class D:
        pass
    hits = []
    pn = ['o', 'i', 'wraparound', 'boundscheck']
    names = ['o', 'i', 'boundscheck', 'wraparound']
    for i, n in enumerate(names):
        if n in pn and pn.index(n) != i:
            hits.append(n)
    r.positive_control(len(hits) == 2, 'swapped forwarded flags')
    return r


PC_GUARD = '''{
    Py_ssize_t length = PyList_GET_SIZE(o);
    if (boundscheck && wraparound) {
        if (unlikely(!__Pyx_is_valid_index(i, length))) { return NULL; }
    }
    return PyList_GET_ITEM(o, i);
}'''


def _run_flow(name, typed, body_text, fam_params, adjusting):
    problems, events, paths = {}, set(), 0
    for cfg, text in P.pp_configs(body_text):
        tree = P.parse_c_function_body(text)
        for Wv in (0, 1):
            for Bv in (0, 1):
                fl = P.IndexFlow(name, typed, tree, fam_params, adjusting)
                fl.run(Wv, Bv, cfg)
                for k, v in fl.problems.items():
                    problems.setdefault(k, v)
                events |= fl.events
                paths += fl.paths
    return problems, events, paths


def rule_guard(ctx, M, F):
    r = Rule('C15-GUARD', 'C fast paths: unchecked element accesses are dominated by the bounds test when boundscheck is on; non-wrapping accessors '
             'receive a wrap-normalised index when wraparound is on; rejected negative indices reach a wrapping fallback (all preprocessor configurations, all flag values)',
             floor=34)
    fam_params = {n: f.typed_params() for n, f in F.funcs.items()}
    total_paths = 0
    for n, f in sorted(F.funcs.items()):
        body = f.expanded_body()
        if body is None:
            raise AnalysisError('%s has no body' % n)
        problems, events, paths = _run_flow(n, f.typed_params(), body, fam_params, F.adjusting)
        total_paths += paths
        r.inst('func:' + n, sample='%s: %d paths, events %s' % (n, paths, sorted(events)[:4]))
        for kind, acc in sorted(events):
            if kind in ('raw', 'nonwrap', 'validtest', 'family'):
                r.inst('%s:%s:%s' % (n, kind, acc))
        for k, msg in sorted(problems.items()):
            r.violate('%s:%s' % (n, k), f.file, f.line, msg)
    r.info('%d paths enumerated over %d functions' % (total_paths, len(F.funcs)))
    typed = [('PyObject *', 'o'), ('Py_ssize_t', 'i'), ('int', 'wraparound'), ('int', 'boundscheck')]
    problems, _, _ = _run_flow('positive_control', typed, PC_GUARD, {}, {})
    r.positive_control(any(k.startswith('unchecked:') for k in problems) and any(k.startswith('nowrap:') for k in problems),
                       'raw access guarded only when both flags are on, no wrap-around adjustment')
    return r


# ----------------------------------------------------------------------------------------- SLICE
CALL_IN_TEMPLATE = re.compile(r'(\b[A-Za-z_]\w*|' + re.escape(PLACEHOLDER) + r')\(')


def _templates(fn):
    """Outermost emitted-text templates (f-strings, "..." % x) of a function."""
    nodes = list(walk_no_nested(fn))
    inner = set()
    for n in nodes:
        if isinstance(n, (ast.JoinedStr, ast.BinOp)) and str_template(n) is not None:
            for sub in ast.walk(n):
                if sub is not n:
                    inner.add(id(sub))
    for n in nodes:
        if id(n) in inner or not isinstance(n, (ast.JoinedStr, ast.BinOp)):
            continue
        t = str_template(n)
        if t is not None:
            yield n, t[0], t[1]


def _emitted_calls(fn):
    """(node, callee names, arg texts, placeholder nodes per arg) for `name(args)` / `{func}(args)` in emitted templates."""
    env = local_env(fn)
    for n, text, ph in _templates(fn):
        for m in CALL_IN_TEMPLATE.finditer(text):
            lp = m.end() - 1
            rp = match_paren(text, lp)
            if rp < 0:
                continue
            if m.group(1) == PLACEHOLDER:
                if m.start() > 0 and (text[m.start() - 1].isalnum() or text[m.start() - 1] in '_' + PLACEHOLDER):
                    continue
                fe = ph[text[:m.start()].count(PLACEHOLDER)]
                names = const_strs(fe, env) if fe is not None else None
                if not names:
                    continue
            else:
                if m.start() > 0 and text[m.start() - 1] == PLACEHOLDER:
                    continue        # {prefix}name( : dynamic name
                names = {m.group(1)}
            args = split_args(text[lp + 1:rp])
            k = text[:lp + 1].count(PLACEHOLDER)
            argph = []
            for a in args:
                c = a.count(PLACEHOLDER)
                argph.append(ph[k:k + c])
                k += c
            yield n, names, args, argph


def _arg_name(a, phs):
    a = a.strip()
    if a == PLACEHOLDER and len(phs) == 1 and phs[0] is not None:
        return P.py_expr_name(phs[0])
    if re.fullmatch(r'[A-Za-z_]\w*', a):
        return a
    return None


def rule_slice(ctx, M):
    r = Rule('C15-SLICE', 'calls emitted by SliceIndexNode: arity and name-aligned argument order against the C declaration; get_slice_config() is unpacked in the '
             'order it returns; each start/stop/slice parameter is computed from the matching sub-expression', floor=24)
    cls = _cls(M.tree, 'SliceIndexNode')
    ms = _methods(cls)
    subexprs = None
    for n in cls.body:
        if isinstance(n, ast.Assign) and any(isinstance(t, ast.Name) and t.id == 'subexprs' for t in n.targets):
            subexprs = tables.literal(n.value)
    if not subexprs:
        raise AnalysisError('SliceIndexNode.subexprs vanished')
    n_slice_calls = 0
    slice_sites = []     # (method, node, callee, [arg names], [C param names])
    for mname, fn in sorted(ms.items()):
        for node, names, args, argph in _emitted_calls(fn):
            for callee in sorted(names):
                ar, fs = _c_arities(ctx, callee)
                if not ar:
                    continue
                key = 'SliceIndexNode.%s:%s' % (mname, callee)
                r.inst(key, sample='%s emits %s(%s)' % (mname, callee, ', '.join(
                    (_arg_name(a, p) or a) for a, p in zip(args, argph))))
                if 'Slice' in callee:
                    n_slice_calls += 1
                if len(args) not in ar:
                    r.violate(key + ':arity', EX, node.lineno,
                              'SliceIndexNode.%s emits %s with %d argument(s) but the C declaration takes %s: the generated C does not compile'
                              % (mname, callee, len(args), sorted(ar)))
                    continue
                an = [_arg_name(a, p) for a, p in zip(args, argph)]
                plists = [f.param_names() for f in fs if f.params is not None and len(f.params) == len(args)]
                if not plists:
                    api = tables.cpython_api().get(callee)
                    if api:
                        plists = [[n2 for _, n2 in P.split_c_params(api[1])]]
                for pn in plists[:1]:
                    for i, j, a in P.misaligned(an, pn):
                        r.violate('%s:%s' % (key, a), EX, node.lineno,
                                  'SliceIndexNode.%s passes %r as argument %d of %s, which is C parameter %r; the parameter named %r is at position %d: the arguments are swapped'
                                  % (mname, a, i, callee, pn[i], pn[j], j))
                    slice_sites.append((mname, fn, node, callee, an, pn))
    if n_slice_calls < 3:
        raise AnalysisError('only %d emitted *Slice calls found in SliceIndexNode' % n_slice_calls)
    # ---- get_slice_config(): unpack order and provenance
    cfg = ms.get('get_slice_config')
    if cfg is None:
        raise AnalysisError('SliceIndexNode.get_slice_config vanished')
    rets = [n for n in walk_no_nested(cfg) if isinstance(n, ast.Return) and isinstance(n.value, ast.Tuple)]
    if len(rets) != 1:
        raise AnalysisError('get_slice_config() does not have exactly one tuple return')
    rnames = [e.id if isinstance(e, ast.Name) else None for e in rets[0].value.elts]

    def reads(name):
        """sub-expression attributes the returned local depends on directly."""
        out = set()
        for n in walk_no_nested(cfg):
            if isinstance(n, ast.Assign):
                tg = []
                for t in n.targets:
                    tg += list(t.elts) if isinstance(t, ast.Tuple) else [t]
                vals = list(n.value.elts) if isinstance(n.value, ast.Tuple) and len(n.value.elts) == len(tg) else [n.value] * len(tg)
                for t, v in zip(tg, vals):
                    if isinstance(t, ast.Name) and t.id == name:
                        for x in ast.walk(v):
                            if is_self_attr(x) and x.attr in subexprs:
                                out.add(x.attr)
        return out
    unpacks = 0
    for mname, fn in sorted(ms.items()):
        for n in walk_no_nested(fn):
            if isinstance(n, ast.Assign) and isinstance(n.value, ast.Call) and isinstance(n.value.func, ast.Attribute) \
                    and n.value.func.attr == 'get_slice_config' and is_self_attr(n.value.func) and isinstance(n.targets[0], ast.Tuple):
                tnames = [e.id if isinstance(e, ast.Name) else None for e in n.targets[0].elts]
                key = 'SliceIndexNode.%s:unpack' % mname
                unpacks += 1
                r.inst(key, sample='%s unpacks get_slice_config() into (%s)' % (mname, ', '.join(map(str, tnames))))
                if len(tnames) != len(rnames):
                    r.violate(key + ':len', EX, n.lineno, '%s unpacks get_slice_config() into %d names but it returns %d values' % (mname, len(tnames), len(rnames)))
                    continue
                for i, (t, rn) in enumerate(zip(tnames, rnames)):
                    if t and rn and t != rn and t in rnames:
                        r.violate('%s:%s' % (key, t), EX, n.lineno,
                                  '%s unpacks position %d of get_slice_config() into %r, but the function returns %r there and %r at position %d: '
                                  'start/stop (or C/Python) values are exchanged' % (mname, i, t, rn, t, rnames.index(t)))
                # provenance: returned position -> unpack name -> emitted C parameter -> sub-expression named in the parameter
                for site in slice_sites:
                    if site[0] != mname:
                        continue
                    _, _, node, callee, an, pn = site
                    for pos, a in enumerate(an):
                        if a in tnames and pos < len(pn) and pn[pos]:
                            k = tnames.index(a)
                            rn = rnames[k] if k < len(rnames) else None
                            if not rn:
                                continue
                            want = [s for s in subexprs if s != 'base' and s in P.norm_name(pn[pos])]
                            if len(want) != 1:
                                continue
                            got = reads(rn)
                            key2 = 'provenance:%s:%s' % (callee, pn[pos])
                            r.inst(key2, sample='%s parameter %s <- get_slice_config()[%d] %s reads self.%s' % (callee, pn[pos], k, rn, sorted(got)))
                            bad = got - {want[0]}
                            if bad or (got and want[0] not in got):
                                r.violate(key2, EX, cfg.lineno,
                                          'get_slice_config() computes %r (emitted as C parameter %r of %s) from self.%s instead of self.%s: the slice uses the wrong bound'
                                          % (rn, pn[pos], callee, '/self.'.join(sorted(got)), want[0]))
    if unpacks < 3:
        raise AnalysisError('only %d unpackings of get_slice_config() found' % unpacks)
    r.positive_control(bool(P.misaligned(['obj', 'c_stop', 'c_start'], ['obj', 'cstart', 'cstop'])), 'swapped c_start/c_stop')
    return r


# ----------------------------------------------------------------------------------------- RAW
def _raw_guard_problems(conds, env):
    """conds: [(test, polarity)] under which the unchecked result path is selected."""
    W = P.Worlds(env)
    exprs = [t for t, _ in conds]
    probs = []
    try:
        for w, atoms in W.worlds(exprs):
            if not all(W.ev(t, w) == pol for t, pol in conds):
                continue
            if ('dir', 'boundscheck') not in atoms.values() or W.holds(w, atoms, ('dir', 'boundscheck'), True):
                probs.append(('boundscheck', 'the unchecked item access is selected although directives[\'boundscheck\'] is on: an out-of-range index does not raise IndexError'))
                break
        for w, atoms in W.worlds(exprs):
            if not all(W.ev(t, w) == pol for t, pol in conds):
                continue
            c = w['#const']
            if W.holds(w, atoms, ('dir', 'wraparound'), True) and W.holds(w, atoms, ('signed',), True) and (c is P.SENTINEL or c < 0):
                probs.append(('wraparound', 'the unchecked, non-wrapping item access is selected although directives[\'wraparound\'] is on and the index is signed and %s: '
                              'a negative index reads before the start of the container' % ('not a compile-time constant' if c is P.SENTINEL else 'the negative constant %d' % c)))
                break
    except P.Unknown as e:
        raise AnalysisError('is_temp guard uses a constant test the evaluator does not know: %s' % e)
    return probs


def rule_raw(ctx, M):
    r = Rule('C15-RAW', 'IndexNode selects the unchecked non-temp result (calculate_result_code: *_GET_ITEM) only where boundscheck is off and no wrap-around can be needed', floor=2)
    calc = M.m.get('calculate_result_code')
    gen = M.m.get('generate_result_code')
    if calc is None or gen is None:
        raise AnalysisError('IndexNode.calculate_result_code / generate_result_code vanished')
    raw = [c.value for c in ast.walk(calc) if isinstance(c, ast.Constant) and isinstance(c.value, str) and re.search(r'GET_ITEM\(|\[%s\]', c.value)]
    if not raw:
        raise AnalysisError('calculate_result_code no longer contains the unchecked access templates')
    # the checked helpers are only emitted for temps
    early = any(isinstance(n, ast.If) and isinstance(n.test, ast.UnaryOp) and isinstance(n.test.op, ast.Not) and is_self_attr(n.test.operand) and n.test.operand.attr == 'is_temp'
                and any(isinstance(s, ast.Return) for s in n.body) for n in gen.body)
    r.inst('IndexNode.generate_result_code:not-temp-return', sample='generate_result_code returns early for non-temps: %s' % early)
    if not early:
        raise AnalysisError('generate_result_code no longer starts with `if not self.is_temp: return`; the unchecked path is selected differently')
    # the base-type flags under which calculate_result_code emits the unchecked templates
    raw_types = set()
    for n in ast.walk(calc):
        if isinstance(n, ast.If) and any(isinstance(c, ast.Constant) and isinstance(c.value, str) and re.search(r'GET_ITEM\(|\[%s\]', c.value)
                                         for b in n.body for c in ast.walk(b)):
            raw_types |= {a.attr for a in ast.walk(n.test) if isinstance(a, ast.Attribute) and re.fullmatch(r'is_py\w+_type', a.attr)}
    if not raw_types:
        raise AnalysisError('calculate_result_code: cannot tell for which base types the unchecked templates are used')
    found = 0
    for mname, fn in M.m.items():
        for n in walk_no_nested(fn):
            if isinstance(n, ast.Assign) and any(is_self_attr(t) and t.attr == 'is_temp' for t in n.targets) \
                    and isinstance(n.value, ast.Constant) and not n.value.value:
                conds = P.path_conditions(fn, n) or []
                # only selections made for the builtin sequence types lead to the *_GET_ITEM templates
                mentioned = {a.attr for t, _ in conds for a in ast.walk(t) if isinstance(a, ast.Attribute)}
                if not (mentioned & raw_types):
                    r.info('IndexNode.%s: is_temp = 0 outside the builtin-sequence branch is not an unchecked sequence access' % mname)
                    continue
                found += 1
                key = 'IndexNode.%s:is_temp=0' % mname
                r.inst(key, sample='%s: is_temp = 0 under %s' % (mname, ' and '.join(('' if p else 'not ') + '(' + node_src(t, 50) + ')' for t, p in conds)))
                for k, msg in _raw_guard_problems(conds, local_env(fn)):
                    r.violate('%s:%s' % (key, k), EX, n.lineno, 'IndexNode.%s: %s' % (mname, msg))
    if not found:
        raise AnalysisError('no `self.is_temp = 0` selection found in IndexNode')
    pc = ast.parse("getting and env.directives['boundscheck'] and (not t.signed or not env.directives['wraparound'])").body[0].value
    r.positive_control(any(k == 'boundscheck' for k, _ in _raw_guard_problems([(pc, True)], {})), 'non-negated boundscheck test')
    return r


def run(ctx):
    M = Model(ctx)
    F = Family(ctx, M)
    ra = rule_arity(ctx, M)
    emitted = set()
    for fn in _methods(_cls(M.tree, 'SliceIndexNode')).values():
        for _, names, _, _ in _emitted_calls(fn):
            emitted |= set(names)
    return [ra, rule_flags(ctx, M, ra), rule_forward(ctx, M, F), rule_guard(ctx, M, F), rule_slice(ctx, M), rule_raw(ctx, M),
            S.rule_once(ctx, F), S.rule_bound(ctx),
            S.rule_amount(ctx, F), S.rule_valid(ctx), S.rule_clamp(ctx, emitted), S.rule_sliceobj(ctx), S.rule_kind(ctx), S.rule_default(ctx), S.rule_range(ctx, F), S.rule_byte(ctx),
            S7.rule_slicekey(ctx), S7.rule_slicelit(ctx)]
