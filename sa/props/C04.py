"""C04 — overflowcheck: every overflow-capable C integer operator has overflow plumbing, the overflow bit is zeroed before
and tested after the (possibly folded) expression, the fold never leaves the arithmetic expression, and the Python side
and the Overflow.c templates agree on helper names, contexts and dispatch."""
import ast, re, os, subprocess, tempfile

from ..core import Rule, AnalysisError, node_src
from ..engine import pyflow, absint
from ..engine.pyindex import walk_no_nested, is_self_attr
from ..engine.cutil import match_paren, split_args, strip_c_comments
from ..rules import pC04 as P
from ..rules.iface import str_template, PLACEHOLDER, rule_I5, const_strs, local_env

ID = 'C04'
TECHNIQUE = ('class-graph / table extraction (operator -> node class -> overflow_op_names), path-sensitive dataflow over the Python '
             'generator methods (bit protocol, fold scope as a small abstract interpretation of ConsolidateOverflowCheck, partial '
             'evaluation of overflow_check_binop over the complete finite domain op x const_rhs), Tempita read sets vs context keys, '
             'helper-name agreement with #if coverage, clang as parser for the Binop dispatch and as constant evaluator for the '
             'MIN / -1 guard (compile-fail witness); visitor-dispatch resolution + summary substitution of delegating handlers for the fold barrier; '
             'bounded model check of the Overflow.c helpers and decision table of the Binop dispatcher with the checker\'s own C interpreter (rules/pC03.py, model machines); '
             'typed truth table of the emitted MIN / -1 guard (shared with C03-GUARD); or-only proof / set-bit-on-entry evaluation of every store through the overflow pointer (rules/s4C04.py)')
DECIDES = ('(OPS) each of + - * << is built by a NumBinopNode subclass whose overflow_op_names contains it and whose effective '
           'analyse_c_operation reads directives["overflowcheck"]; each of + - * << / // and unary - has code that raises OverflowError reachable '
           'from its generate_evaluation_code; (ENABLE) where overflow_check is switched on the node becomes a temp, gets its helper name from '
           'overflow_check_binop, and no condition besides result-type-is-int / directive / operator-in-table restricts it; operands are '
           'swapped only for commutative operators; (BIT) on every path of generate_evaluation_code that allocates the overflow bit: '
           'int temp, registered as own bit node, zeroed before the operands are evaluated, tested after, the test raises OverflowError and '
           'jumps to the error label, temp released; calculate_result_code returns the checked helper call (operands in order, address of the bit '
           'node\'s bit) whenever a bit node may be set; (FOLD) ConsolidateOverflowCheck never visits children of a non-arithmetic node with a '
           'bit node set, makes a node the bit node only if that node keeps its own check, never leaves its own node behind, and disables a '
           'node\'s own check only after pointing it at a non-None bit node; (PURE) the fold does not pass through node classes that raise '
           'their own non-overflow exception from operand values; (P1) every Overflow.c template reads only keys its load sites pass; '
           '(NAME) for every op in overflow_op_names x const_rhs x type path the name returned by overflow_check_binop, and every __Pyx_ helper the '
           'loaded Binop template calls, is defined under every #if variant by a section loaded on that path; helpers take (a, b, int *overflow); '
           '(DISPATCH) each sizeof(T)==sizeof(X) arm of the Binop template calls the helper of X, unsigned arms unsigned helpers; '
           '(W1) the constant part of the MIN / -1 guard holds for every signed result type (int, long, long long) on the analysis target; '
           '(BARRIER) the ConsolidateOverflowCheck handler that the visitor dispatch selects for every node class built for a trapping C operator (/ // %: DivNode, ModNode and subclasses) '
           'visits the operands only with self.overflow_bit_node cleared on EVERY path, delegations self.visit_X(node) / super().visit_X(node) resolved recursively (rules/sC04.py): '
           'no node flag (zerodivision_check, cdivision) may re-open the fold, because the C division itself traps on a divisor that wrapped to 0; '
           '(ARITH) the helpers __Pyx_{add,sub,mul}[_const]_<T>_checking_overflow (both preprocessor arms, every sizeof arm, every answer of __Pyx_is_constant) and __Pyx_lshift[_const]_<T>_checking_overflow '
           'set the bit for every operand pair of a 4-bit model type whose exact result does not fit, return the exact result otherwise and execute no undefined C operation '
           '(bounded model check by rules/pC03.py; parametricity premise: no literal but 0, 1, 2, 8); (DISPATCH table) every type of at least int rank reaches a checked helper of its width and signedness on ILP32/LP64/LLP64; '
           '(SIGNKEY) LeftShift is instantiated with SIGNED truthy exactly for signed types; (MINGUARD) where the compile-time part of the emitted MIN / -1 guard holds the guard intercepts (MIN, -1), '
           'i.e. the divisor is compared with -1 and the negation test is applied to the dividend; '
           '(STICKY, rules/s4C04.py) no checked helper ever clears an overflow bit that is already set - the bit is shared by all operations of a folded expression - and the Binop dispatcher '
           'hands the caller\'s bit cell to the base helper it selects: stores of the shape `*overflow |= e` (and forwarding to such a callee) are accepted syntactically, every other store shape '
           '(`=`, `^=`, a written-back local, a re-seated pointer) is decided by evaluating the helper for all operand pairs of the model type with the bit set on entry.')
NOT_DECIDED = ('the transfer of ARITH from the 4-bit model width (fractional sizeof) to the production widths, which rests on the syntactic parametricity premise; the unused __Pyx_div_*_checking_overflow helpers '
               '(`div` is not in overflow_op_names); that ConsolidateOverflowCheck *restores* the saved bit node after a '
               'non-arithmetic node (dropping the restore only loses folding, the property still holds, so it is deliberately not demanded: '
               'DESIGN clause V3 is implemented as "cleared", not "restored"); generic G2 for the bit temp is replaced by the path-sensitive BIT rule; '
               '% (not in the property\'s operator list) has no MIN % -1 rule; overflowcheck under cdivision=True.')
ASSUMPTIONS = ['operator list (+ - * << / // unary -) is taken from the property statement',
               'W1 is evaluated for clang\'s default target (LP64 here); commutative operators are + * & | ^']

# property-local exemptions: benign constructs on the clean tree
EXEMPT = {
    ('C04-NAME', 'PyrexTypes.CIntType.overflow_check_binop:__Pyx_{binop}_{name}_no_overflow'):
        'dead path: rank <= 1 (char/short) is never the result type of a NumBinopNode (compute_c_result_type widens to at least int), '
        'so the undefined per-type name __Pyx_<op>_<type>_no_overflow is never emitted',
}

CHECKED_BINOPS = ('+', '-', '*', '<<')
DIV_BINOPS = ('/', '//')
CHECKED_UNOPS = ('-',)
COMMUTATIVE = {'+', '*', '&', '|', '^'}
BITATTR = 'overflow_bit'
NODEATTR = 'overflow_bit_node'
VISIT_CALLS = ('visitchildren', '_visitchildren', 'visitchild', '_visitchild', '_process_children', 'visit', '_visit', 'visit_children')



# =============================================================================================== helpers
def _emits(fn, needle):
    return [n for n, s in P.const_texts(fn) if needle in s]


def _cone(ix, cls, stop_names=('ExprNode', 'Node', 'object')):
    out = []
    for k in ix.mro(cls):
        if k.name in stop_names:
            break
        out.append(k)
    return out


def _overflow_raise_reachable(ix, cls):
    """(owner, method) emitting PyExc_OverflowError that runs on every path of the effective generate_evaluation_code, or None."""
    chain = P.effective_chain(ix, cls, 'generate_evaluation_code')
    for owner, fn in chain:
        if _emits(fn, 'PyExc_OverflowError'):
            return owner, fn
        for k in _cone(ix, cls):
            for mn, f2 in k.methods.items():
                if mn != fn.name and _emits(f2, 'PyExc_OverflowError') and P.calls_self_method(fn, mn):
                    eff = ix.find_method(cls, mn)
                    if eff and eff[1] is f2:
                        return k, f2
    return None


def _reads_directive(fn, name):
    for n in walk_no_nested(fn):
        if isinstance(n, ast.Subscript) and isinstance(n.slice, ast.Constant) and n.slice.value == name and \
                isinstance(n.value, ast.Attribute) and n.value.attr in ('directives', 'current_directives'):
            return True
        if isinstance(n, ast.Call) and isinstance(n.func, ast.Attribute) and n.func.attr == 'get' and n.args and \
                isinstance(n.args[0], ast.Constant) and n.args[0].value == name and isinstance(n.func.value, ast.Attribute) and \
                n.func.value.attr in ('directives', 'current_directives'):
            return True
    return False


# =============================================================================================== OPS
def rule_ops(ctx):
    ix = ctx.index
    r = Rule('C04-OPS', 'every overflow-capable C integer operator (+ - * << / // unary -) is built by a node class with overflow plumbing', floor=7)
    binops = P.table_classes(ix, 'ExprNodes', 'binop_node_classes')
    unops = P.table_classes(ix, 'ExprNodes', 'unop_node_classes')
    numbinop = ix.cls('ExprNodes', 'NumBinopNode')
    todo = [('binop', op, binops) for op in CHECKED_BINOPS + DIV_BINOPS] + [('unop', op, unops) for op in CHECKED_UNOPS]
    for kind, op, table in todo:
        if op not in table:
            raise AnalysisError('operator %r vanished from ExprNodes.%s_node_classes' % (op, kind))
        cls = table[op]
        if cls is None:
            r.inst('%s:%s' % (kind, op))
            r.violate('%s:%s:not-a-node-class' % (kind, op), 'Cython/Compiler/ExprNodes.py', 1,
                      '%s %r is no longer built by a node class named in ExprNodes.%s_node_classes (the entry is an expression): it bypasses NumBinopNode and with it '
                      'the whole overflow_check plumbing' % (kind, op, kind))
            continue
        key = '%s:%s:%s' % (kind, op, cls.name)
        r.inst(key, sample='%s %r -> %s' % (kind, op, cls.qual))
        if kind == 'binop' and op in CHECKED_BINOPS:
            if numbinop not in ix.mro(cls):
                r.violate(key + ':not-numbinop', cls.module.rel, cls.node.lineno,
                          'binary %r is built by %s which is not a NumBinopNode: it has none of the overflow_check plumbing, C integer %r wraps silently under overflowcheck=True' % (op, cls.name, op))
                continue
            names = P.literal_dict_attr(ix, cls, 'overflow_op_names')
            if names is None:
                raise AnalysisError('overflow_op_names of %s is not a literal dict' % cls.name)
            if op not in names[1]:
                r.violate(key + ':not-in-overflow_op_names', names[0].module.rel, names[0].node.lineno,
                          'operator %r is not a key of %s.overflow_op_names (%s): analyse_c_operation never switches overflow_check on for it, '
                          'C integer %r wraps silently under overflowcheck=True' % (op, names[0].name, sorted(names[1]), op))
            chain = P.effective_chain(ix, cls, 'analyse_c_operation')
            if not any(_reads_directive(fn, 'overflowcheck') for _o, fn in chain):
                r.violate(key + ':directive', cls.module.rel, chain[0][1].lineno if chain else cls.node.lineno,
                          'the analyse_c_operation that runs for %s (%s) never reads directives["overflowcheck"]: the directive cannot switch the check on for %r'
                          % (cls.name, ' -> '.join('%s.%s' % (o.name, f.name) for o, f in chain) or 'none', op))
        hit = _overflow_raise_reachable(ix, cls)
        if hit is None:
            what = 'unary' if kind == 'unop' else 'binary'
            r.violate(key + ':no-overflow-raise', cls.module.rel, cls.node.lineno,
                      '%s %r is built by %s, and no code that runs on every path of its generate_evaluation_code raises OverflowError '
                      '(no class between %s and ExprNode emits PyExc_OverflowError): with overflowcheck=True the C result of %s%s wraps '
                      '(e.g. -INT_MIN) instead of raising' % (what, op, cls.name, cls.name, op, 'x' if kind == 'unop' else ''))
    # embedded positive example: unary '+' has no overflow code either (and needs none)
    r.positive_control(_overflow_raise_reachable(ix, unops['+']) is None if unops.get('+') is not None else True, 'a class without OverflowError emission is recognised')
    return r


# =============================================================================================== FOLD
def _fold_analyse(fn, arithmetic):
    """Abstract interpretation of one ConsolidateOverflowCheck handler.  Value of self.overflow_bit_node: 'E' entry value,
    'N' None, 'P' the visited node, '?' unknown.  Returns list of (code, line, text)."""
    if len(fn.args.args) < 2:
        raise AnalysisError('handler %s has no node parameter' % fn.name)
    np_ = fn.args.args[1].arg
    problems = []

    def get(s, tag):
        for f in s:
            if isinstance(f, tuple) and f[0] == tag:
                return f
        return None

    def setcur(s, v):
        s = {f for f in s if not (isinstance(f, tuple) and f[0] == 'cur')}
        s.add(('cur', v))
        return s

    def is_bn(n):
        return is_self_attr(n) and n.attr == NODEATTR

    def value_of(s, v):
        if isinstance(v, ast.Constant) and v.value is None:
            return 'N'
        if isinstance(v, ast.Name) and v.id == np_:
            return 'P'
        if isinstance(v, ast.Name):
            for f in s:
                if isinstance(f, tuple) and f[0] == 'loc' and f[1] == v.id:
                    return f[2]
            return '?'
        if is_bn(v):
            return get(s, 'cur')[1]
        return '?'

    def none_test(t):
        """-> (claims_none: bool) if t tests self.overflow_bit_node against None, else None."""
        if isinstance(t, ast.Compare) and len(t.ops) == 1 and is_bn(t.left) and isinstance(t.comparators[0], ast.Constant) and t.comparators[0].value is None:
            if isinstance(t.ops[0], ast.Is):
                return True
            if isinstance(t.ops[0], ast.IsNot):
                return False
        if is_bn(t):
            return False
        return None

    def assign_one(s, tgt, val, pre):
        if is_bn(tgt):
            return setcur(s, value_of(pre, val))
        if isinstance(tgt, ast.Name):
            s = {f for f in s if not (isinstance(f, tuple) and f[0] in ('loc', 'flag') and f[1] == tgt.id)}
            if is_bn(val) or (isinstance(val, ast.Name) and value_of(pre, val) != '?'):
                s.add(('loc', tgt.id, value_of(pre, val)))
            else:
                nt = none_test(val)
                if nt is not None and get(pre, 'cur')[1] == 'E':
                    s.add(('flag', tgt.id, nt))
            return s
        if isinstance(tgt, ast.Attribute) and isinstance(tgt.value, ast.Name) and tgt.value.id == np_:
            if tgt.attr == NODEATTR:
                s = {f for f in s if not (isinstance(f, tuple) and f[0] == 'nb')}
                s.add(('nb', value_of(pre, val)))
            elif tgt.attr == 'overflow_check':
                if isinstance(val, ast.Constant) and not val.value:
                    s.add(('cleared', getattr(tgt, 'lineno', 0)))
        return s

    def tr(n, state):
        s = set(state)
        pre = set(state)
        if isinstance(n, ast.Assign):
            for t in n.targets:
                if isinstance(t, ast.Tuple) and isinstance(n.value, ast.Tuple) and len(t.elts) == len(n.value.elts):
                    for a, b in zip(t.elts, n.value.elts):
                        s = assign_one(s, a, b, pre)
                else:
                    s = assign_one(s, t, n.value, pre)
        for c in pyflow.calls_in(n):
            f = c.func
            if isinstance(f, ast.Attribute) and f.attr in VISIT_CALLS and isinstance(f.value, ast.Name) and f.value.id == 'self':
                cur = get(s, 'cur')[1]
                ent = get(s, 'ent')
                ent = ent[1] if ent else None
                keeps_check = any(isinstance(q, tuple) and q[0] == '?' and q[1] == '%s.overflow_check' % np_ and q[2] is True for q in s) \
                    and not get(s, 'cleared')
                s.add(('vc', cur, ent, keeps_check, c.lineno))
        return frozenset(s)

    def refine(test, truth, state):
        s = set(state)

        def one(t, tr_):
            nonlocal s
            while isinstance(t, ast.UnaryOp) and isinstance(t.op, ast.Not):
                t, tr_ = t.operand, not tr_
            if isinstance(t, ast.BoolOp):
                if (isinstance(t.op, ast.And) and tr_) or (isinstance(t.op, ast.Or) and not tr_):
                    return all(one(v, tr_) for v in t.values)
                return True
            claim = None
            nt = none_test(t)
            if nt is not None:
                claim = nt if tr_ else not nt       # claim: current value is None
                cur = get(s, 'cur')[1]
                if cur == 'N':
                    return claim
                if cur == 'P':
                    return not claim
                if cur != 'E':
                    return True
            elif isinstance(t, ast.Name):
                fl = next((f for f in s if isinstance(f, tuple) and f[0] == 'flag' and f[1] == t.id), None)
                if fl is None:
                    return True
                claim = fl[2] if tr_ else not fl[2]  # claim: ENTRY value is None
            else:
                return True
            ent = get(s, 'ent')
            want = 'none' if claim else 'some'
            if ent is not None and ent[1] != want:
                return False
            s.add(('ent', want))
            return True
        if not one(test, truth):
            return None
        return frozenset(s)

    try:
        o = pyflow.Flow(tr, refine=refine).run(fn, init=frozenset({('cur', 'E')}))
    except pyflow.TooManyStates:
        raise AnalysisError('too many states in %s' % fn.name)
    seen = set()

    def add(code, line, text):
        if (code, text) not in seen:
            seen.add((code, text))
            problems.append((code, line, text))
    n_vc = 0
    for st in o.normal | o.returns:
        cur = get(st, 'cur')[1]
        ent = get(st, 'ent')
        ent = ent[1] if ent else None
        for f in st:
            if isinstance(f, tuple) and f[0] == 'vc':
                n_vc += 1
                _t, vcur, vent, keeps, line = f
                is_none = vcur == 'N' or (vcur == 'E' and vent == 'none')
                if not arithmetic and not is_none:
                    add('not-cleared', line, 'visits the children of a non-arithmetic node while self.%s may still be set (%s): arithmetic inside a call argument, '
                        'lambda, conditional etc. is folded into the enclosing expression\'s overflow bit, so the wrapped value is used (or the bit of another '
                        'function is referenced) before the check' % (NODEATTR, 'not reset to None' if vcur in ('E', '?') else 'set to the node'))
                if arithmetic and vcur == 'P' and not keeps:
                    add('bitnode-without-check', line, 'makes the node the bit node for its operands although the node does not (provably) keep its own overflow check '
                        '(not under `%s.overflow_check`, or the check was switched off): nobody allocates/tests the bit the operands write to' % np_)
                if arithmetic and vcur == '?':
                    add('unknown-bitnode', line, 'visits operands with self.%s bound to a value the analysis cannot classify' % NODEATTR)
        if cur in ('P', '?'):
            add('leaks-bitnode', fn.lineno, 'returns with self.%s still %s: nodes outside this expression are folded into a bit that has already been tested/released'
                % (NODEATTR, 'bound to the visited node' if cur == 'P' else 'bound to an unclassified value'))
        cl = get(st, 'cleared')
        if cl:
            nb = get(st, 'nb')
            ok = nb is not None and nb[1] == 'E' and ent == 'some'
            if not ok:
                add('cleared-without-bitnode', cl[1], 'switches %s.overflow_check off without (on every such path) pointing %s.%s at a bit node known to be non-None '
                    '(found %s): the node then emits the plain, unchecked C operator or reads a bit that was never allocated'
                    % (np_, np_, NODEATTR, 'no assignment' if nb is None else {'E': 'the current bit node, which may be None', 'N': 'None', 'P': 'the node itself', '?': 'an unclassified value'}[nb[1]]))
    return problems, n_vc


def rule_fold(ctx):
    ix = ctx.index
    r = Rule('C04-FOLD', 'ConsolidateOverflowCheck keeps the shared overflow bit inside one arithmetic expression', floor=2)
    coc = ix.cls('Optimize', 'ConsolidateOverflowCheck')
    numbinop = ix.cls('ExprNodes', 'NumBinopNode')
    generic = ix.find_method(coc, 'visit_Node')
    if generic is None:
        raise AnalysisError('no visit_Node reachable from ConsolidateOverflowCheck')
    handlers = dict((n, (coc, f)) for n, f in coc.methods.items() if n.startswith('visit_'))
    handlers.setdefault('visit_Node', generic)
    arith_seen = False
    for name, (owner, fn) in sorted(handlers.items()):
        cname = name[len('visit_'):]
        cands = [c for c in ix.classes_by_name.get(cname, []) if c.module.short in ('ExprNodes', 'Nodes', 'UtilNodes')]
        arithmetic = any(numbinop in ix.mro(c) for c in cands)
        arith_seen |= arithmetic
        key = '%s.%s' % (owner.qual, name)
        probs, n_vc = _fold_analyse(fn, arithmetic)
        r.inst(key, sample='%s (%s node handler, %d child visit(s))' % (key, 'arithmetic' if arithmetic else 'non-arithmetic', n_vc))
        for code, line, text in probs:
            r.violate('%s:%s' % (key, code), owner.module.rel, line, '%s %s' % (key, text))
    if not arith_seen:
        raise AnalysisError('ConsolidateOverflowCheck has no handler for NumBinopNode any more')
    pc = ast.parse("def visit_Node(self, node):\n    saved = self.overflow_bit_node\n    self.visitchildren(node)\n    self.overflow_bit_node = saved\n    return node\n").body[0]
    pc2 = ast.parse("def visit_NumBinopNode(self, node):\n    if node.overflow_check and node.overflow_fold:\n        top = self.overflow_bit_node is None\n"
                    "        if top:\n            self.overflow_bit_node = node\n        else:\n            node.overflow_check = False\n        self.visitchildren(node)\n"
                    "        if top:\n            self.overflow_bit_node = None\n    else:\n        self.visitchildren(node)\n    return node\n").body[0]
    r.positive_control(any(p[0] == 'not-cleared' for p in _fold_analyse(pc, False)[0]) and
                       any(p[0] == 'cleared-without-bitnode' for p in _fold_analyse(pc2, True)[0]), 'handler that does not clear / clears the check without a bit node')
    return r


def rule_pure(ctx):
    """The fold passes through every NumBinopNode subclass handled by the arithmetic handler.  A class that raises its own
    exception computed from operand values consumes a possibly wrapped operand before the shared bit is tested."""
    ix = ctx.index
    r = Rule('C04-PURE', 'node classes the overflow fold passes through do not raise their own (non-overflow) exception from operand values before the shared bit is tested', floor=7)
    coc = ix.cls('Optimize', 'ConsolidateOverflowCheck')
    numbinop = ix.cls('ExprNodes', 'NumBinopNode')
    binops = P.table_classes(ix, 'ExprNodes', 'binop_node_classes')
    classes = {}
    for op, c in binops.items():
        if c is not None and numbinop in ix.mro(c):
            classes.setdefault(c.name, (c, []))[1].append(op)

    def own_raises(c):
        out = []
        for k in ix.mro(c):
            if k is numbinop:
                break
            for mn, fn in k.methods.items():
                for n, s in P.const_texts(fn):
                    for m in re.finditer(r'PyErr_(?:SetString|Format|SetNone|SetObject)\s*\(\s*PyExc_(\w+)', s):
                        if m.group(1) != 'OverflowError':
                            out.append((k, mn, m.group(1), n.lineno))
        return out
    for cname, (c, ops) in sorted(classes.items()):
        h = ix.visitor_handler(coc, c)
        if h is None:
            raise AnalysisError('no handler for %s in ConsolidateOverflowCheck' % cname)
        hk, howner, hfn = h
        passes = numbinop in ix.mro(hk)
        if passes:
            # does this handler clear the bit node before visiting children on every path?  (then it does not pass through)
            probs, _n = _fold_analyse(hfn, False)
            passes = any(p[0] == 'not-cleared' for p in probs)
        key = 'ExprNodes.%s' % cname
        r.inst(key, sample='%s (%s) handled by %s.%s: fold %s' % (cname, ' '.join(sorted(ops)), howner.name, hfn.name, 'passes through' if passes else 'stops'))
        if not passes:
            continue
        for k, mn, exc, line in own_raises(c)[:1]:
            r.violate(key, k.module.rel, line,
                      '%s (operators %s) is visited by %s.%s without resetting self.%s, so an overflowing operand such as (c * d) is folded into the enclosing '
                      'expression\'s bit, but %s.%s raises %s from the operand values before that bit is tested: `a + b %s (c * d)` with c*d wrapping to 0 '
                      'raises %s instead of OverflowError when overflowcheck.fold is on'
                      % (cname, ' '.join(sorted(ops)), howner.name, hfn.name, NODEATTR, k.name, mn, exc, sorted(ops)[-1], exc))
    return r



# =============================================================================================== ENABLE / SWAP
def _dominating_tests(fn, target):
    """[(test expr, truth)] of the if-statements / conditional expressions enclosing `target` inside fn."""
    parents = {}
    for n in ast.walk(fn):
        for fld, val in ast.iter_fields(n):
            if isinstance(val, list):
                for x in val:
                    if isinstance(x, ast.AST):
                        parents[id(x)] = (n, fld)
            elif isinstance(val, ast.AST):
                parents[id(val)] = (n, fld)
    out = []
    cur = target
    while id(cur) in parents:
        par, fld = parents[id(cur)]
        if isinstance(par, (ast.If, ast.IfExp, ast.While)) and fld in ('body', 'orelse'):
            out.append((par.test, fld == 'body'))
        cur = par
        if cur is fn:
            break
    return out


def _conjuncts(test, truth):
    if truth and isinstance(test, ast.BoolOp) and isinstance(test.op, ast.And):
        for v in test.values:
            yield from _conjuncts(v, True)
    elif not truth and isinstance(test, ast.BoolOp) and isinstance(test.op, ast.Or):
        for v in test.values:
            yield from _conjuncts(v, False)
    elif isinstance(test, ast.UnaryOp) and isinstance(test.op, ast.Not):
        yield from _conjuncts(test.operand, not truth)
    else:
        yield test, truth


def _is_directive_read(n, name):
    return isinstance(n, ast.Subscript) and isinstance(n.slice, ast.Constant) and n.slice.value == name and \
        isinstance(n.value, ast.Attribute) and n.value.attr in ('directives', 'current_directives')


def _operator_set(test):
    """constants a test restricts self.operator to, or None."""
    if isinstance(test, ast.Compare) and len(test.ops) == 1 and is_self_attr(test.left) and test.left.attr == 'operator':
        c = test.comparators[0]
        if isinstance(test.ops[0], ast.In) and isinstance(c, (ast.Tuple, ast.List, ast.Set)) and all(isinstance(e, ast.Constant) for e in c.elts):
            return {e.value for e in c.elts}
        if isinstance(test.ops[0], ast.In) and isinstance(c, ast.Constant) and isinstance(c.value, str):
            return set(c.value)
        if isinstance(test.ops[0], ast.Eq) and isinstance(c, ast.Constant):
            return {c.value}
    return None


def _enable_check(owner, fn):
    """problems for one method that switches self.overflow_check on."""
    probs = []
    sets = [n for n in walk_no_nested(fn) if isinstance(n, ast.Assign) and any(is_self_attr(t) and t.attr == 'overflow_check' for t in n.targets)
            and isinstance(n.value, ast.Constant) and n.value.value]
    for a in sets:
        seen = set()
        for test, truth in _dominating_tests(fn, a):
            for c, tr_ in _conjuncts(test, truth):
                if tr_ and isinstance(c, ast.Attribute) and c.attr == 'is_int' and isinstance(c.value, ast.Attribute) and c.value.attr == 'type':
                    seen.add('int')
                elif tr_ and _is_directive_read(c, 'overflowcheck'):
                    seen.add('directive')
                elif tr_ and isinstance(c, ast.Compare) and len(c.ops) == 1 and isinstance(c.ops[0], ast.In) and is_self_attr(c.left) and c.left.attr == 'operator' \
                        and isinstance(c.comparators[0], ast.Attribute) and c.comparators[0].attr == 'overflow_op_names':
                    seen.add('table')
                else:
                    probs.append(('extra-condition', a.lineno, 'switches overflow_check on only under the additional condition `%s%s`: C integer operations for which it is false '
                                  'stay unchecked although overflowcheck=True' % ('' if tr_ else 'not ', node_src(c, 80))))
        if 'directive' not in seen:
            probs.append(('no-directive', a.lineno, 'switches overflow_check on without testing directives["overflowcheck"]'))

    def tr(n, st):
        s = set(st)
        if isinstance(n, ast.Assign):
            for t in n.targets:
                if is_self_attr(t) and t.attr == 'overflow_check' and isinstance(n.value, ast.Constant) and n.value.value:
                    s.add('OC')
                if is_self_attr(t) and t.attr == 'is_temp' and isinstance(n.value, ast.Constant):
                    (s.add if n.value.value else s.discard)('TEMP')
                if is_self_attr(t) and t.attr == 'func':
                    v = n.value
                    if isinstance(v, ast.Call) and isinstance(v.func, ast.Attribute) and v.func.attr == 'overflow_check_binop':
                        s.add('FUNC')
                        a0 = v.args[0] if v.args else None
                        ok = isinstance(a0, ast.Subscript) and isinstance(a0.value, ast.Attribute) and a0.value.attr == 'overflow_op_names' and \
                            is_self_attr(a0.slice) and a0.slice.attr == 'operator'
                        if not ok:
                            s.add(('BADOP', node_src(a0, 60) if a0 is not None else 'nothing', n.lineno))
                        recv = v.func.value
                        if not (is_self_attr(recv) and recv.attr == 'type'):
                            s.add(('BADTYPE', node_src(recv, 60), n.lineno))
                    else:
                        s.discard('FUNC')
        return frozenset(s)
    o = pyflow.Flow(tr).run(fn)
    for st in o.normal | o.returns:
        if 'OC' in st:
            if 'TEMP' not in st:
                probs.append(('not-temp', fn.lineno, 'switches overflow_check on but on some path leaves is_temp unset: the checked helper call is then inlined into the consumer\'s '
                              'C expression, i.e. evaluated AFTER the overflow bit has been tested'))
            if 'FUNC' not in st:
                probs.append(('no-helper', fn.lineno, 'switches overflow_check on but on some path does not set self.func from type.overflow_check_binop(...): calculate_result_code has no helper to call'))
            for f in st:
                if isinstance(f, tuple) and f[0] == 'BADOP':
                    probs.append(('helper-op', f[2], 'asks overflow_check_binop for %s instead of overflow_op_names[self.operator]: the helper of another operation (or a non-existent one) is emitted' % f[1]))
                if isinstance(f, tuple) and f[0] == 'BADTYPE':
                    probs.append(('helper-type', f[2], 'takes the checked helper from %s instead of the result type self.type: the helper computes in another C type' % f[1]))
    out, seen = [], set()
    for p in probs:
        if (p[0], p[2]) not in seen:
            seen.add((p[0], p[2]))
            out.append(p)
    return out, len(sets)


def _swap_check(fn):
    probs, n = [], 0
    for a in walk_no_nested(fn):
        if not (isinstance(a, ast.Assign) and len(a.targets) == 1 and isinstance(a.targets[0], ast.Tuple) and isinstance(a.value, ast.Tuple)):
            continue
        tg = [t.attr for t in a.targets[0].elts if is_self_attr(t)]
        vl = [t.attr for t in a.value.elts if is_self_attr(t)]
        if sorted(tg) == ['operand1', 'operand2'] and vl == tg[::-1]:
            n += 1
            allowed = None
            for test, truth in _dominating_tests(fn, a):
                for c, tr_ in _conjuncts(test, truth):
                    ops = _operator_set(c) if tr_ else None
                    if ops is not None:
                        allowed = ops if allowed is None else allowed & ops
            if allowed is None:
                probs.append(('swap-unrestricted', a.lineno, 'swaps operand1/operand2 without restricting self.operator: a - b becomes b - a, a << b becomes b << a'))
            elif allowed - COMMUTATIVE:
                probs.append(('swap-noncommutative', a.lineno, 'swaps operand1/operand2 for operator(s) %s which are not commutative: the checked helper computes b %s a'
                              % (sorted(allowed - COMMUTATIVE), sorted(allowed - COMMUTATIVE)[0])))
    return probs, n


def rule_enable(ctx):
    ix = ctx.index
    r = Rule('C04-ENABLE', 'where overflow_check is switched on the node is a temp with the helper of its own operator and type, under no extra condition; operands are swapped only for commutative operators', floor=2)
    binops = P.table_classes(ix, 'ExprNodes', 'binop_node_classes')
    done = set()
    found = swaps = 0
    for op in CHECKED_BINOPS:
        if binops.get(op) is None:
            continue    # reported by C04-OPS
        for owner, fn in P.effective_chain(ix, binops[op], 'analyse_c_operation'):
            if id(fn) in done:
                continue
            done.add(id(fn))
            key = '%s.%s' % (owner.qual, fn.name)
            probs, n = _enable_check(owner, fn)
            sp, ns = _swap_check(fn)
            if n:
                found += 1
                r.inst(key + ':enable', sample='%s switches overflow_check on (%d site(s))' % (key, n))
            if ns:
                swaps += ns
                r.inst(key + ':swap', sample='%s swaps the operands (%d site(s))' % (key, ns))
            for code, line, text in probs + sp:
                r.violate('%s:%s' % (key, code), owner.module.rel, line, '%s %s' % (key, text))
    if not found:
        raise AnalysisError('no analyse_c_operation switches self.overflow_check on any more')
    pc = ast.parse("def analyse_c_operation(self, env):\n    if self.type.is_int and env.directives['overflowcheck'] and self.operator in self.overflow_op_names and not self.inplace:\n"
                   "        if self.operator in ('+', '-'):\n            self.operand1, self.operand2 = self.operand2, self.operand1\n"
                   "        self.overflow_check = True\n        self.func = self.type.overflow_check_binop(self.operator, env)\n").body[0]
    got = {p[0] for p in _enable_check(None, pc)[0]} | {p[0] for p in _swap_check(pc)[0]}
    r.positive_control({'extra-condition', 'not-temp', 'helper-op', 'swap-noncommutative'} <= got, 'extra condition / no temp / wrong helper op / swap for "-"')
    return r



# =============================================================================================== BIT protocol
def _mentions_bit(node):
    return any(isinstance(x, ast.Attribute) and x.attr == BITATTR for x in ast.walk(node))


def _classify_bit_emission(arg):
    """'Z' zero-initialisation, 'T' truth test of the bit, or raise AnalysisError for an emission that is not understood."""
    t = str_template(arg)
    if t is None:
        raise AnalysisError('emission involving the overflow bit is not a string template: %s' % node_src(arg, 80))
    text = re.sub(r'\s+', '', t[0])
    if re.fullmatch(PLACEHOLDER + r'=0;', text):
        return 'Z'
    m = re.fullmatch(r'if\((.*)\)\{?', text)
    if m:
        inner = m.group(1)
        for _ in range(4):
            inner = re.sub(r'^(?:unlikely|likely)\((.*)\)$', r'\1', inner)
            if inner.startswith('(') and match_paren(inner, 0) == len(inner) - 1:
                inner = inner[1:-1]
        if inner in (PLACEHOLDER, PLACEHOLDER + '!=0'):
            return 'T'
        if inner in ('!' + PLACEHOLDER, PLACEHOLDER + '==0'):
            return 'NT'
    raise AnalysisError('emission involving the overflow bit is neither `bit = 0;` nor `if (bit)`: %r' % t[0])


def _bit_protocol(fn):
    def is_code_call(c, names):
        return isinstance(c.func, ast.Attribute) and c.func.attr in names

    def tr(n, st):
        s = set(st)

        def bad(msg, line, code):
            s.add(('BAD', msg, line, code))
        if isinstance(n, ast.Assign):
            for t in n.targets:
                if is_self_attr(t) and t.attr == BITATTR:
                    v = n.value
                    if isinstance(v, ast.Call) and isinstance(v.func, ast.Attribute) and v.func.attr == 'allocate_temp':
                        s.add('A')
                        a0 = v.args[0] if v.args else None
                        tn = a0.attr if isinstance(a0, ast.Attribute) else (a0.id if isinstance(a0, ast.Name) else None)
                        if tn != 'c_int_type':
                            bad('allocates the overflow bit as %s, but every helper takes `int *overflow`' % (node_src(a0, 40) if a0 is not None else '?'), n.lineno, 'bit-type')
                if is_self_attr(t) and t.attr == NODEATTR:
                    if isinstance(n.value, ast.Name) and n.value.id == 'self':
                        s.add('SELF')
                    else:
                        s.discard('SELF')
        for c in pyflow.calls_in(n):
            if is_code_call(c, ('putln', 'put')) and c.args:
                a = c.args[0]
                if _mentions_bit(a):
                    k = _classify_bit_emission(a)
                    if k == 'Z':
                        s.add('Z')
                    elif k == 'NT':
                        bad('tests the overflow bit with inverted sense (raises when NO overflow happened)', c.lineno, 'inverted-test')
                        s.add('T')
                    else:
                        if 'E' not in s:
                            bad('emits the test of the overflow bit before the operands/operation are evaluated', c.lineno, 'test-before-eval')
                        s.add('T')
                elif any('PyExc_OverflowError' in x for _n, x in P.const_texts(ast.Module(body=[ast.Expr(a)], type_ignores=[]))):
                    if 'T' in s:
                        s.add('S')
                elif isinstance(a, ast.Call) and isinstance(a.func, ast.Attribute) and a.func.attr in ('error_goto',):
                    if 'S' in s:
                        s.add('G')
            if is_code_call(c, ('put_goto',)) and 'S' in s:
                s.add('G')
            if P._is_super_call(c, 'generate_evaluation_code'):
                if 'A' in s and 'Z' not in s:
                    bad('evaluates the operation before the overflow bit is set to 0 (the temp holds garbage)', c.lineno, 'not-zeroed')
                if 'A' in s and 'SELF' not in s:
                    bad('evaluates the operation before registering itself as overflow_bit_node: calculate_result_code emits the plain operator', c.lineno, 'not-registered')
                if 'T' in s:
                    bad('evaluates the operation after the overflow bit was tested', c.lineno, 'eval-after-test')
                s.add('E')
            if is_code_call(c, ('release_temp',)) and c.args and _mentions_bit(c.args[0]):
                if 'T' not in s:
                    bad('releases the overflow bit temp before it is tested', c.lineno, 'release-before-test')
                s.add('R')
        return frozenset(s)
    o = pyflow.Flow(tr).run(fn)
    probs = []
    allocs = False
    for st in o.normal | o.returns:
        for f in st:
            if isinstance(f, tuple) and f[0] == 'BAD':
                probs.append((f[3], f[2], f[1]))
        if 'A' in st:
            allocs = True
            miss = [(k, w) for k, w in (('E', 'evaluating the operation'), ('T', 'emitting a test of the overflow bit'), ('S', 'raising OverflowError inside that test'),
                                        ('G', 'jumping to the error label after raising'), ('R', 'releasing the bit temp')) if k not in st]
            for k, w in miss:
                probs.append(('missing-' + k, fn.lineno, 'has a path that allocates the overflow bit and returns without ' + w))
        elif 'E' not in st:
            probs.append(('no-eval', fn.lineno, 'has a path that does not evaluate the operation at all'))
    out, seen = [], set()
    for p in probs:
        if p[2] not in seen:
            seen.add(p[2])
            out.append(p)
    return out, allocs


def _local_defs(fn):
    """name -> the single expression assigned to it in fn (plain and pairwise tuple assignments); names assigned more than once are dropped"""
    env, multi = {}, set()
    for n in walk_no_nested(fn):
        if not isinstance(n, ast.Assign):
            continue
        for t in n.targets:
            pairs = []
            if isinstance(t, ast.Name):
                pairs = [(t.id, n.value)]
            elif isinstance(t, (ast.Tuple, ast.List)) and isinstance(n.value, (ast.Tuple, ast.List)) and len(t.elts) == len(n.value.elts):
                pairs = [(x.id, v) for x, v in zip(t.elts, n.value.elts) if isinstance(x, ast.Name)]
            for k, v in pairs:
                if k in env:
                    multi.add(k)
                env[k] = v
    return {k: v for k, v in env.items() if k not in multi}


def _resolved_src(fn, node, depth=0):
    """source text of node with single-assignment locals replaced by their definitions"""
    if node is None:
        return ''
    env = _local_defs(fn)
    import copy

    class R(ast.NodeTransformer):
        def visit_Name(self, n):
            if isinstance(n.ctx, ast.Load) and n.id in env and depth < 3:
                return ast.parse(_resolved_src(fn, env[n.id], depth + 1), mode='eval').body
            return n
    return node_src(R().visit(copy.deepcopy(node)), 120)


def _result_code_check(fn):
    """Every return of calculate_result_code is the checked helper call unless overflow_bit_node is known to be None."""
    def bn(t):
        return is_self_attr(t) and t.attr == NODEATTR

    def refine(test, truth, state):
        s = set(state)

        def one(t, tr_):
            while isinstance(t, ast.UnaryOp) and isinstance(t.op, ast.Not):
                t, tr_ = t.operand, not tr_
            if isinstance(t, ast.BoolOp):
                if (isinstance(t.op, ast.And) and tr_) or (isinstance(t.op, ast.Or) and not tr_):
                    return all(one(v, tr_) for v in t.values)
                return True
            isset = None
            if bn(t):
                isset = tr_
            elif isinstance(t, ast.Compare) and len(t.ops) == 1 and bn(t.left) and isinstance(t.comparators[0], ast.Constant) and t.comparators[0].value is None:
                if isinstance(t.ops[0], ast.IsNot):
                    isset = tr_
                elif isinstance(t.ops[0], ast.Is):
                    isset = not tr_
            if isset is None:
                return True
            if ('BN', not isset) in s:
                return False
            s.add(('BN', isset))
            return True
        return frozenset(s) if one(test, truth) else None

    def tr(n, st):
        if isinstance(n, ast.Return):
            know = next((f[1] for f in st if isinstance(f, tuple) and f[0] == 'BN'), None)
            if know is False:
                return st
            v = n.value
            t = str_template(v) if v is not None else None
            good = False
            why = 'returns %s' % (node_src(v, 70) if v is not None else 'None')
            if t is not None:
                text = re.sub(r'\s+', '', t[0])
                ph = t[1]
                if re.fullmatch('%s\\(%s,%s,&%s\\)' % ((PLACEHOLDER,) * 4), text) and len(ph) == 4:
                    srcs = [_resolved_src(fn, p) for p in ph]
                    if 'func' not in srcs[0]:
                        why = 'calls %s instead of the helper stored in self.func' % srcs[0]
                    elif not ('operand1' in srcs[1] and 'operand2' in srcs[2]):
                        why = 'passes (%s, %s): the operands are not in source order, a - b / a << b compute with swapped arguments' % (srcs[1], srcs[2])
                    elif not (NODEATTR in srcs[3] and srcs[3].endswith('.' + BITATTR)):
                        why = 'passes &%s instead of the shared bit self.%s.%s: a folded node reports its overflow into a bit nobody tests' % (srcs[3], NODEATTR, BITATTR)
                    else:
                        good = True
            if not good:
                return st | {('BADRET', know, why, n.lineno)}
        return st
    o = pyflow.Flow(tr, refine=refine).run(fn)
    probs = []
    for st in o.returns | o.normal:
        for f in st:
            if isinstance(f, tuple) and f[0] == 'BADRET':
                probs.append(('unchecked-return', f[3], ('when an overflow bit node is set it ' if f[1] else 'on a path where self.%s may be set it ' % NODEATTR) + f[2] +
                              ' (expected the checked call func(operand1, operand2, &bit_node.%s)): the operation is emitted without overflow detection' % BITATTR))
    out, seen = [], set()
    for p in probs:
        if (p[1], p[2]) not in seen:
            seen.add((p[1], p[2]))
            out.append(p)
    return out


def rule_bit(ctx):
    ix = ctx.index
    r = Rule('C04-BIT', 'overflow bit protocol: int temp, registered, zeroed before / tested after the evaluation, raise + error jump, released; calculate_result_code emits the checked call whenever a bit node may be set', floor=2)
    binops = P.table_classes(ix, 'ExprNodes', 'binop_node_classes')
    done = set()
    for op in CHECKED_BINOPS:
        cls = binops.get(op)
        if cls is None:
            continue    # reported by C04-OPS
        chain = P.effective_chain(ix, cls, 'generate_evaluation_code')
        proto = None
        for owner, fn in chain:
            if any(isinstance(n, ast.Assign) and any(is_self_attr(t) and t.attr == BITATTR for t in n.targets) for n in walk_no_nested(fn)):
                proto = (owner, fn)
                break
        key0 = 'binop:%s:%s' % (op, cls.name)
        if proto is None:
            r.inst(key0 + ':gen')
            r.violate(key0 + ':no-bit-protocol', cls.module.rel, (chain[0][1].lineno if chain else cls.node.lineno),
                      'the generate_evaluation_code that runs for %s (%s) never allocates self.%s: operator %r is evaluated without an overflow bit although analyse_c_operation enabled the check'
                      % (cls.name, ' -> '.join('%s.%s' % (o.name, f.name) for o, f in chain), BITATTR, op))
        elif id(proto[1]) not in done:
            done.add(id(proto[1]))
            owner, fn = proto
            key = '%s.%s' % (owner.qual, fn.name)
            probs, allocs = _bit_protocol(fn)
            r.inst(key, sample='%s implements the bit protocol for %s' % (key, cls.name))
            for code, line, text in probs:
                r.violate('%s:%s' % (key, code), owner.module.rel, line, '%s %s' % (key, text))
        eff = ix.find_method(cls, 'calculate_result_code')
        if eff is None:
            raise AnalysisError('%s has no calculate_result_code' % cls.name)
        if id(eff[1]) not in done:
            done.add(id(eff[1]))
            owner, fn = eff
            key = '%s.%s' % (owner.qual, fn.name)
            r.inst(key, sample='%s is the result code of %s' % (key, cls.name))
            for code, line, text in _result_code_check(fn):
                r.violate('%s:%s' % (key, code), owner.module.rel, line, '%s %s' % (key, text))
    pc = ast.parse("def generate_evaluation_code(self, code):\n    if self.overflow_check:\n        self.overflow_bit_node = self\n"
                   "        self.overflow_bit = code.funcstate.allocate_temp(PyrexTypes.c_int_type, manage_ref=False)\n"
                   "        code.putln('if (unlikely(%s)) {' % self.overflow_bit)\n        code.putln('PyErr_SetString(PyExc_OverflowError, \"value too large\");')\n"
                   "        code.putln(code.error_goto(self.pos))\n        code.putln('}')\n"
                   "    super().generate_evaluation_code(code)\n").body[0]
    pc2 = ast.parse("def calculate_result_code(self):\n    if self.infix:\n        return '(%s %s %s)' % (self.operand1.result(), self.operator, self.operand2.result())\n"
                    "    return '%s(%s, %s, &%s)' % (self.func, self.operand1.result(), self.operand2.result(), self.overflow_bit_node.overflow_bit)\n").body[0]
    got = {p[0] for p in _bit_protocol(pc)[0]}
    r.positive_control({'missing-R', 'test-before-eval', 'not-zeroed'} <= got and bool(_result_code_check(pc2)),
                       'test before evaluation, temp not released, infix return with a bit node set')
    return r



# =============================================================================================== templates: P1 / NAME
OVF = 'Overflow.c'


def rule_p1(ctx):
    cat = ctx.cat
    r = Rule('C04-P1', 'every Overflow.c section is loaded with a context that binds all variables the template reads', floor=12)
    sites = P.load_sites(ctx, OVF)
    if not sites:
        raise AnalysisError('no load site of Overflow.c found')
    for s in sites:
        if s.sections is None:
            continue
        for sec in sorted(s.sections):
            key = '%s.%s:%s' % (s.module.short, s.qual, sec)
            if not cat.has_section(OVF, sec):
                r.inst(key)
                r.violate(key + ':missing', s.module.rel, s.call.lineno, '%s loads section %r which does not exist in Overflow.c' % (s.qual, sec))
                continue
            reads = P.tempita_reads(P.section_all_text(cat, OVF, sec))
            items = P.context_items(s) if s.context is not None else {}
            tempita = 'Tempita' in node_src(s.call.func.value)
            r.inst(key, sample='%s loads %s with keys %s; template reads %s' % (s.qual, sec, sorted(items) if items is not None else '?', sorted(reads)))
            if items is None:
                raise AnalysisError('context of %s at %s is not a literal dict' % (sec, key))
            if reads and not tempita:
                r.violate(key + ':not-tempita', s.module.rel, s.call.lineno, '%s loads the template section %s through a non-Tempita loader: {{%s}} stays in the C file'
                          % (s.qual, sec, sorted(reads)[0]))
                continue
            for v in sorted(reads - set(items)):
                r.violate('%s:%s' % (key, v), s.module.rel, s.call.lineno,
                          '%s loads Overflow.c::%s with context keys %s but the template reads {{%s}}: Tempita raises NameError, the compiler crashes as soon as an '
                          'overflow-checked operation of this type is compiled' % (s.qual, sec, sorted(items), v))
    pc_reads = P.tempita_reads('static {{TYPE}} f_{{NAME}}(void) { {{for i in (1, 2)}} x{{i}} = {{max(1, len(OTHER))}}; {{endfor}} }')
    r.positive_control(pc_reads == {'TYPE', 'NAME', 'OTHER'}, 'read set of a small template')
    return r


def _marker(src):
    return '«%s»' % re.sub(r'\W+', '_', src).strip('_')


def _inline_loads(ctx, m, fname):
    """Loads of Overflow.c sections performed by module-level helper `fname` (loops over literal tuples expanded)."""
    fn = m.functions.get(fname)
    if fn is None:
        return None
    out = []

    def value(v, env):
        if isinstance(v, ast.Constant) and isinstance(v.value, str):
            return v.value
        if isinstance(v, ast.Name) and v.id in env:
            return env[v.id]
        if isinstance(v, ast.Call) and isinstance(v.func, ast.Attribute) and v.func.attr == 'replace' and len(v.args) == 2 and \
                all(isinstance(a, ast.Constant) and isinstance(a.value, str) for a in v.args):
            base = value(v.func.value, env)
            if base is not None and not base.startswith('«'):
                return base.replace(v.args[0].value, v.args[1].value)
        return _marker(node_src(v, 60))

    def stmts(body, env):
        for s in body:
            if isinstance(s, ast.For) and isinstance(s.target, ast.Name) and isinstance(s.iter, (ast.Tuple, ast.List)) and \
                    all(isinstance(e, ast.Constant) for e in s.iter.elts):
                for e in s.iter.elts:
                    stmts(s.body, dict(env, **{s.target.id: e.value}))
                continue
            if isinstance(s, (ast.If, ast.While, ast.Try, ast.With, ast.For)):
                if any(isinstance(c, ast.Call) and isinstance(c.func, ast.Attribute) and c.func.attr in P.LOADERS for c in ast.walk(s)):
                    raise AnalysisError('%s loads utility code under control flow that is not modelled' % fname)
                continue
            for c in pyflow.calls_in(s):
                if isinstance(c.func, ast.Attribute) and c.func.attr in P.LOADERS and len(c.args) >= 2 and const_strs(c.args[1]) == {OVF}:
                    sec = const_strs(c.args[0])
                    cx = next((k.value for k in c.keywords if k.arg == 'context'), None)
                    items = ()
                    if isinstance(cx, ast.Dict):
                        items = tuple(sorted((k.value, value(v, env)) for k, v in zip(cx.keys, cx.values)))
                    for sname in sorted(sec or ()):
                        out.append((sname, items))
    stmts(fn.body, {})
    return out


def _binop_paths(ctx, m, owner, fn, v0):
    """Outcomes of overflow_check_binop for binop == v0: [(returned name, ret shape, loads, line)]."""
    bp = fn.args.args[1].arg

    def cur(s):
        return next(f[1] for f in s if isinstance(f, tuple) and f[0] == 'binop')

    def val(v, s):
        if isinstance(v, ast.Name) and v.id == bp:
            return cur(s)
        if isinstance(v, ast.Constant) and isinstance(v.value, str):
            return v.value
        return _marker(P.resolve_local(fn, v))

    def tr(n, st):
        s = set(st)
        if isinstance(n, ast.AugAssign) and isinstance(n.target, ast.Name) and n.target.id == bp:
            if not (isinstance(n.op, ast.Add) and isinstance(n.value, ast.Constant) and isinstance(n.value.value, str)):
                raise AnalysisError('%s modifies %s in a way that is not modelled' % (fn.name, bp))
            b = cur(s)
            s.discard(('binop', b))
            s.add(('binop', b + n.value.value))
        elif isinstance(n, ast.Assign) and any(isinstance(t, ast.Name) and t.id == bp for t in n.targets):
            raise AnalysisError('%s rebinds %s' % (fn.name, bp))
        for c in pyflow.calls_in(n):
            if isinstance(c.func, ast.Attribute) and c.func.attr in P.LOADERS and len(c.args) >= 2 and const_strs(c.args[1], P.cached_env(fn)) == {OVF}:
                secs = const_strs(c.args[0], P.cached_env(fn))
                if secs is None:
                    raise AnalysisError('dynamic section name in %s' % fn.name)
                cx = next((k.value for k in c.keywords if k.arg == 'context'), None)
                items = ()
                if isinstance(cx, ast.Dict):
                    items = tuple(sorted((k.value, val(v, s)) for k, v in zip(cx.keys, cx.values)))
                for sec in secs:
                    s.add(('load', sec, items))
            elif isinstance(c.func, ast.Name) and c.func.id in m.functions:
                inl = _inline_loads(ctx, m, c.func.id)
                for sec, items in inl or ():
                    s.add(('load', sec, items))
        if isinstance(n, ast.Return) and n.value is not None:
            t = str_template(n.value)
            if t is None:
                raise AnalysisError('%s returns a helper name that is not a string template: %s' % (fn.name, node_src(n.value, 60)))
            text, ph = t
            name = shape = ''
            parts = text.split(PLACEHOLDER)
            for i, part in enumerate(parts):
                name += part
                shape += part
                if i < len(ph):
                    name += val(ph[i], s)
                    shape += '{%s}' % node_src(ph[i], 30)
            s.add(('ret', name, shape, n.lineno))
        return frozenset(s)

    def refine(test, truth, st):
        if isinstance(test, ast.Compare) and len(test.ops) == 1 and isinstance(test.left, ast.Name) and test.left.id == bp and \
                isinstance(test.comparators[0], ast.Constant) and isinstance(test.ops[0], (ast.Eq, ast.NotEq)):
            eq = cur(st) == test.comparators[0].value
            if isinstance(test.ops[0], ast.NotEq):
                eq = not eq
            return st if eq == truth else None
        return st
    o = pyflow.Flow(tr, refine=refine).run(fn, init=frozenset({('binop', v0)}))
    res = []
    for st in o.returns:
        ret = next((f for f in st if isinstance(f, tuple) and f[0] == 'ret'), None)
        if ret is None:
            continue
        loads = sorted({(f[1], f[2]) for f in st if isinstance(f, tuple) and f[0] == 'load'})
        res.append((ret[1], ret[2], loads, ret[3], cur(st)))
    if o.normal:
        res.append((None, None, [], fn.lineno, v0))
    return res


CALLEE = re.compile(r'\b(__Pyx_[\w«»]*overflow[\w«»]*)\s*\(')


def rule_name(ctx):
    ix, cat = ctx.index, ctx.cat
    r = Rule('C04-NAME', 'the helper name overflow_check_binop returns, and every overflow helper the loaded templates call, is defined under every #if variant by a section loaded on the same path; helpers take (a, b, int *overflow)', floor=50)
    m = ix.mod('PyrexTypes')
    numbinop = ix.cls('ExprNodes', 'NumBinopNode')
    names = P.literal_dict_attr(ix, numbinop, 'overflow_op_names')
    if names is None:
        raise AnalysisError('NumBinopNode.overflow_op_names is not a literal dict')
    methods = [(c, c.methods['overflow_check_binop']) for c in ix.all_classes() if c.module is m and 'overflow_check_binop' in c.methods]
    if len(methods) < 2:
        raise AnalysisError('expected overflow_check_binop on the C integer and typedef types, found %d' % len(methods))
    rendered = {}

    def defs_of(sec, items):
        k = (sec, items)
        if k not in rendered:
            env = dict(items)
            res = []
            for typ, s in P.section_texts(cat, OVF, sec).items():
                txt = P.tempita_subst(s.raw, env)
                d, g = P.c_definitions(txt)
                res.append((typ, txt, d, g))
            rendered[k] = res
        return rendered[k]
    reported = set()

    def viol(key, rel, line, msg):
        if key not in reported:
            reported.add(key)
            r.violate(key, rel, line, msg)
    for owner, fn in methods:
        qual = '%s.%s.%s' % (m.short, owner.name, fn.name)
        for op, v0 in sorted(names[1].items()):
            for name, shape, loads, line, bval in _binop_paths(ctx, m, owner, fn, v0):
                if name is None:
                    r.inst(qual + ':noreturn')
                    viol(qual + ':no-return', m.rel, line, '%s can fall off its end for %r: self.func becomes None' % (qual, v0))
                    continue
                r.inst('%s:%s:%s' % (qual, v0, name), sample='%s(%r) -> %s after loading %s' % (qual, v0, name, [l[0] for l in loads]))
                alldefs = [(sec, typ, txt, d, g) for sec, items in loads if cat.has_section(OVF, sec) for typ, txt, d, g in defs_of(sec, items)]
                if not any(P.always_defined(name, d, g) for _s, _t, _x, d, g in alldefs):
                    some = any(n == name for _s, _t, _x, d, g in alldefs for n, _k, _p, _c in d)
                    viol('%s:%s' % (qual, shape), m.rel, line,
                         '%s returns the helper name %s for operation %r (operator %r), but %s: the generated C calls an undeclared function'
                         % (qual, name, bval, op, ('the sections loaded on that path (%s) define it only under some #if branches' % ', '.join(sorted({l[0] for l in loads}))) if some else
                            ('no section loaded on that path (%s) defines it' % (', '.join(sorted({l[0] for l in loads})) or 'none'))))
                # callees of the loaded templates
                for sec, typ, txt, d, g in alldefs:
                    own = {n for n, _k, _p, _c in d}
                    body = strip_c_comments(txt)
                    for mm in CALLEE.finditer(body):
                        callee = mm.group(1)
                        pre = body[:mm.start()].rstrip()
                        if callee in own and (pre.endswith('define') or re.search(r'static[^;{}()]*$', body[max(0, mm.start() - 200):mm.start()])):
                            continue
                        if any(P.always_defined(callee, d2, g2) for _s, _t, _x, d2, g2 in alldefs):
                            continue
                        if any(dd.file != OVF for dd in cat.decls.get(callee, ())):
                            continue
                        gen = callee.replace(bval, '{op}') if bval else callee
                        viol('%s:%s->%s' % (qual, sec, gen), 'Cython/Utility/' + OVF, cat.section(OVF, sec, typ).line,
                             'Overflow.c::%s, loaded by %s for operation %r, calls %s, which no section loaded on that path defines under every #if variant '
                             '(loaded: %s): the generated C does not compile for types that take this branch'
                             % (sec, qual, bval, callee, ', '.join('%s%s' % (l[0], dict(l[1]).get('NAME', '') and '[%s]' % dict(l[1]).get('NAME')) for l in loads)))
    # helper signatures
    for sec in cat.files.get(OVF, {}):
        for typ, s in P.section_texts(cat, OVF, sec).items():
            d, g = P.c_definitions(P.tempita_subst(s.raw, {v: v for v in P.tempita_reads(s.raw)}))
            for n, k, prm, _c in d:
                if k in ('func', 'proto') and n.endswith('_checking_overflow'):
                    key = 'Overflow.c::%s.%s:%s' % (sec, typ, n)
                    r.inst(key)
                    pl = [' '.join(x.replace('*', ' * ').split()) for x in split_args(prm or '')]
                    if len(pl) != 3 or not re.fullmatch(r'int \* \w+', pl[2]):
                        viol(key + ':signature', 'Cython/Utility/' + OVF, s.line,
                             '%s takes (%s) but NumBinopNode.calculate_result_code emits helper(a, b, &bit) with an int temp: third parameter must be `int *overflow`' % (n, prm))
    # embedded control: a name defined only in the #if branch is not "always defined"
    d, g = P.c_definitions('#if X\n#define __Pyx_a_checking_overflow b\n#endif\n#if Y\n#define __Pyx_c 1\n#else\nstatic int __Pyx_c(int a);\n#endif\n')
    r.positive_control(not P.always_defined('__Pyx_a_checking_overflow', d, g) and P.always_defined('__Pyx_c', d, g), '#if coverage of definitions')
    return r



# =============================================================================================== DISPATCH (clang as parser)
def _dispatch_arms(text, fname, tname='__pyx_T', op='add'):
    """[(sign context, X of sizeof(T)==sizeof(X), [callees returned in that arm])] from clang's AST of the rendered Binop template."""
    callees = sorted(set(re.findall(r'\b(__Pyx_\w+)\s*\(', text)) - {fname})
    prelude = ('typedef long %s;\n#define CYTHON_INLINE inline\n#define PY_LONG_LONG long long\n'
               'int __pyx_is_unsigned_marker(unsigned long);\n#define __PYX_IS_UNSIGNED(t) __pyx_is_unsigned_marker(sizeof(t))\n'
               'void Py_FatalError(const char*);\n' % tname) + ''.join('long long %s();\n' % c for c in callees)
    fd = absint.clang_function_ast(text, fname, prelude=prelude)
    arms = []

    def has_marker(n):
        return any(absint.c_name(x) == '__pyx_is_unsigned_marker' for x in absint.c_walk(n))

    def sizeof_type(n):
        n = absint.c_strip(n)
        if n.get('kind') == 'UnaryExprOrTypeTraitExpr' and n.get('name') == 'sizeof':
            return (n.get('argType') or {}).get('qualType')
        return None

    def returned_callees(n):
        # the checked helpers the arm calls - in the return statement or through a local that is returned (the value flow is decided by the
        # decision table of rules/sC04.dispatch_table; here only WHICH helper an arm names matters)
        out = []
        for y in absint.c_walk(n):
            if y.get('kind') == 'CallExpr' and y.get('inner'):
                nm = absint.c_name(y['inner'][0])
                if nm and nm in callees and nm not in out:
                    out.append(nm)
        return out

    def proc(n, sign):
        k = n.get('kind')
        inner = [c for c in n.get('inner', []) or [] if isinstance(c, dict)]
        if k == 'IfStmt' and inner:
            cond, then = inner[0], inner[1] if len(inner) > 1 else None
            els = inner[2] if len(inner) > 2 else None
            c = absint.c_strip(cond)
            if has_marker(cond):
                if then is not None:
                    proc(then, 'unsigned')
                if els is not None:
                    proc(els, 'signed')
                return
            if c.get('kind') == 'BinaryOperator' and c.get('opcode') == '==' and len(c.get('inner', [])) == 2:
                a, b = sizeof_type(c['inner'][0]), sizeof_type(c['inner'][1])
                if a and b and tname in (a, b) and then is not None:
                    x = b if a == tname else a
                    direct = [s2 for s2 in [c2 for c2 in then.get('inner', []) or [] if isinstance(c2, dict)]] if then.get('kind') == 'CompoundStmt' else [then]
                    arms.append((sign, x, returned_callees({'kind': 'X', 'inner': [d for d in direct if d.get('kind') != 'IfStmt']})))
                    for d in direct:
                        if d.get('kind') == 'IfStmt':
                            proc(d, sign)
                    if els is not None:
                        proc(els, sign)
                    return
            if then is not None:
                proc(then, sign)
            if els is not None:
                proc(els, sign)
            return
        for ch in inner:
            proc(ch, sign)
    body = next((c for c in fd.get('inner', []) if c.get('kind') == 'CompoundStmt'), None)
    if body is None:
        raise AnalysisError('clang AST of %s has no body' % fname)
    proc(body, None)
    return arms


def _check_arms(arms, op='add'):
    probs = []
    for sign, x, cal in arms:
        want = '__Pyx_%s_%s_checking_overflow' % (op, x.replace(' ', '_'))
        if sign is not None and (x.startswith('unsigned') != (sign == 'unsigned')):
            probs.append((x, 'the %s branch compares sizeof(T) with sizeof(%s): a %s T of that size is computed with the helper of the other signedness' % (sign, x, sign)))
        if not cal:
            probs.append((x, 'the arm sizeof(T) == sizeof(%s) calls no checked helper' % x))
        for c in cal:
            if c != want:
                probs.append((x, 'the arm sizeof(T) == sizeof(%s)%s returns %s(...) instead of %s(...): operands are truncated / the overflow bound of another width is applied'
                              % (x, ' of the %s branch' % sign if sign else '', c, want)))
    return probs


def rule_dispatch(ctx):
    cat = ctx.cat
    r = Rule('C04-DISPATCH', 'each sizeof(T) == sizeof(X) arm of Overflow.c::Binop calls the checked helper of X, unsigned arms under __PYX_IS_UNSIGNED; decision table: every type of at least int rank reaches a checked helper of its own width and signedness (ILP32, LP64, LLP64)', floor=15)
    sec = P.section_texts(cat, OVF, 'Binop').get('impl')
    if sec is None:
        raise AnalysisError('Overflow.c::Binop has no implementation part')
    text = P.tempita_subst(strip_c_comments(sec.raw), {'TYPE': '__pyx_T', 'NAME': 'T', 'BINOP': 'add'})
    arms = _dispatch_arms(text, '__Pyx_add_T_checking_overflow')
    for sign, x, cal in arms:
        r.inst('Binop:%s:%s' % (sign, x), sample='%s arm sizeof(T)==sizeof(%s) -> %s' % (sign, x, cal))
    if not any(s == 'unsigned' for s, _x, _c in arms) or not any(s == 'signed' for s, _x, _c in arms):
        raise AnalysisError('Binop template no longer branches on __PYX_IS_UNSIGNED')
    for x, msg in _check_arms(arms):
        r.violate('Binop:%s' % x.replace(' ', '_'), 'Cython/Utility/' + OVF, sec.line, 'Overflow.c::Binop: ' + msg)
    # decision table of the whole dispatcher (also the arm in front of the sizeof == chain): rules/sC04.dispatch_table
    from ..rules import sC04
    rows, probs = sC04.dispatch_table(ctx)
    for mname, tdesc, called in rows:
        r.inst('Binop:table:%s:%s' % (mname, tdesc.replace(' ', '_')), sample='%s, %s -> %s' % (mname, tdesc, called))
    for k, msg in probs:
        r.violate('Binop:table:%s' % k, 'Cython/Utility/' + OVF, sec.line, 'Overflow.c::Binop: ' + msg)
    pc = ('static inline __pyx_T __Pyx_add_T_checking_overflow(__pyx_T a, __pyx_T b, int *o) {\n if (__PYX_IS_UNSIGNED(__pyx_T)) {\n'
          '  if (sizeof(__pyx_T) == sizeof(unsigned long)) { return (__pyx_T) __Pyx_add_unsigned_int_checking_overflow(a, b, o); } else { return 0; }\n'
          ' } else {\n  if (sizeof(__pyx_T) == sizeof(unsigned int)) { return (__pyx_T) __Pyx_add_unsigned_int_checking_overflow(a, b, o); } else { return 0; }\n }\n}\n')
    pp = _check_arms(_dispatch_arms(pc, '__Pyx_add_T_checking_overflow'))
    r.positive_control(len(pp) >= 2, 'long arm calling the int helper / unsigned size in the signed branch')
    return r


# =============================================================================================== W1 (clang as constant evaluator)
SIGNED_MIN = {'int': 'INT_MIN', 'long': 'LONG_MIN', 'long long': 'LLONG_MIN'}


def _static_asserts(exprs, prelude=''):
    """{index: True/False} for each C constant expression, evaluated by clang -fsyntax-only as _Static_assert."""
    src = '#include <limits.h>\n#define PY_LONG_LONG long long\n#define unlikely(x) (x)\n#define likely(x) (x)\n' + prelude + '\n'
    base = src.count('\n')
    for e in exprs:
        src += '_Static_assert(%s, "w");\n' % ' '.join(e.split())
    with tempfile.TemporaryDirectory(prefix='sa_w1_') as d:
        p = os.path.join(d, 'w.c')
        with open(p, 'w') as f:
            f.write(src)
        try:
            pr = subprocess.run(['clang', '-fsyntax-only', '-w', '-ferror-limit=0', p], stdout=subprocess.PIPE, stderr=subprocess.PIPE, text=True, timeout=60)
        except (OSError, subprocess.TimeoutExpired) as e:
            raise AnalysisError('clang not runnable: %s' % e)
    res = {i: True for i in range(len(exprs))}
    for m in re.finditer(r':(\d+):\d+: error: (.*)', pr.stderr):
        ln, msg = int(m.group(1)), m.group(2)
        i = ln - base - 1
        if 0 <= i < len(exprs) and 'static' in msg and 'assert' in msg and 'failed' in msg:
            res[i] = False
        else:
            raise AnalysisError('clang cannot evaluate the guard: line %d: %s' % (ln, msg))
    return res


def _guard_sites(fn):
    """[(putln node, [constant conjunct templates], macro name)] for emitted `if (...)` conditions that call the negation-overflow macro."""
    out = []
    for n in walk_no_nested(fn):
        if not (isinstance(n, ast.Call) and isinstance(n.func, ast.Attribute) and n.func.attr in ('putln', 'put') and n.args):
            continue
        t = str_template(n.args[0])
        if t is None or 'WOULD_OVERFLOW' not in t[0]:
            continue
        text, ph = t
        i = text.find('if')
        lp = text.find('(', i)
        rp = match_paren(text, lp) if lp >= 0 else -1
        if i < 0 or rp < 0:
            raise AnalysisError('cannot isolate the condition of the MIN / -1 guard: %r' % text)
        cond = text[lp + 1:rp]
        # split at top-level &&
        parts, depth, cur = [], 0, ''
        j = 0
        while j < len(cond):
            ch = cond[j]
            if ch == '(':
                depth += 1
            elif ch == ')':
                depth -= 1
            if depth == 0 and cond.startswith('&&', j):
                parts.append(cur)
                cur = ''
                j += 2
                continue
            cur += ch
            j += 1
        parts.append(cur)
        k = text[:lp + 1].count(PLACEHOLDER)
        consts = []
        for part in parts:
            cnt = part.count(PLACEHOLDER)
            phs = ph[k:k + cnt]
            k += cnt
            srcs = [node_src(x, 80) if x is not None else '?' for x in phs]
            if all(re.fullmatch(r'self\.type\.(empty_declaration_code|declaration_code)\(.*\)', s2) for s2 in srcs):
                consts.append(part.strip())
        out.append((n, consts, text))
    return out


def rule_w1(ctx):
    ix, cat = ctx.index, ctx.cat
    r = Rule('C04-W1', 'the constant part of the MIN / -1 guard emitted for signed C integer division holds for int, long and long long (compile-fail witness)', floor=3)
    binops = P.table_classes(ix, 'ExprNodes', 'binop_node_classes')
    rank = ast.literal_eval(ix.mod('PyrexTypes').bindings.get('rank_to_type_name')) if isinstance(ix.mod('PyrexTypes').bindings.get('rank_to_type_name'), ast.Tuple) else None
    if not rank or 'int' not in rank or 'float' not in rank:
        raise AnalysisError('PyrexTypes.rank_to_type_name vanished')
    types = [t.replace('PY_LONG_LONG', 'long long') for t in rank[rank.index('int'):rank.index('float')]]
    if any(t not in SIGNED_MIN for t in types):
        raise AnalysisError('unknown integer rank names %s' % types)
    macro = cat.decls.get('__Pyx_UNARY_NEG_WOULD_OVERFLOW')
    if not macro:
        raise AnalysisError('__Pyx_UNARY_NEG_WOULD_OVERFLOW vanished from Overflow.c')
    mdef = '#define __Pyx_UNARY_NEG_WOULD_OVERFLOW(%s) %s\n' % (', '.join(macro[0].params or []), macro[0].body)
    done = set()
    for op in DIV_BINOPS:
        cls = binops.get(op)
        if cls is None:
            continue    # reported by C04-OPS
        hit = _overflow_raise_reachable(ix, cls)
        if hit is None or id(hit[1]) in done:
            continue
        done.add(id(hit[1]))
        owner, fn = hit
        sites = _guard_sites(fn)
        if not sites:
            raise AnalysisError('%s.%s raises OverflowError but no guard calling __Pyx_UNARY_NEG_WOULD_OVERFLOW was found' % (owner.name, fn.name))
        for n, consts, text in sites:
            exprs, meta = [], []
            for t in types:
                cj = ' && '.join('(%s)' % c.replace(PLACEHOLDER, t) for c in consts) or '1'
                exprs.append('(%s) && __Pyx_UNARY_NEG_WOULD_OVERFLOW((%s)%s)' % (cj, t, SIGNED_MIN[t]))
                meta.append((t, cj))
            res = _static_asserts(exprs, mdef)
            for i, (t, cj) in enumerate(meta):
                key = '%s.%s:%s' % (owner.qual, fn.name, t.replace(' ', '_'))
                r.inst(key, sample='%s guard for %s: %s' % (key, t, exprs[i]))
                if not res[i]:
                    r.violate(key, owner.module.rel, n.lineno,
                              '%s.%s guards MIN / -1 with `%s`; for the result type `%s` the compile-time part (%s && the macro applied to %s) is false on this target, '
                              'so (%s)%s // -1 executes the C division: SIGFPE on x86 / undefined behaviour instead of OverflowError'
                              % (owner.name, fn.name, ' '.join(text.replace(PLACEHOLDER, '%s').split()), t, cj, SIGNED_MIN[t], t, SIGNED_MIN[t]))
    res = _static_asserts(['sizeof(int) == sizeof(long long)', 'sizeof(long) >= sizeof(int)'])
    r.positive_control(res == {0: False, 1: True}, 'clang evaluates a false and a true sizeof comparison')
    return r


def rule_i5(ctx):
    return rule_I5(ctx, modules=('ExprNodes',), floor=1, names=lambda n: 'OVERFLOW' in n.upper(), rid='C04-I5')


def _dscope(ctx):
    from ..rules import dscope
    return dscope.rule_dscope(ctx)


def rule_signed_key(ctx):
    from ..rules import sC04
    r = Rule('C04-SIGNKEY', 'Overflow.c::LeftShift is instantiated with a SIGNED value that is truthy exactly for signed types', floor=2)
    n, probs = sC04.signed_key_problems(ctx)
    for i in range(n):
        r.inst('LeftShift:SIGNED#%d' % i, sample='LeftShift instantiation %d' % i)
    for key, rel, line, msg in probs:
        if msg is None:
            r.info('%s: the SIGNED expression is not a function of self.signed the rule can evaluate; not decided' % key)
        else:
            r.violate(key, rel, line, msg)
    import ast as _ast
    from ..rules import pC02 as _P2
    pcv = [bool(_P2.Ev(subst={'self.signed': sv}).ev(_ast.parse('not self.signed', mode='eval').body)) for sv in (0, 1, 2)]
    r.positive_control(pcv == [True, False, False], 'SIGNED = not self.signed')
    return r


def run(ctx):
    from ..rules import sC04, sC03, s4C04
    arith = sC04.rule_arith(ctx)
    return [rule_signed_key(ctx), sC03.rule_guard(ctx, floor=2, direction='C04'), rule_ops(ctx), rule_fold(ctx), rule_pure(ctx), rule_enable(ctx), rule_bit(ctx), rule_p1(ctx), rule_name(ctx),
            rule_dispatch(ctx), rule_w1(ctx), rule_i5(ctx), _dscope(ctx), sC04.rule_barrier(ctx, _fold_analyse), arith,
            s4C04.rule_sticky(ctx, bit_values=getattr(arith, 'bit_values', None))]


MUTATIONS = [
    # (file, single edit, expected rule) - all tried on a scratch copy (/tmp/scr_C04); each armed one was reported with a message naming the
    # edited construct, next to the four findings of the unchanged tree (which stay reported).
    ('Cython/Compiler/ExprNodes.py', 'NumBinopNode.overflow_op_names: drop the "<<" row', 'C04-OPS'),
    ('Cython/Compiler/ExprNodes.py', 'binop_node_classes["-"] = c_binop_constructor("-")', 'C04-OPS'),
    ('Cython/Compiler/ExprNodes.py', 'IntBinopNode overrides generate_evaluation_code with ExprNode.generate_evaluation_code(self, code)', 'C04-OPS + C04-BIT'),
    ('Cython/Compiler/Optimize.py', 'visit_Node: drop `self.overflow_bit_node = None` before visitchildren', 'C04-FOLD'),
    ('Cython/Compiler/Optimize.py', 'visit_NumBinopNode: drop `node.overflow_bit_node = self.overflow_bit_node` (check still switched off)', 'C04-FOLD'),
    ('Cython/Compiler/Optimize.py', 'visit_NumBinopNode: drop the final `if top_level_overflow: self.overflow_bit_node = None`', 'C04-FOLD'),
    ('Cython/Compiler/Optimize.py', 'add `visit_DivNode` that delegates to visit_Node (a candidate repair): C04-PURE findings disappear', 'C04-PURE (goes silent)'),
    ('Cython/Compiler/ExprNodes.py', 'generate_evaluation_code: emit the `if (unlikely(bit))` test before super().generate_evaluation_code', 'C04-BIT'),
    ('Cython/Compiler/ExprNodes.py', 'generate_evaluation_code: drop `code.putln("%s = 0;" % self.overflow_bit)`', 'C04-BIT'),
    ('Cython/Compiler/ExprNodes.py', 'generate_evaluation_code: drop release_temp(self.overflow_bit)', 'C04-BIT'),
    ('Cython/Compiler/ExprNodes.py', 'generate_evaluation_code: drop code.putln(code.error_goto(self.pos)) after the raise', 'C04-BIT'),
    ('Cython/Compiler/ExprNodes.py', 'generate_evaluation_code: test `if (unlikely(!%s))`', 'C04-BIT'),
    ('Cython/Compiler/ExprNodes.py', 'generate_evaluation_code: allocate the bit as c_long_type', 'C04-BIT'),
    ('Cython/Compiler/ExprNodes.py', 'calculate_result_code: remove the `overflow_bit_node is not None` branch / put the infix branch first', 'C04-BIT'),
    ('Cython/Compiler/ExprNodes.py', 'calculate_result_code: pass operand2, operand1 to the helper', 'C04-BIT'),
    ('Cython/Compiler/ExprNodes.py', 'MulNode gets its own calculate_result_code returning "(a * b)"', 'C04-BIT'),
    ('Cython/Compiler/ExprNodes.py', "analyse_c_operation: operand swap for ('+', '-', '*')", 'C04-ENABLE'),
    ('Cython/Compiler/ExprNodes.py', 'analyse_c_operation: drop `self.is_temp = True`', 'C04-ENABLE'),
    ('Cython/Compiler/ExprNodes.py', 'analyse_c_operation: overflow_check_binop(self.operator, ...) instead of overflow_op_names[self.operator]', 'C04-ENABLE'),
    ('Cython/Compiler/ExprNodes.py', 'analyse_c_operation: extra conjunct `and not self.operand2.has_constant_result()`', 'C04-ENABLE'),
    ('Cython/Compiler/PyrexTypes.py', "CIntType.overflow_check_binop: BaseCaseUnsigned context key 'NAME' -> 'Name'", 'C04-P1 + C04-NAME'),
    ('Cython/Utility/Overflow.c', 'BaseCaseSigned.proto: rename the __Pyx_sub_const_{{NAME}}_checking_overflow macro', 'C04-NAME'),
    ('Cython/Utility/Overflow.c', 'BaseCaseUnsigned.proto: drop the #else prototype of __Pyx_mul_const_{{NAME}}_checking_overflow', 'C04-NAME'),
    ('Cython/Compiler/PyrexTypes.py', "_load_overflow_base: drop 'unsigned long' from the unsigned loop", 'C04-NAME'),
    ('Cython/Utility/Overflow.c', 'Common: drop #define __Pyx_sub_const_no_overflow', 'C04-NAME'),
    ('Cython/Utility/Overflow.c', 'LeftShift: third parameter `long *overflow`', 'C04-NAME'),
    ('Cython/Utility/Overflow.c', 'Binop: the sizeof(long) arm calls __Pyx_{{BINOP}}_int_checking_overflow', 'C04-DISPATCH'),
    ('Cython/Compiler/ExprNodes.py', 'generate_div_warning_code: guard `sizeof(%s) == sizeof(int)`', 'C04-W1 (long, long long reported, int goes silent)'),
    ('Cython/Compiler/Optimize.py', 'seed C04b: visit_DivNode is a barrier only `if node.zerodivision_check`, else delegates to visit_NumBinopNode', 'C04-BARRIER'),
    ('Cython/Compiler/Optimize.py', 'visit_DivNode deleted / misnamed visit_DivisionNode (dispatch falls back to visit_NumBinopNode)', 'C04-BARRIER (+ C04-PURE)'),
    ('Cython/Compiler/Optimize.py', 'visit_DivNode: `if node.cdivision: return self.visit_NumBinopNode(node)` before the barrier', 'C04-BARRIER'),
    ('Cython/Compiler/Optimize.py', 'new visit_ModNode delegating to visit_NumBinopNode', 'C04-BARRIER (ModNode only)'),
    ('Cython/Compiler/Optimize.py', 'visit_DivNode: `return super().visit_Node(node)` (the base class handler does not clear the bit node)', 'C04-BARRIER'),
    ('mutants/C04/*', '18 + 6 brainstormed breaking edits (widening arm `<=`, add/sub sign formulas exchanged, mul_const arms dropped, HALF_MAX / MIN macros, LeftShift bounds, dispatcher arm `<=` / negated, '
                      'SIGNED key inverted, bit zeroed late, MIN / -1 guard operands, unsigned sub bound, ...) and 10 behaviour-preserving rewrites; see meta.json of each', 'C04-ARITH / C04-DISPATCH / C04-SIGNKEY / C04-MINGUARD'),
    ('Cython/Utility/Overflow.c', 'seed C04f: unsigned __builtin_mul_overflow helper assigns the shared bit (`*overflow = ...`); 9 further edits of that mechanism (mutants/C04/h-*: `=` / `^=` / reset-first / '
                                  'if-else assignment in six other helpers and LeftShift, dispatcher arm writing a local bit that is assigned back or never copied)', 'C04-STICKY'),
    ('Cython/Utility/Overflow.c', '7 rewrites (mutants/C04/hp-*): `*overflow = *overflow | e`, `if (e) *overflow = 1;`, local copy written back, `*overflow = 1` in the LeftShift overflow branch, '
                                  'early return when the bit is already set, dispatcher parameter renamed, dispatcher result through a local', 'silent (the last one made C04-DISPATCH fire before: its arm extractor now '
                                  'accepts a helper call anywhere in the arm, the value flow being decided by the decision table)'),
    # behaviour-preserving edits, all silent (no finding added or removed)
    ('Cython/Compiler/Optimize.py', 'visit_DivNode inlines save / clear / visitchildren / restore; visit_DivNode folds only `if node.type.is_float` (result through a local); '
                                    'visit_DivNode -> visit_fold_barrier -> visit_Node chain; visit_Node saves and clears unconditionally', 'silent'),
    ('Cython/Compiler/Optimize.py', 'visit_Node: rename local `saved` -> `keep`', 'silent'),
    ('Cython/Compiler/ExprNodes.py', 'overflow_op_names: reorder the "+" and "-" rows', 'silent'),
    ('Cython/Compiler/Optimize.py', 'visit_NumBinopNode rewritten with `if self.overflow_bit_node is None: ... else: ...` instead of the flag local', 'silent'),
    ('Cython/Compiler/ExprNodes.py', 'bit test emitted as "if (unlikely(%s != 0)) {" % (self.overflow_bit,)', 'silent'),
    ('Cython/Compiler/Optimize.py', 'visit_Node: drop the restore `self.overflow_bit_node = saved` (only loses folding; property unaffected)', 'silent'),
    ('Cython/Compiler/PyrexTypes.py', 'CIntType.overflow_check_binop: reorder the keys of the Binop context dict', 'silent'),
]
