"""C01 — compiled pure Python behaves like CPython (structural clause: the transform pipeline sees and keeps the whole tree)."""
from ..rules import tree

ID = 'C01'
TECHNIQUE = 'AST class-graph analysis: visitor-dispatch resolution, child-list completeness, all-paths-return check'
DECIDES = ('T1: every attribute a node class drives through a tree phase is listed in its child_attrs/subexprs; '
           'T2: every listed child is a defined attribute; V1: every visit_<Class> handler of every tree visitor names an existing node class '
           '(dispatch is by class name); V2: every transform handler returns a node on all paths (None deletes the node); '
           'G3/G4 label save/restore and placement for statement nodes.')
NOT_DECIDED = 'that the generated C computes what CPython computes for any program.'


def run(ctx):
    from ..rules import gen, keyerr, sC01
    return [tree.rule_T1(ctx), tree.rule_T2(ctx), tree.rule_V1_visit(ctx), tree.rule_V2(ctx)] + gen.label_rules(ctx) + [keyerr.rule_keyerror_args(ctx), sC01.rule_unpack(ctx)]
