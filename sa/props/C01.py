"""C01 — compiled pure Python behaves like CPython (structural clause: the transform pipeline sees and keeps the whole tree)."""
from ..rules import tree

ID = 'C01'
TECHNIQUE = ('AST class-graph analysis: visitor-dispatch resolution, child-list completeness, all-paths-return check; '
             'UNPACK: symbolic run of the sequence-unpacking emitters over affine list views (symbolic target count, star position and loop counters), '
             'emitted C text kept with placeholders and its index expressions compared as linear forms')
DECIDES = ('T1: every attribute a node class drives through a tree phase is listed in its child_attrs/subexprs; '
           'T2: every listed child is a defined attribute; V1: every visit_<Class> handler of every tree visitor names an existing node class '
           '(dispatch is by class name); V2: every transform handler returns a node on all paths (None deletes the node); '
           'G3/G4 label save/restore and placement for statement nodes; KEYERR: utility code raising KeyError passes an argument tuple; '
           'UNPACK: in SequenceNode.generate_*: every emitted item fetch for the target at position p reads index p (or SIZE-(N-p) from the end of the '
           'container whose size SIZE is), elements of the parallel lists args / unpacked_items / coerced_unpacked_items only meet with equal indices, the size guard '
           'before from-the-end fetches and the slice trimming the starred list both use the number of trailing targets, and the generic iterator '
           'unpacker is only handed front parts of unpacked_items.')
NOT_DECIDED = ('that the generated C computes what CPython computes for any program.  UNPACK does not decide reference counting, the iterator protocol branch '
               '(order is the iteration order), that left / starred / right partition the targets, nor error messages.')
MUTATIONS = [   # (file, single edit on a scratch copy, rule that reported it) — C01-UNPACK
    ('Cython/Compiler/ExprNodes.py', "seed C01a: generate_starred_assignment_code walks the trailing targets forwards but keeps the index len-(i+1)", 'C01-UNPACK fetch'),
    ('Cython/Compiler/ExprNodes.py', "generate_starred_assignment_code: PyList_GET_ITEM(.., len-(i+1)) -> len-i", 'C01-UNPACK fetch'),
    ('Cython/Compiler/ExprNodes.py', "generate_starred_assignment_code: zip(right[::-1], self.coerced_unpacked_items) (one side not reversed)", 'C01-UNPACK align'),
    ('Cython/Compiler/ExprNodes.py', "generate_special_parallel_unpacking_code: PyTuple_GET_ITEM(sequence, {i}) -> {i+1}", 'C01-UNPACK fetch'),
    ('Cython/Compiler/ExprNodes.py', "generate_special_parallel_unpacking_code: enumerate(self.unpacked_items) -> enumerate(self.unpacked_items, 1)", 'C01-UNPACK fetch'),
    ('Cython/Compiler/ExprNodes.py', "generate_special_parallel_unpacking_code: enumerate(self.unpacked_items[::-1])", 'C01-UNPACK fetch'),
    ('Cython/Compiler/ExprNodes.py', "generate_starred_assignment_code: PySequence_GetSlice(.., len - len(left))", 'C01-UNPACK count:trim'),
    ('Cython/Compiler/ExprNodes.py', "generate_starred_assignment_code: size guard `len < len(right)-1`", 'C01-UNPACK count:guard'),
    ('Cython/Compiler/ExprNodes.py', "generate_starred_assignment_code: arg.generate_assignment_code(self.coerced_unpacked_items[i-1], code)", 'C01-UNPACK align'),
    ('behaviour-preserving (all silent)',
     "reversed(x) instead of x[::-1]; trailing targets walked forwards with the index len-(n_right-k), renamed locals and an f-string; "
     "`for pos in range(len(self.unpacked_items)): item = self.unpacked_items[pos]` instead of enumerate", 'silent'),
]


def run(ctx):
    from ..rules import gen, keyerr, sC01
    return [tree.rule_T1(ctx), tree.rule_T2(ctx), tree.rule_V1_visit(ctx), tree.rule_V2(ctx)] + gen.label_rules(ctx) + [keyerr.rule_keyerror_args(ctx), sC01.rule_unpack(ctx)]
