"""C01 — compiled pure Python behaves like CPython (structural clause: the transform pipeline sees and keeps the whole tree)."""
from ..rules import tree

ID = 'C01'
TECHNIQUE = ('AST class-graph analysis: visitor-dispatch resolution, child-list completeness, all-paths-return check; '
             'UNPACK: symbolic run of the sequence-unpacking emitters over affine list views (symbolic target count, star position and loop counters), '
             'emitted C text kept with placeholders and its index expressions compared as linear forms; '
             'tree-builder interpreter (rules/pC01.py TB): rewriting functions / code generators are run by an interpreter of the checker on symbolic nodes (unknown node '
             'facts fork both ways) and the built tree / recorded C skeleton is given a reference semantics that is evaluated over the COMPLETE finite domain of its tests '
             '(MINMAX: all outcomes of the pairwise comparisons; INPLACE: all kinds of target operands; SKEL: all truth assignments and loop-body outcomes); '
             'RESTORE: path-sensitive pairing (save / change / write back) over every visitor method; PARSEROLE: parse order of locals vs the role order of the grammar production; '
             'ARGBIND: the argument-unpacking generator of DefNodeWrapper is run by the TB interpreter on every signature of a finite family, the emitted C is parsed and executed on a machine model '
             '(helpers by contract) for every call shape and compared with the binding algorithm of the language reference; INTEQ: the C evaluator of C19-LONGCMP on both return conventions of PyLongCompare; '
             'UNPACKRUN: the parallel-unpacking generator of SequenceNode is run by the TB interpreter for N = 1..6 targets x static type of the right-hand side, the emitted C is parsed '
             '(#if blocks resolved for every macro assignment) and executed on a machine model for every run-time class of the right-hand side, compared with the assignment statement of the language reference; '
             'AUGOP: the in-place flag of an augmented assignment followed link by link (tree built by ExpandInplaceOperators, NumBinopNode.py_operation_function interpreted for both flag values, '
             'decision points of optimise_numeric_binop by the procedure of C02-INPL)')
DECIDES = ('T1: every attribute a node class drives through a tree phase is listed in its child_attrs/subexprs; '
           'T2: every listed child is a defined attribute; V1: every visit_<Class> handler of every tree visitor names an existing node class '
           '(dispatch is by class name); V2: every transform handler returns a node on all paths (None deletes the node); '
           'G3/G4 label save/restore and placement for statement nodes; KEYERR: utility code raising KeyError passes an argument tuple; '
           'UNPACK: in SequenceNode.generate_*: every emitted item fetch for the target at position p reads index p (or SIZE-(N-p) from the end of the '
           'container whose size SIZE is), elements of the parallel lists args / unpacked_items / coerced_unpacked_items only meet with equal indices, the size guard '
           'before from-the-end fetches and the slice trimming the starred list both use the number of trailing targets, and the generic iterator '
           'unpacker is only handed front parts of unpacked_items; '
           'MINMAX: the conditional cascade built for min()/max() with 2..4 arguments (positional or one display) evaluates every argument once in order, compares '
           '`item OP best` with the operands on CPython\'s sides and returns the same argument for EVERY outcome of the comparisons; '
           'INPLACE: the tree built by ExpandInplaceOperators for `target OP= rhs`, for every kind of target (name / subscript / attribute) and operand (name / expression, '
           'Python object / C typed): index operands and Python-object operand expressions are evaluated once and before rhs, operand expressions in source order, one load '
           'before and one store after rhs, every temporary bound; Python-level lookups that own an attribute target (`a[i].x += v`) are evaluated once (ExprNode.result_in_temp() is a fact '
           'of the operand kind); INPLACE-NAME: the operand positions that fail on the unmodified tree - the owner / container given as a plain NAME or as a C-level attribute path is read '
           'again for the store - are reported per position and are the known finding K14; '
           'RESTORE: in every method of a tree visitor, an attribute of the visitor that is saved in a local and then changed is written back from that same local on every '
           'normal path out of the method; '
           'PARSEROLE: for every node constructor call of Parsing.py with role values held in locals (25 productions: conditional expression, binary / comparison / boolean '
           'operators, walrus, subscripts and slices, dict items, lambda, assert, raise, if / while / try / except clauses, def, class), the locals were parsed in the order '
           'the grammar gives to their roles; '
           'SKEL: the C control skeleton emitted by IfStatNode/IfClauseNode, WhileStatNode, CondExprNode and BoolBinopNode/BoolBinopResultNode (1..3 clauses, with/without '
           'else, 10 and/or shapes up to four operands, object and C operands) executes the children in the order - and yields the operand - the language reference requires, '
           'for every truth assignment and every loop-body outcome (normal / break / continue), and every goto has a placed label; '
           'ARGBIND: for every signature with 0..1 positional-only, 0..2 positional-or-keyword and 0..3 keyword-only parameters (at most four; every legal placement of defaults, every order of required / '
           'optional keyword-only parameters; with / without *args, **kw, self) the C emitted by DefNodeWrapper.generate_tuple_and_keyword_parsing_code and its helper emitters binds EVERY call shape '
           '(0..max+1 positional arguments x every subset of {parameter names, one unknown name} as keywords) like the language reference: the same value reaches the same parameter (slot order of values[], '
           'keyword-name table, `values + K` base, positional count, defaults, final assignment agree), *args / **kw get the same content, TypeError is raised for exactly the same calls, the name reported as '
           'missing is a missing required keyword-only parameter, and no index leaves values[] / the name table / the argument vector; '
           'UNPACKRUN: for `t0, .., tN-1 = rhs` (N = 1..6; rhs typed object / list / tuple / other builtin; may be None or not; every configuration of the tested macros) the C emitted by '
           'SequenceNode.generate_parallel_assignment_code gives item i to target i, raises ValueError for too many / too few items with the right count after the same number of iterator steps as CPython, '
           'propagates the iterator\'s exception, raises TypeError for None / non-iterables, for EVERY run-time class of rhs (exact tuple / list of 0..N+2 items, iterators of 0..N+2 items, iterators raising at each step), '
           'never applies a tuple / list macro to another object or out of range, never reads an unfilled item slot, and releases the iterator and rhs exactly once on the normal path; '
           'AUGOP: the expansion of `target OP= rhs` holds exactly one binary operation created with inplace=True and the statement\'s operator (every target shape); NumBinopNode.py_operation_function '
           'returns an InPlace spelling exactly when the node is in-place (every operator of py_functions, every path); optimise_numeric_binop passes node.inplace to the fast-path helper for every '
           'operator / literal kind / node class; '
           'INTEQ: all eight PyLongCompare helpers (Eq/Ne x operand order x int / object result) answer like Python for every class of the object operand relative to the constant (procedure of C19-LONGCMP).')
NOT_DECIDED = ('that the generated C computes what CPython computes for any program.  UNPACK does not decide reference counting, the iterator protocol branch '
               '(order is the iteration order), that left / starred / right partition the targets, nor error messages.  The TB rules model type analysis / coercion methods '
               '(analyse_types, coerce_to, ...) as returning a node that evaluates the same operands, and take the evaluation order of IndexNode / AttributeNode / binop operands '
               '(decided by C20-ORDER) as given.  SKEL decides control flow and the selected operand only - not reference counting, temps, error gotos or the conversion of '
               'results; loops are unrolled to two iterations; ForInStatNode, try/with statements and comprehensions are not modelled.  PARSEROLE does not decide roles built from '
               'list slices or helper results (cascaded assignments, call arguments) nor operator precedence.  Not decided at all (brainstormed mutants left unreported): which '
               'transforms the pipeline must contain and in which order (depends on which program features occur), the closure marking protocol of MarkClosureVisitor '
               '(which handler must propagate needs_closure), scope lookup rules of Symtab (nonlocal / global resolution).  ARGBIND takes the contracts of __Pyx_ParseKeywords / __Pyx_ArgRef_* / __Pyx_ArgsSlice_* as given '
               '(C24-IDX, C24-KW2, C24-UNKNOWN decide the C side), models Python-object parameters only (C-typed parameters convert in generate_arg_assignment), the used-**kw case only, signatures of at most four '
               'parameters (the generator treats the lists uniformly; the transfer to longer signatures is not decided), not the no-argument / *args-only fast paths (generate_stararg_copy_code), reference '
               'counting of values[], nor error message texts.  UNPACKRUN takes the contracts of the C helpers (__Pyx_IternextUnpackEndCheck, __Pyx_IterFinish, the GET_SIZE / GET_ITEM macros, PyObject_GetIter) as given, models Python-object targets only '
               '(coercion of an item is `same value`), does not model starred targets (C01-UNPACK decides their index arithmetic) nor error message texts beyond the reported count.  AUGOP does not decide '
               'PowNode.py_operation_function (2 ** x special case) nor the C side of the flag (`inplace ? PyNumber_InPlaceX : PyNumber_X`, decided by C02-FAST PAIR).  INTEQ inherits the limits of C19-LONGCMP (casts are value-preserving in its evaluator: a float operand truncated by an integer cast is not seen).')
MUTATIONS = [   # (file, single edit on a scratch copy, rule that reported it) — C01-UNPACK
    ('Cython/Compiler/ExprNodes.py', "seed C01a: generate_starred_assignment_code walks the trailing targets forwards but keeps the index len-(i+1)", 'C01-UNPACK fetch'),
    ('Cython/Compiler/ExprNodes.py', "generate_starred_assignment_code: PyList_GET_ITEM(.., len-(i+1)) -> len-i", 'C01-UNPACK fetch'),
    ('Cython/Compiler/ExprNodes.py', "generate_starred_assignment_code: zip(right[::-1], self.coerced_unpacked_items) (one side not reversed)", 'C01-UNPACK align'),
    ('Cython/Compiler/ExprNodes.py', "generate_special_parallel_unpacking_code: PyTuple_GET_ITEM(sequence, {i}) -> {i+1}", 'C01-UNPACK fetch'),
    ('Cython/Compiler/ExprNodes.py', "generate_special_parallel_unpacking_code: enumerate(self.unpacked_items) -> enumerate(self.unpacked_items, 1)", 'C01-UNPACK fetch'),
    ('Cython/Compiler/ExprNodes.py', "generate_special_parallel_unpacking_code: enumerate(self.unpacked_items[::-1])", 'C01-UNPACK fetch'),
    ('Cython/Compiler/ExprNodes.py', "generate_starred_assignment_code: PySequence_GetSlice(.., len - len(left))", 'C01-UNPACK count:trim'),
    ('Cython/Compiler/ExprNodes.py', "generate_starred_assignment_code: size guard `len < len(right)-1`", 'C01-UNPACK count:guard'),
    ('Cython/Compiler/ExprNodes.py', "generate_starred_assignment_code: arg.generate_assignment_code(self.coerced_unpacked_items[i-1], code)", 'C01-UNPACK align'),
    ('behaviour-preserving (all silent)',
     "reversed(x) instead of x[::-1]; trailing targets walked forwards with the index len-(n_right-k), renamed locals and an f-string; "
     "`for pos in range(len(self.unpacked_items)): item = self.unpacked_items[pos]` instead of enumerate", 'silent'),
    # fourth round: every mutant below is stored with its patch and outcome under mutants/C01/<name>/ (replayed by the thorough tier)
    ('Cython/Compiler/Optimize.py', "seed C01c / minmax-*: cascade compares `best OP item`; min passes '>'; operator + '='; cascade from the last argument", 'C01-MINMAX'),
    ('Cython/Compiler/ParseTreeTransforms.py', "seed C01d / inplace-*: index name not captured; let_ref_nodes not reversed; temporary not returned for binding", 'C01-INPLACE'),
    ('Cython/Compiler/ParseTreeTransforms.py, Optimize.py', "closure-lambda-flag-leak, restore-loop-flag, restore-nogil-early-return, qualname-restore-swapped", 'C01-RESTORE'),
    ('Cython/Compiler/Parsing.py', "parse-{condexpr,binop,dictitem,walrus,assert,raise,while-else,cmp}-swap", 'C01-PARSEROLE'),
    ('Cython/Compiler/ExprNodes.py, Nodes.py', "condexpr-gen-swap, boolop-{sense-flip,operator-flip,labels-not-restored}, if-else-fallthrough, ifclause-goto-condition, "
                                               "while-{cond-negation,else-after-break,continue-label}", 'C01-SKEL'),
    ('Cython/Compiler/Nodes.py', "seed C01i / argbind-*: keyword-name table in declaration order; keyword-only slots optional-first; `values` instead of `values + K`; kwd_pos_args counts positional-only; "
                                 "keyword-only defaults skipped; required-keyword loop range; `case i:`; *args sliced from min_positional; fixed arity checked with `<`; pykwdlist[i] for the missing name", 'C01-ARGBIND'),
    ('Cython/Utility/Optimize.c', "seed C01j / inteq-*: sign test of a positive constant dropped; negative constant not negated; zero test inverted; object-result branches of return_compare swapped", 'C01-INTEQ'),
    ('Cython/Compiler/ExprNodes.py', "seed C01k / unpackrun-*: end check only in the unrolled variant; end check told N+1; size test `<`; expected size reported as obtained; loop bound N-1; IterFinish test inverted; "
                                    "unrolled index from 1; None test dropped for a list-typed rhs", 'C01-UNPACKRUN'),
    ('Cython/Compiler/Optimize.py, ParseTreeTransforms.py, ExprNodes.py', "seed C01l / augop-*: flag tested against the wrong operand order; flag only for int literals; negated; constant true; class test AddNode; "
                                    "cleared for Add/Subtract; binop_node without inplace=True; py_operation_function ignores the flag", 'C01-AUGOP'),
    ('behaviour-preserving (all silent)', "ok-unpackrun-terminate-early-flag, ok-unpackrun-helper-extracted, ok-unpackrun-loop-threshold-rewritten, ok-augop-flag-if-else, ok-augop-flag-and-form, ok-augop-expand-kwargs-reordered", 'silent'),
    ('not reported (declined)', "inteq-float-truncated ((long) cast of the float operand): the shared C evaluator treats casts as value-preserving", 'none'),
    ('behaviour-preserving (all silent)', "ok-argbind-names-loop-renamed, ok-argbind-helper-extracted, ok-argbind-values-base-early-return-style, ok-inteq-sign-tests-rewritten", 'silent'),
    ('not reported (declined)', "pipeline-drop-decorators, pipeline-closure-order, closure-mark-lambda, nonlocal-lookup-here: see NOT_DECIDED", 'none'),
    ('behaviour-preserving (all silent)', "ok-minmax-rewrite (helper method extracted, comprehension, reversed()), ok-inplace-rewrite (early returns, reversed()), ok-parse-rename "
                                          "(early return, keyword order), ok-closure-restore-finally (try/finally), ok-if-goto-rewrite, ok-while-rewrite (f-string), "
                                          "ok-condexpr-inverted (negated test with exchanged branches)", 'silent'),
]


def run(ctx):
    from ..rules import gen, keyerr, sC01, pC01, s7C01, s8C01, dD9
    # pC01.rule_inplace(ctx, pending=True) = C01-INPLACE-NAME: the owner NAME / C-level attribute path of an in-place target is read again for the store (known finding K14)
    return [tree.rule_T1(ctx), tree.rule_T2(ctx), tree.rule_V1_visit(ctx), tree.rule_V2(ctx)] + gen.label_rules(ctx) + [
        keyerr.rule_keyerror_args(ctx), sC01.rule_unpack(ctx), pC01.rule_minmax(ctx), pC01.rule_inplace(ctx), pC01.rule_inplace(ctx, pending=True), pC01.rule_restore(ctx), pC01.rule_parserole(ctx), pC01.rule_skel(ctx), s7C01.rule_argbind(ctx), s7C01.rule_inteq(ctx), s8C01.rule_unpackrun(ctx), s8C01.rule_augop(ctx),
        dD9.rule_negcmp(ctx)]      # C01-NEGCMP (rules/dD9.py), armed after the repair d92ac965e
