"""C21 — unbound locals fail exactly where CPython fails (structural clauses of the definedness analysis)."""
from ..rules import pC21

ID = 'C21'
TECHNIQUE = ('visitor dispatch resolution along the MRO; path-sensitive push/pop and save/restore dataflow over the ControlFlowAnalysis handlers; '
             'decision-table extraction by evaluating the summariser code of check_definitions / ControlFlowState over the COMPLETE finite domain of reaching sets '
             '(16 subsets of {Uninitialized, Unknown, assignment1, assignment2}); partial evaluation of NameNode code generation under the definedness flags; '
             'information-flow (channel) check of the type inferer; partial evaluation of the loop statement nodes\' generate_execution_code (sa/rules/sC14.Emu) and a check of the '
             'emitted statement sequence of every path (where the loop target is assigned relative to the braces of the emitted C loop); '
             'interpretation of the *source* of the whole definedness analysis (ControlFlowAnalysis handlers, ControlFlow graph construction, initialize / reaching_definitions / map_one, '
             'check_definitions) by the checker\'s own evaluator (sa/rules/sC21.MiniPy: nothing of the repository is imported or executed) on a finite family of abstract programs built from '
             'the repository\'s node classes, compared with the collecting semantics of the same programs computed by the checker from the language reference; '
             'path-sensitive partial evaluation of the NameNode emitters under the two flag valuations bound / maybe-unbound; '
             'interpretation of PostParse.visit_ExceptClauseNode (same evaluator) on an abstract `except E as x` clause, the tree it returns lifted to a statement language and its '
             'collecting semantics compared with the language reference for every way a clause suite can end; writer/reader agreement on the TryFinallyStatNode.handle_error_case '
             'flag (construction sites x node classes the flow analysis records as binding, class defaults, partial evaluation of the generator under the flag)')
DECIDES = ('C21-ABS: every instantiated node class below a ControlFlowAnalysis handler that only raises (visit_LoopNode, visit_AssignmentNode) dispatches to a specific handler. '
           'C21-V3: in every ControlFlowAnalysis method the pushes/pops on self.flow.loops, self.flow.exceptions, loops[-1].exceptions, self.stack and the in_try_block counter '
           'balance on every normal path (helpers with a uniform effect are summarised at their call sites), and visitor attributes saved to a local / swapped / pushed as a tuple '
           '(reductions, in_assignment_expression, env, flow) are restored on every normal exit. '
           'C21-LAT: for every reaching set, the assignment-hint loop and the reference loop of check_definitions and ControlFlowState.__init__ leave cf_maybe_null False only when '
           'neither Uninitialized nor Unknown reaches, and cf_is_null True only when exactly {Uninitialized} reaches. '
           'C21-DEF: NameNode class defaults are cf_maybe_null=True / cf_is_null=False; in each NameNode method that emits put_error_if_unbound the check is emitted for cf_is_null '
           'under the same residual conditions as for cf_maybe_null, and it is not emitted identically for definitely bound references. '
           'C21-INFER: SimpleAssignmentTypeInferer.infer_types reads a definedness fact (or an entry attribute FlowControl derives from one) before committing a non-object type. '
           'C21-LOOPVAR: the code generators of the for-loop statement nodes (ForFromStatNode in the from_range mode IterationTransform uses for range(), _ForInStatNode) bind the loop target inside '
           'the emitted loop before the body on every path and emit no assignment to it after the loop: a loop that runs zero times leaves the variable exactly as the flow analysis assumes '
           '(unbound stays unbound), an exhausted loop leaves the last item; the C counter of a range() loop is never re-read from the target. '
           'C21-CFG: on every abstract program of the family (208: straight-line code; if / elif / else; while, for-in and for-from loops with else clauses, break and continue; '
           'try / except / else; try / finally alone, with return, and with break / continue through it inside loops; nested try statements; match statements with capture patterns and '
           'guards; boolean operators, conditional expressions and assignment expressions - each child block filled with every behaviour class a handler can observe: falls through / '
           'jumps, binds / unbinds / reads the variable, may raise in between) the flags the analysis computes satisfy: the name can be unbound when an execution reaches the node => '
           'cf_maybe_null or cf_is_null is set; the name can be bound => cf_is_null is not set.  Over-approximation (more run-time checks than needed) is never reported. '
           'C21-NULLSAFE: in every ExprNodes method that consults cf_maybe_null (generate_gotref, NameNode.generate_assignment_code / generate_deletion_code / generate_result_code) a '
           'NULL-intolerant reference-count primitive (decref, decref_set, decref_clear, gotref) is applied to the variable of a maybe-unbound name only under path conditions under which a '
           'bound name gets it too, or after an emitted unbound check; path conditions that assume an entry kind ControlFlow.is_tracked does not track (C globals ...) are outside the rule. '
           'C21-CFG-NESTFIN: the C21-CFG comparison on 49 further programs in which a return / break / continue leaves through nested finally clauses: `return` through two finally clauses '
           '(directly nested, with a try/except body or handler or a loop in between), every jump kind through one finally clause from inside a try/except statement, inner clauses that '
           'are inert / may raise / bind / unbind (also under an `if`) / read, outer clauses that read / read and unbind; the inner try body never falls through, so the chain '
           'jump -> inner finally -> outer finally is the only route of the unbound state. '
           'C21-CFG-EXCAS: the C21-CFG comparison on 40 programs with `except E as x` clauses; each clause is lowered by the repository\'s own PostParse.visit_ExceptClauseNode '
           '(interpreted) before the flow analysis runs; the reference binds x on entry of the clause and unbinds it on every exit. '
           'C21-EXCAS: for 24 clause suites (6 ways to end x 4 things done to x) the tree PostParse.visit_ExceptClauseNode builds leaves x unbound on every exit of the clause (normal, '
           'exception, break, continue, return) and its implicit `del` never raises; the try/finally it builds is read with its effective handle_error_case (keyword, later attribute '
           'store or class default). '
           'C21-FINERR: every construction site of a TryFinallyStatNode (sub)class in Cython/Compiler whose handle_error_case is explicitly off builds a finally clause made only of node '
           'classes whose ControlFlowAnalysis handler records no (un)binding and of no foreign subtree; the class defaults are on; with the flag on, generate_execution_code does not '
           'assign code.error_label between taking the new labels and generating the body.')
NOT_DECIDED = ('the reaching-definitions fixpoint and the shape of the control-flow graph each handler builds are decided only through the flags they yield on the C21-CFG family: programs '
               'outside it (deeper nesting than two compound statements, more than one variable, with statements, comprehension scopes, closures / generators, parallel blocks, class bodies) are '
               'not decided; scenarios with a `del` inside a try body are evaluated by the pending part C21-CFG-DELTRY only (genuine defect FINDING_1 of session s4-G5). '
               'The design clause "every node class whose code generation uses labels/gotos has a specific handler" was dropped: on today\'s tree 8 label-using classes '
               '(DivNode, SequenceNode, YieldExprNode, BoolBinopResultNode, IfClauseNode, ExceptClauseNode, MatchCaseNode, StarExceptTestSetupNode) are correctly handled by the '
               'generic handler or by their parent\'s handler, so label use is not a necessary condition; only the abstract-handler form (C21-ABS) is exact. '
               'Emission sites that assume a non-NULL variable (decref vs xdecref) are not checked (the C-global branch is legitimately unguarded). '
               'C21-INFER is a necessary channel condition only: it does not decide that the inferer uses the fact correctly. '
               'Jumps through MORE nested finally clauses (`return` through three, `break` / `continue` through two) are evaluated by the pending part C21-CFG-DEEPFIN only (104 programs; '
               'genuine defect FINDING_1 of session H3: the handlers link only one level). C21-EXCAS / C21-FINERR take the meaning of handle_error_case=False (clause not run when the body '
               'raises) from the generator\'s flag test; that the generated C of a try/finally really runs the clause on every other exit is C22\'s subject. A finally clause that is produced '
               'by a helper call at a flag-off construction site is not followed (ANALYSIS-ERROR).')
ASSUMPTIONS = ['C21-CFG: TreeVisitor dispatch is replaced by its contract (visit_<Class> of the first class of the node\'s MRO with a handler; visitchildren walks child_attrs in order); '
               'symbol table entries are local Python-object variables (is_local, not in a closure); every condition, iteration count and raising point of the abstract programs is nondeterministic',
               'definedness facts can reach the type inferer only through cf_maybe_null / cf_is_null / Uninitialized or an attribute of a symbol-table entry that FlowControl writes under a test on one of them',
               'is_null implies maybe_null for every node (established by C21-LAT), so the flag combination (maybe_null=False, is_null=True) is not evaluated in C21-DEF',
               'C21-CFG-EXCAS: between PostParse and the flow analysis two pipeline steps are modelled, not interpreted: TryFinallyStatNode.analyse_declarations deep-copies finally_clause into '
               'finally_except_clause, and analyse_declarations resolves each NameNode to the local entry of its name']
EXEMPT = {}

# Single-edit variants tried on a scratch copy: (file, edit, rule/construct that reported it).  The unchanged tree already reports the two genuine
# findings (C21-DEF generate_deletion_code, C21-INFER); every variant below added the listed violation (exit 1), none was missed.
MUTATIONS = [
    ('Cython/Compiler/FlowControl.py', 'check_definitions, assignment-hint loop: delete the `elif Unknown in node.cf_state` arm', 'C21-LAT check_definitions:for node in assmt_nodes:maybe:{Unknown...}'),
    ('Cython/Compiler/FlowControl.py', 'check_definitions, reference loop: delete the `elif Unknown in node.cf_state` arm', 'C21-LAT check_definitions:for (node, entry) in references.items():maybe:{Unknown...}'),
    ('Cython/Compiler/FlowControl.py', 'assignment-hint loop: `len(node.cf_state) == 1` -> `>= 1`', 'C21-LAT ...:isnull:{Uninitialized, assignment1} (7 sets)'),
    ('Cython/Compiler/FlowControl.py', 'ControlFlowState.__init__: Unknown arm no longer sets cf_maybe_null', 'C21-LAT ControlFlowState.__init__:body:maybe:{Unknown...}'),
    ('Cython/Compiler/FlowControl.py', 'ControlFlowState.__init__: cf_is_null = True without the `if not state` test', 'C21-LAT ControlFlowState.__init__:body:isnull:{Uninitialized, ...}'),
    ('Cython/Compiler/FlowControl.py', 'visit_TryExceptStatNode: delete self.flow.exceptions.pop()', 'C21-V3 visit_TryExceptStatNode:self.flow.exceptions'),
    ('Cython/Compiler/FlowControl.py', 'visit_ForFromStatNode: delete self.flow.loops.pop()', 'C21-V3 visit_ForFromStatNode:self.flow.loops'),
    ('Cython/Compiler/FlowControl.py', 'visit_TryFinallyStatNode: delete `self.flow.in_try_block -= 1`', 'C21-V3 visit_TryFinallyStatNode:self.flow.in_try_block'),
    ('Cython/Compiler/FlowControl.py', 'visit_TryFinallyStatNode: delete the guarded self.flow.loops[-1].exceptions.pop()', 'C21-V3 visit_TryFinallyStatNode:self.flow.loops[-1].exceptions'),
    ('Cython/Compiler/FlowControl.py', 'visit_WhileStatNode: early `return node` between push and pop', 'C21-V3 visit_WhileStatNode:self.flow.loops'),
    ('Cython/Compiler/FlowControl.py', 'visit_AssignmentExpressionNode: delete the restore of in_assignment_expression', 'C21-V3 visit_AssignmentExpressionNode:self.in_assignment_expression'),
    ('Cython/Compiler/FlowControl.py', 'visit_ParallelRangeNode: delete `self.reductions = reductions`', 'C21-V3 visit_ParallelRangeNode:self.reductions'),
    ('Cython/Compiler/FlowControl.py', 'visit_ComprehensionNode: `self.env, _ = self.stack.pop()` -> `_ = self.stack.pop()`', 'C21-V3 visit_ComprehensionNode:self.env'),
    ('Cython/Compiler/FlowControl.py', 'rename visit_ForFromStatNode (handler removed)', 'C21-ABS visit_LoopNode<-ForFromStatNode'),
    ('Cython/Compiler/Nodes.py', 'add an instantiated class DoUntilStatNode(LoopNode, StatNode) without handler', 'C21-ABS visit_LoopNode<-DoUntilStatNode'),
    ('Cython/Compiler/Nodes.py', 'add an instantiated class SwapAssignmentNode(AssignmentNode) without handler', 'C21-ABS visit_AssignmentNode<-SwapAssignmentNode'),
    ('Cython/Compiler/ExprNodes.py', 'NameNode.cf_maybe_null default True -> False', 'C21-DEF ExprNodes.NameNode.cf_maybe_null'),
    ('Cython/Compiler/ExprNodes.py', 'NameNode.cf_is_null default False -> True', 'C21-DEF ExprNodes.NameNode.cf_is_null'),
    ('Cython/Compiler/ExprNodes.py', 'generate_result_code: raise_unbound = self.cf_is_null and not self.allow_null', 'C21-DEF generate_result_code:is_null-as-checked-as-maybe_null + depends-on-maybe_null'),
    ('Cython/Compiler/ExprNodes.py', 'generate_result_code: drop raise_unbound from the emitting test', 'C21-DEF generate_result_code:depends-on-maybe_null'),
    ('Cython/Compiler/ExprNodes.py', 'generate_deletion_code: `if self.cf_maybe_null and not ignore_nonexisting` -> `if not ignore_nonexisting`', 'C21-DEF generate_deletion_code:depends-on-maybe_null'),
    ('Cython/Compiler/Nodes.py', 'SEED C21b: ForFromStatNode post-loop assignment `if not from_range and self.py_loopvar_node` -> `if self.py_loopvar_node`', 'C21-LOOPVAR ForFromStatNode[from_range]:after-loop'),
    ('Cython/Compiler/Nodes.py', 'the same after extracting the assignment into a helper method that is then called unconditionally', 'C21-LOOPVAR ForFromStatNode[from_range]:after-loop'),
    ('Cython/Compiler/Nodes.py', 'counter re-synchronisation guard `not from_range and` dropped', 'C21-LOOPVAR ForFromStatNode[from_range]:counter'),
    ('Cython/Compiler/Nodes.py', 'RawCNameExprNode for C targets only `if ... and not from_range`', 'C21-LOOPVAR ForFromStatNode[from_range]:in-loop'),
    ('Cython/Compiler/Nodes.py', '_ForInStatNode: `self.target.generate_assignment_code(self.item, code)` moved behind the closing brace', 'C21-LOOPVAR _ForInStatNode:in-loop + after-loop'),
    # fourth round (session s4-G5): the complete list with patches is in /verif/mutants/C21/*; classes
    ('Cython/Compiler/FlowControl.py', 'an edge of the graph dropped / attached to the wrong block in visit_IfStatNode, visit_WhileStatNode, visit_ForInStatNode (back edge, else clause), '
     'visit_ForFromStatNode, visit_TryExceptStatNode (clause exit), visit_BoolBinopNode, visit_CondExprNode, visit_MatchNode (no case / failing guard)', 'C21-CFG <statement kinds>:unbound-missed / bound-missed'),
    ('Cython/Compiler/FlowControl.py', 'mark_deletion records the deletion as a definition / visit_DelStatNode does not record it; reaching_definitions: kill applied to the own definitions, '
     'parents joined with &; check_definitions block walk: a deletion sets the statement bit; initialize: no Uninitialized bits at the entry point', 'C21-CFG'),
    ('Cython/Compiler/ExprNodes.py', 'generate_assignment_code: decref_set / xdecref_set swapped; generate_deletion_code: decref_clear for a maybe-unbound name; generate_gotref: condition inverted', 'C21-NULLSAFE'),
    ('Cython/Compiler/FlowControl.py', 'CONSERVATIVE edits (more maybe-unbound states, same behaviour): kill set ignored, if-clauses hung under the entry block, try-entry / finally-entry edge dropped', 'silent (by design)'),
    # fifth round (session H3): patches in /verif/mutants/C21/{ret-*,tryfinally-*,descr-*,excas-*,with-*}
    ('Cython/Compiler/FlowControl.py', 'SEED C21e and 7 neighbours: visit_ReturnStatNode loses / misroutes the edge inner finally -> outer finally (list instead of the shared iterator, restart of the '
     'inner search, exit linked to the function exit or taken from the return block, handler stack walked outermost first, only the innermost handler inspected); ExceptionDescr without / with a wrong finally_exit', 'C21-CFG-NESTFIN (C21-CFG for the descriptor without exit)'),
    ('Cython/Compiler/ParseTreeTransforms.py', 'SEED C21f and neighbours: the except-as wrapper built with handle_error_case=False (keyword / later attribute store), without the del, with a strict del, '
     'as a plain statement list; WithTransform: a DelStatNode added to the flag-off finally clause', 'C21-EXCAS / C21-FINERR / C21-CFG-EXCAS'),
    ('Cython/Compiler/Nodes.py', 'TryFinallyStatNode.handle_error_case default False; generate_execution_code tests the flag with the opposite polarity', 'C21-EXCAS + C21-FINERR / C21-FINERR'),
    ('Cython/Compiler/FlowControl.py', 'visit_TryExceptStatNode no longer records the assignment of the except-as target', 'C21-CFG-EXCAS except-as:bound-missed'),
    # repairs of the two findings make the corresponding violation disappear (and it comes back when the repair is reverted)
    ('Cython/Compiler/ExprNodes.py', 'REPAIR generate_deletion_code: emit put_error_if_unbound also under `self.cf_is_null and not ignore_nonexisting`', 'C21-DEF silent'),
    ('Cython/Compiler/TypeInference.py', 'REPAIR inferred_types: append py_object_type when any reference has cf_maybe_null', 'C21-INFER silent'),
    ('Cython/Compiler/FlowControl.py + TypeInference.py', 'REPAIR through an entry attribute written under `Uninitialized in node.cf_state` and read by the inferer', 'C21-INFER silent'),
]
SILENT_EDITS = [   # behaviour-preserving, reported nothing new
    'visit_WhileStatNode: rename local condition_block_end',
    'assignment-hint loop: alias `st = node.cf_state`, `len(st) == 1` written as `not len(st) > 1`',
    'reference loop: `elif Unknown not in node.cf_state: <safe case> else: cf_maybe_null = True` (arms swapped)',
    'generate_result_code: raise_unbound inlined into the emitting test',
    'balanced helper _visit_try_body (inc/visit/dec) and uniform push helper _enter_loop used by visit_WhileStatNode',
    'ControlFlowState.__init__: `if not state` written as `if len(state) == 0`',
    'generate_deletion_code: operands of `self.cf_maybe_null and not ignore_nonexisting` swapped',
    'visit_AssignmentExpressionNode: save to a local instead of the tuple swap',
    'ForFromStatNode: post-loop assignment moved into a helper method called under `if not from_range:`; guard written `pyrex_loop = not self.from_range; if not (not pyrex_loop or self.py_loopvar_node is None)`',
    'ForFromStatNode: in-loop assignment restructured (`item_node`, `if item_node is None: pass / else:`)',
    # fifth round (mutants/C21/pres-*)
    'visit_ReturnStatNode without the shared iterator (list of finally-carrying handlers, [0] and [1] linked explicitly); the search for the next outer finally clause in a helper; ExceptionDescr built with keywords',
    'visit_ExceptClauseNode: wrapper in a local with an explicit handle_error_case=True; DelStatNode / TryFinallyStatNode used directly without StatListNode wrappers and an early return; construction in a helper method',
    'WithTransform: exit statement and try/finally in locals, handle_error_case = False stored afterwards; generate_execution_code: `if flag: pass / else: redirect`',
]


def run(ctx):
    from ..rules import cfgjump
    from ..rules import sC21, s4C21, dD11
    return [pC21.rule_abstract_handlers(ctx), pC21.rule_visitor_state(ctx), pC21.rule_lattice(ctx), pC21.rule_defaults_guards(ctx), pC21.rule_infer(ctx), cfgjump.rule_jump(ctx),
            sC21.rule_loopvar(ctx), sC21.rule_cfg(ctx, 'main', floor=160), sC21.rule_nullsafe(ctx), sC21.rule_cfg(ctx, 'deltry'),
            sC21.rule_cfg(ctx, 'nestfin', floor=40), sC21.rule_cfg(ctx, 'excas', floor=34), s4C21.rule_excas(ctx), s4C21.rule_finerr(ctx),
            sC21.rule_cfg(ctx, 'deepfin', floor=80),
            dD11.rule_kinds(ctx)]        # C21-KINDS (rules/dD11.py), armed after the repair 9ba07fb88
    # armed after the repair e5f017ba9 (FINDING_1 of session H3): sC21.rule_cfg(ctx, 'deepfin', floor=80) -- C21-CFG-DEEPFIN, the same rule on `break` / `continue` through two nested finally clauses and
    # `return` through three: visit_BreakStatNode / visit_ContinueStatNode / visit_ReturnStatNode lost the edge into the outer finally clause on the unmodified tree.
    # armed after the repair 1f1e46754: sC21.rule_cfg(ctx, 'deltry') -- the same rule on the scenarios with a `del` inside a try body reports a genuine defect of the unmodified tree
    # (FINDING_1 of session s4-G5: `x = 1; try: del x; f() except E: use(x)` reads NULL); register it as C21-CFG-DELTRY (floor 36) once visit_DelStatNode is repaired.
