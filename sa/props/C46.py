"""C46 — cythonize rebuilds exactly the modules whose inputs changed (structural necessary conditions)."""
from ..rules import pC46

ID = 'C46'
TECHNIQUE = 'x'
DECIDES = 'x'
NOT_DECIDED = 'x'


def run(ctx):
    return [pC46.rule_scan(ctx), pC46.rule_merge(ctx), pC46.rule_deps(ctx), pC46.rule_newest(ctx), pC46.rule_rebuild(ctx), pC46.rule_alias(ctx)]

EXEMPT = {
    ('C46-ALIAS', 'Dependencies.DependencyTree.distutils_info0:kwds'):
        'distutils_info0 adds the extern headers / include dirs to the `values` dict of the memoised DistutilsInfo (component 3 of parse_dependencies); the update is '
        'idempotent and that component is not part of the dependency set or the rebuild decision (components 0-2 stay untouched)',
}
