"""C17 — buffer acquisition: the per-format-character tables of the PEP 3118 format checker agree with each other,
with the struct module, with the type-group letters the compiler emits and with the format strings Cython's own
exporter produces; the format scanner's cursor loops stop at NUL and make progress; both acquisition entry points
perform the ndim / format / itemsize comparisons."""
import ast, re, struct

from ..core import Rule, AnalysisError
from ..engine import tables
from ..rules import pC17 as P

ID = 'C17'
TECHNIQUE = ('table agreement (TAB) over the switch tables of Buffer.c read with a small C statement parser (fall-through chains followed), '
             'reference comparison with the running interpreter\'s struct module, writer/reader agreement of type-group letters '
             '(Buffer.py -> Buffer.c / MemoryView.pyx), abstract evaluation of cursor-loop conditions at NUL and a path-sensitive progress check, '
             'guard presence in the two acquisition entry points; decision table of the byte-order prefix arms by symbolic execution over prefix x host layout (rules/sC17.py); '
             'round 4: a path explorer over the parsed C (conditions decomposed along && || !, constant / copy propagation, forward gotos) for must-precede, dominance and def-use '
             'obligations; decision tables of extracted decision code over complete finite domains (type-group letters x size equality, access mode x suboffset sign, stride class relative '
             'to itemsize, ordering of a compared pair); symbolic execution on polynomials (contiguity validator, decimal number parser, align-up blocks on residue classes); '
             'positional writer/reader agreement of an emitted struct initialiser; cross-site agreement on the fastest-varying axis of a declared layout; request flags evaluated with the CPython headers')
DECIDES = ('(TAB) the five __Pyx_BufFmt_TypeCharTo* tables handle the same set of format characters, DescribeTypeChar names all of them, and every character '
           '__Pyx_BufFmt_CheckString stores as a type character is in that set; (REF) TypeCharToStandardSize equals struct.calcsize("="+c) (complex = 2x) and '
           'TypeCharToGroup classifies signed/unsigned/float characters as the struct module does (\'?\' = C99 _Bool = unsigned); the characters allowed after "Z" are exactly the ones '
           'whose group depends on is_complex; (NAT) signed/unsigned siblings share one size/alignment/padding expression, and the type measured by '
           'TypeCharToNativeSize is the member type of the __Pyx_st_*/__Pyx_pad_* probe structs used by TypeCharToAlignment/Padding; '
           '(GRP) every type-group letter emitted by Buffer.get_type_information_cname is matched by the format checker and consumed by '
           '__Pyx_TypeInfoToFormat / format_from_typeinfo, every format character __Pyx_TypeInfoToFormat emits is accepted by the checker with the '
           'same group and size, and every letter a reader tests typegroup against is one the writer emits; (SCAN) every cursor loop of the format scanner is false at NUL, no loop of the scanner has a back edge (`continue` / end of body) reachable on a path '
           'without any state change (exact non-termination witness), the main switch has a returning NUL arm; (VAL) each function that calls __Pyx_BufFmt_CheckString compares ndim and itemsize with the declared '
           'type and fails on a rejected format, after initialising the context with the same dtype; (ORDER) for each of the prefixes @ = < > ! ^ and both host byte orders '
           '(the value of __Pyx_Is_Little_Endian() is obtained by evaluating its type-punning probe under each memory layout) the prefix arm of __Pyx_BufFmt_CheckString '
           'accepts exactly the formats in host order and stores a pack mode that __Pyx_BufFmt_ProcessTypeChunk reads back as the size/alignment mode the struct module / PEP 3118 define; the context starts in \'@\' mode. '
           'Round 4: (SKIP) every successful path through an acquisition entry point runs the format check unless __pyx_typeinfo_cmp(dtype, other) was true on it or the parameter that receives the '
           'buffer option cast (followed from Buffer.py through the macro) is set; (END) the scanner returns success at NUL only with head == NULL established after the last chunk; '
           '(COUNT) a parsed repeat count is read before it is reset on every path of every scanner arm; (STATE) every scanner-context field that is read takes more than one value; '
           '(POOL) the pooling condition compares every attribute a new chunk records; (CHUNK) 196-row decision table of the dtype-vs-item comparison; (EQ) no condition tells "declared quantity < buffer quantity" from ">"; '
           '(CMP) __pyx_typeinfo_cmp compares every descriptor member the checker consults, struct fields with type and offset; (SLOT) the positional __Pyx_TypeInfo initialiser gives letters / flag macros / strings / arrays '
           'to the members read as such, and the signed/unsigned letter choice agrees with the exporter; (DIGITS) the number parser accepts exactly digit runs, returns their decimal value (polynomial identity for 1..3 digits) and '
           'leaves the cursor behind them; (ALIGN) both round-up blocks yield the least multiple >= offset for all residues; (CONTIG) __pyx_verify_contig demands exactly the C / Fortran strides for ndim 1..3 with symbolic extents; '
           '(CF) is_cf_contig, the macro handed to the validator, the PyBUF_*_CONTIGUOUS requests and the unstrided index of the legacy lookup agree on the fastest axis; (AXIS) decision tables of __pyx_check_suboffsets '
           '(PEP 3118) and the contiguous/follow rows of __pyx_check_strides, every validator consulted with its failure honoured; (ACCESS) access mode -> validator macro -> generated lookup agree on dereferencing, '
           'run-time dereferences happen exactly for suboffset >= 0; (REQ) every buffer request contains PyBUF_FORMAT / strides / PyBUF_INDIRECT where the acquisition reads them (CPython header values).')
NOT_DECIDED = ('the offset bookkeeping of __Pyx_BufFmt_ProcessTypeChunk as a whole (that fmt_offset advances by count x size, array extents multiply, nested T{} records and their '
               'repetition: one dropped `fmt_offset += size` is NOT reported), the transfer of C17-DIGITS from 3 digits to arbitrarily long runs and int overflow of huge counts, '
               'which user struct types may also be matched as complex numbers (can_be_complex), the size arithmetic of the exporter for complex types, run-time guards on buffer '
               'length (0-sized arrays skip the axis checks: inverting that guard is not reported), the strided / non-direct rows of __pyx_check_strides, and that acquired elements read as struct.unpack '
               'would; native sizes are compared structurally, not numerically.')
ASSUMPTIONS = ['struct module of the running interpreter is the reference for standard sizes and signedness',
               'goto is only used as a jump to a failure label (treated as leaving the loop)']

BUFFER_C = 'Cython/Utility/Buffer.c'
SECTION = 'BufferFormatCheck'

MUTATIONS = [
    # (file, single edit, expected rule) -- all tried on a scratch copy (/tmp/scr_C17); every armed one is reported with the
    # edited construct named in the message; the three findings of the unchanged tree stay reported alongside.
    ('Cython/Utility/Buffer.c', "TypeCharToGroup: `case 'f': case 'd': case 'g':` -> add `case 'e':` (half float in one table only)", 'C17-TAB'),
    ('Cython/Utility/Buffer.c', "CheckString: add `case 'e':` to the type-character arm", 'C17-TAB'),
    ('Cython/Utility/Buffer.c', "TypeCharToPadding: drop `case 'Q':`", 'C17-TAB'),
    ('Cython/Utility/Buffer.c', "TypeCharToStandardSize: `case 'l': case 'L':` return 8 instead of 4", 'C17-REF'),
    ('Cython/Utility/Buffer.c', "TypeCharToGroup: move `case 'L':` from the 'U' arm to the 'I' arm", 'C17-REF'),
    ('Cython/Utility/Buffer.c', "CheckString 'Z' arm: condition `*ts != 'f' && *ts != 'd' && *ts != 'g'` loses the 'g' test", 'C17-REF'),
    ('Cython/Utility/Buffer.c', "TypeCharToAlignment: 'i' arm uses sizeof(__Pyx_st_long) - sizeof(long)", 'C17-NAT'),
    ('Cython/Utility/Buffer.c', "__Pyx_pad_short: member `short x` -> `int x`", 'C17-NAT'),
    ('Cython/Utility/Buffer.c', "TypeCharToNativeSize: 'h'/'H' return sizeof(int)", 'C17-NAT'),
    ('Cython/Compiler/Buffer.py', "get_type_information_cname: typegroup \"'R'\" -> \"'F'\"", 'C17-GRP'),
    ('Cython/Utility/Buffer.c', "TypeInfoToFormat: size == 2 emits 'I' : 'i'", 'C17-GRP'),
    ('Cython/Utility/Buffer.c', "TypeInfoToFormat: swap 'B' : 'b' to 'b' : 'B'", 'C17-GRP'),
    ('Cython/Utility/Buffer.c', "CheckString: `case 0:` arm ends in `break` instead of `return ts`", 'C17-SCAN'),
    ('Cython/Utility/Buffer.c', "ParseNumber: loop condition `*t >= '0' && *t <= '9'` -> `*t <= '9'`", 'C17-SCAN'),
    ('Cython/Utility/Buffer.c', "CheckString: whitespace arm `++ts; break;` -> `break;`", 'C17-SCAN'),
    ('Cython/Utility/Buffer.c', "__Pyx__GetBufferAndValidate: delete the `buf->ndim != nd` block", 'C17-VAL'),
    ('Cython/Utility/MemoryView_C.c', "__Pyx_ValidateAndInit_memviewslice: itemsize guard `!=` -> `<`", 'C17-VAL'),
    ('Cython/Utility/MemoryView_C.c', "__Pyx_ValidateAndInit_memviewslice: `if (unlikely(!__Pyx_BufFmt_CheckString(...))) goto fail;` -> call without test", 'C17-VAL'),
    ('Cython/Utility/MemoryView_C.c', "__Pyx_ValidateAndInit_memviewslice: __Pyx_BufFmt_Init(&ctx, stack, memview->typeinfo)", 'C17-VAL'),
    # C17-ORDER (rules/sC17.py), tried on /tmp/strengthen/G4/scr; seed C17a (merged guard `(*ts == '>') == __Pyx_Is_Little_Endian()`) fires prefix:!:little-host / :big-host
    ('Cython/Utility/Buffer.c', "CheckString: drop the `case '!':` label", 'C17-ORDER ...prefix:!'),
    ('Cython/Utility/Buffer.c', "CheckString '<' arm: `if (!__Pyx_Is_Little_Endian())` -> `if (__Pyx_Is_Little_Endian())`", 'C17-ORDER ...prefix:<:little-host, :big-host'),
    ('Cython/Utility/Buffer.c', "CheckString '>'/'!' arm: `ctx->new_packmode = '='` -> `'@'` (native sizes + alignment for explicit byte order)", 'C17-ORDER ...prefix:>:mode, prefix:!:mode'),
    ('Cython/Utility/ModuleSetupCode.c', "__Pyx_Is_Little_Endian: `return S.u8[0] == 4` -> `== 1` (inverted probe)", 'C17-ORDER ...__Pyx_Is_Little_Endian:probe (+ 6 prefix rows)'),
    ('Cython/Utility/Buffer.c', "ProcessTypeChunk: native-size test `== '@' || == '^'` -> `== '@' || == '='`", 'C17-ORDER ...prefix:=:mode, <, >, !, ^'),
    ('Cython/Utility/Buffer.c', "CheckString '='/'@'/'^' arm: `ctx->new_packmode = *ts++` -> `= '@'; ts++`", 'C17-ORDER ...prefix:=:mode, prefix:^:mode'),
    # tried, NOT caught (no exact rule covers them; recorded for honesty)
    ('Cython/Utility/Buffer.c', "CheckString 'x' arm: drop `++ts` (other state changes on the path, so non-termination is not provable structurally)", 'missed'),
    ('Cython/Utility/Buffer.c', "__Pyx_BufFmt_Init: `typegroup == 'S'` -> 'T' (ProcessTypeChunk still tests 'S')", 'missed'),
    # behaviour-preserving, stayed silent (no new/removed finding)
    ('Cython/Utility/Buffer.c', "reorder `case 'h': case 'H':` to `case 'H':   case 'h':` in all tables; rename local `number` in ExpectNumber", None),
    ('Cython/Utility/Buffer.c', "TypeCharToGroup: split the `case 'b' ... 'p'` arm into two arms both returning 'I'", None),
    ('Cython/Compiler/Buffer.py', "rename local `typegroup` to `tgroup` consistently", None),
    ('Cython/Utility/Buffer.c', "braces + comment around `goto fail` of the CheckString guard; braces around the body of the ':' loop", None),
    ('Cython/Utility/Buffer.c', "merge the '<' and '>'/'!' arms CORRECTLY: `if ((*ts == '<') != (__Pyx_Is_Little_Endian() != 0)) {error}` (C17-ORDER silent)", None),
    ('Cython/Utility/Buffer.c', "'>'/'!' arm as if/else: `if (__Pyx_Is_Little_Endian() == 0) { ts++; mode = '='; } else { error; return NULL; } break;` (C17-ORDER silent)", None),
    ('Cython/Utility/ModuleSetupCode.c', "__Pyx_Is_Little_Endian: `return S.u8[3] == 0x01` (same probe read from the other end; C17-ORDER silent)", None),
    ('Cython/Utility/Buffer.c', "ProcessTypeChunk: De Morgan `!(enc_packmode != '@' && enc_packmode != '^')` (C17-ORDER silent)", None),
    # round 4: 55 breaking / 18 behaviour-preserving single edits are kept as patches under /verif/mutants/C17/ (meta.json says which rule reports each);
    # not reported: chunk-offset-not-advanced, typeinfo-complex-struct, validate-len-guard-inverted, exporter-complex-size (see NOT_DECIDED)
    ('Cython/Utility/Buffer.c', "plausible fixes of the three findings (case 'O' in TypeInfoToFormat, `++ts; continue;`, `*ts && *ts != ':'` + error) -> C17 ok", None),
]

# fifth round (fresh seed C17e + mutation brainstorming on its mechanism: the "chars don't care about sign" exemption at its two sites, mutants/C17/chunk-*, cmptab-*, keep-chunk-*, keep-cmptab-*):
# 17 breaking edits, 16 reported and one refused with ANALYSIS-ERROR (w2-chunk-size-only-native: the comparison made dependent on the pack mode); 6 behaviour-preserving rewrites, all silent.  One genuine defect of the unmodified tree met on the way (FINDING_2 of session H2: the exemption in
# __pyx_typeinfo_cmp answers before dimensionality / extents are compared), rule C17-CMPDIM pending.
TECHNIQUE += ('; fifth round: the decision region of C17-CHUNK is found by def-use (every branch that reads the size / group of the format item, a flag computed from them or the declared side), '
              'size relation three-valued; the same decision table for the dtype-equality shortcut __pyx_typeinfo_cmp (C17-CMPTAB)')
DECIDES += (' Round 5: (CHUNK) the table now covers every statement of the comparison region -- a guard hoisted in front of the comparison, a comparison split in two statements, a flag local, an '
            'overwritten size -- over declared group x format group x (declared size equal / larger / smaller) x fields; (CMPTAB) __pyx_typeinfo_cmp explored as a whole for every (group of a) x '
            '(group of b) x (size equal / larger / smaller) x (signedness of plain char): scalar descriptors compare equal only with the same size and the same group or a char on either side.')
NOT_DECIDED += (' Array members in __pyx_typeinfo_cmp (decided by C17-CMPDIM since the repair a5db7cc86); a verdict of 0 of the shortcut is never a finding (the format check then runs).')
MUTATIONS += [
    ('Cython/Utility/Buffer.c', 'seed C17e: the char exemption hoisted in front of the comparison, its `type->size == size` lost', 'C17-CHUNK mismatch-accepted:both / :size'),
    ('Cython/Utility/Buffer.c', 'ProcessTypeChunk: complex descent hoisted; `group != H &&` guard; split with the exemption in the group half; either_char flag bypass; size overwritten for chars; '
                                '`<=` in the exemption; early `if (typegroup != H)` around the comparison', 'C17-CHUNK'),
    ('Cython/Utility/Buffer.c', '__pyx_typeinfo_cmp: exemption returns 1 / `>=` / hoisted early return; outer `||` -> `&&`; size dropped from the outer test; non-char branch returns group equality', 'C17-CMPTAB (C17-CMP)'),
    ('Cython/Utility/Buffer.c', 'correct flattening into an else-if chain; flag locals either_char / same_size; split into size test + group test; exemption only for char vs char; pure helper', None),
]


KNOWN_ON_CLEAN_TREE = """Three genuine defects are reported on the unchanged tree (all reproduced by compiling and running):
  C17-GRP  Buffer.get_type_information_cname:'O'      __Pyx_TypeInfoToFormat has no case 'O': <object[:n]> void_ptr exports format ''.
  C17-SCAN __pyx_buffmt_parse_array:while(*ts&&*ts!=')'):continue   whitespace inside '(2, 3)' never advances ts: acquisition hangs.
  C17-SCAN __Pyx_BufFmt_CheckString:while(*ts!=':'):NUL              unterminated field name 'i:abc' reads past the end of the format string.
"""


def _func(ctx, name):
    ds = [d for d in ctx.cat.decls.get(name, []) if d.kind == 'func' and d.body]
    if not ds:
        raise AnalysisError('C function %s not found in the utility library' % name)
    return ds[0]


def _section_funcs(ctx):
    out = [d for v in ctx.cat.decls.values() for d in v
           if d.kind == 'func' and d.body and d.file == 'Buffer.c' and d.section.name == SECTION]
    if len(out) < 8:
        raise AnalysisError('Buffer.c::%s has only %d functions' % (SECTION, len(out)))
    return sorted(out, key=lambda d: d.line)


def _short(name):
    return name.replace('__Pyx_BufFmt_', '')


def _show(c):
    return repr(c)[1:-1] if c not in ("'",) else "\\'"


# ---------------------------------------------------------------------------------------------- CheckString facts
class Scanner:
    """Facts read out of __Pyx_BufFmt_CheckString: stored type characters, prefix arms, characters admitted after a prefix."""

    def __init__(self, name, body_text):
        self.name = name
        self.stmts = P.parse_body(body_text)
        self.switch = None
        self.cursor = None
        for st in P.walk(self.stmts):
            if st.kind == 'switch':
                m = re.fullmatch(r'\*\s*(\w+)', st.text)
                if m:
                    self.switch, self.cursor = st, m.group(1)
                    break
        if self.switch is None:
            raise AnalysisError('%s: no switch over the format cursor found' % name)
        self.arms = P.switch_arms(self.switch)
        self.labels = {l for a in self.arms for l in a.labels}
        store = re.compile(r'\benc_type\s*=\s*\*\s*%s\b' % re.escape(self.cursor))
        self.stored, self.prefixes = set(), {}
        for a in self.arms:
            advanced, hit, follow = False, False, None
            for link in P.chain(self.arms, a.index):
                for st in link.body:
                    if st.kind == 'if' and P.terminates(P.as_list(st.body)) and st.orelse is None:
                        f = self._followers(st.text)
                        if advanced and f and follow is None:
                            follow = f
                        continue            # a branch that always leaves does not affect what flows on
                    txt = ' '.join(s.text for s in P.walk([st]))
                    if store.search(txt):
                        hit = True
                        break
                    if P.advances(txt, self.cursor):
                        advanced = True
                if hit:
                    break
            if not hit:
                continue
            for lab in a.labels:
                if isinstance(lab, str) and len(lab) == 1 and lab != '\0':
                    if advanced:
                        self.prefixes[lab] = follow
                    else:
                        self.stored.add(lab)

    def _followers(self, cond):
        """`*ts != 'f' && *ts != 'd' && ...` -> {'f','d',...}; None when the condition has another shape."""
        parts = [p.strip() for p in cond.split('&&')]
        out = set()
        for p in parts:
            m = re.fullmatch(r"\(?\s*\*\s*%s\s*!=\s*('(?:\\.|[^'])+')\s*\)?" % re.escape(self.cursor), p)
            if not m:
                return None
            out.add(P.char_value(m.group(1)))
        return out


def _struct_kind(c):
    """'int-signed' | 'int-unsigned' | 'float' | 'other' | None (unknown to struct in standard mode)."""
    try:
        n = struct.calcsize('=' + c)
        v = struct.unpack('=' + c, bytes(n))[0]
    except struct.error:
        return None
    if isinstance(v, bool):
        return 'int-unsigned'       # '?' is C99 _Bool, "an unsigned integer type" (C99 6.2.5p6); numpy exports bool_ arrays with it
    if not isinstance(v, (int, float)):
        return 'other'
    if isinstance(v, float):
        return 'float'
    try:
        struct.pack('=' + c, -1)
        return 'int-signed'
    except struct.error:
        return 'int-unsigned'


def _nominal(expr):
    """Return expression of a size table -> (plain value, complex value) for int literals / `is_complex ? a : b`."""
    v = P.int_value(expr)
    if v is not None:
        return v, v
    t = P.split_ternary(expr)
    if t and re.fullmatch(r'is_complex', t[0]):
        a, b = P.int_value(t[1]), P.int_value(t[2])
        if a is not None and b is not None:
            return b, a
    return None


# ---------------------------------------------------------------------------------------------- rules
def rule_tab(tabs, describe, scanner, line_of):
    r = Rule('C17-TAB', 'the per-format-character tables of Buffer.c handle one common character set; DescribeTypeChar covers it; every type character stored by CheckString is in it', floor=110)
    union = set()
    for t in tabs:
        union |= t.chars
    for t in tabs:
        others = [o for o in tabs if o is not t]
        for c in sorted(union):
            r.inst('%s:%s' % (_short(t.name), c), sample='%s handles %r' % (_short(t.name), c))
            if c not in t.chars:
                have = [_short(o.name) for o in others if c in o.chars]
                r.violate('%s:%s' % (_short(t.name), _show(c)), BUFFER_C, line_of[t.name],
                          "format character '%s' is handled by %s but %s has no case for it: a buffer whose format uses '%s' hits "
                          "\"Unexpected format string character\" half way through the check" % (_show(c), ', '.join(have), t.name, _show(c)))
    for c in sorted(union):
        r.inst('Describe:%s' % c)
        if c not in describe.chars:
            r.violate('%s:%s' % (_short(describe.name), _show(c)), BUFFER_C, line_of[describe.name],
                      "format character '%s' is sized/grouped by the TypeCharTo* tables but %s has no case for it: mismatch errors call it \"unparsable format string\""
                      % (_show(c), describe.name))
    common = set(union)
    for t in tabs:
        common &= t.chars
    for c in sorted(scanner.stored):
        r.inst('CheckString:%s' % c, sample='CheckString stores %r as enc_type' % c)
        if c not in common:
            lacking = [_short(t.name) for t in tabs if c not in t.chars]
            r.violate('%s:%s' % (_short(scanner.name), _show(c)), BUFFER_C, line_of[scanner.name],
                      "%s accepts '%s' as a type character but %s cannot size/group it: a matching buffer is rejected with \"Unexpected format string character\""
                      % (scanner.name, _show(c), ', '.join(lacking)))
    return r


def rule_ref(std, native, group, scanner, line_of):
    r = Rule('C17-REF', 'TypeCharToStandardSize / TypeCharToGroup agree with the struct module; the characters admitted after a complex prefix are the ones whose group depends on is_complex', floor=42)
    for c in sorted(std.chars):
        kind = _struct_kind(c)
        expr = std.ret(c)
        if kind is None or expr is None:
            continue
        nom = _nominal(expr)
        if nom is None:
            continue
        want = struct.calcsize('=' + c)
        r.inst('std:%s' % c, sample="StandardSize('%s') = %s ; struct.calcsize('=%s') = %d" % (c, expr, c, want))
        if nom[0] != want:
            r.violate('TypeCharToStandardSize:%s:size' % _show(c), BUFFER_C, line_of[std.name],
                      "TypeCharToStandardSize('%s') returns %d but struct.calcsize('=%s') is %d: buffers in standard ('=', '<', '>') mode are compared with the wrong item size"
                      % (_show(c), nom[0], c, want))
        if nom[1] != nom[0] and nom[1] != 2 * nom[0]:
            r.violate('TypeCharToStandardSize:%s:complex' % _show(c), BUFFER_C, line_of[std.name],
                      "TypeCharToStandardSize('%s') returns %d for the complex case, expected twice the real size %d" % (_show(c), nom[1], nom[0]))
        if kind != 'float' and nom[1] != nom[0]:
            r.violate('TypeCharToStandardSize:%s:complex' % _show(c), BUFFER_C, line_of[std.name],
                      "TypeCharToStandardSize('%s') depends on is_complex although '%s' is not a floating point format" % (_show(c), _show(c)))
    complex_chars = set()
    for c in sorted(group.chars):
        expr = group.ret(c)
        if expr is None:
            continue
        t = P.split_ternary(expr)
        if t and re.fullmatch(r'is_complex', t[0]):
            complex_chars.add(c)
        kind = _struct_kind(c)
        if kind not in ('int-signed', 'int-unsigned', 'float'):
            continue
        r.inst('group:%s' % c, sample="Group('%s') = %s ; struct says %s" % (c, expr, kind))
        if kind == 'float':
            ok = bool(t) and re.fullmatch(r'is_complex', t[0]) and P.char_literals(t[1]) == ['C'] and P.char_literals(t[2]) == ['R']
            if not ok:
                r.violate('TypeCharToGroup:%s' % _show(c), BUFFER_C, line_of[group.name],
                          "TypeCharToGroup('%s') returns %s; a floating point format must be 'C' when is_complex else 'R', otherwise float/complex buffers never match their dtype" % (_show(c), expr))
        else:
            want = 'I' if kind == 'int-signed' else 'U'
            if P.char_literals(expr) != [want] or t:
                r.violate('TypeCharToGroup:%s' % _show(c), BUFFER_C, line_of[group.name],
                          "TypeCharToGroup('%s') returns %s but '%s' is a%s integer format in the struct module (expected '%s'): %s buffers are matched against the wrong signedness"
                          % (_show(c), expr, _show(c), ' signed' if want == 'I' else 'n unsigned', want, 'signed' if want == 'I' else 'unsigned'))
    # native table: complex doubling for exactly the same characters
    for c in sorted(native.chars):
        expr = native.ret(c)
        if expr is None:
            continue
        dep = 'is_complex' in expr
        r.inst('native-complex:%s' % c)
        if dep != (c in complex_chars):
            r.violate('TypeCharToNativeSize:%s:complex' % _show(c), BUFFER_C, line_of[native.name],
                      "TypeCharToNativeSize('%s') %s on is_complex but TypeCharToGroup('%s') %s: complex buffers of this format get the wrong item size"
                      % (_show(c), 'depends' if dep else 'does not depend', _show(c), 'does' if c in complex_chars else 'does not'))
    if not scanner.prefixes:
        raise AnalysisError('%s: complex prefix arm (Z) not recognised' % scanner.name)
    for pre, follow in sorted(scanner.prefixes.items()):
        if follow is None:
            raise AnalysisError("%s: cannot read the set of characters admitted after prefix '%s'" % (scanner.name, pre))
        for c in sorted(follow | complex_chars):
            r.inst('prefix:%s%s' % (pre, c), sample="'%s%s' admitted by CheckString / complex-capable in TypeCharToGroup" % (pre, c))
            if c not in follow:
                r.violate("CheckString:%s:%s" % (pre, _show(c)), BUFFER_C, line_of[scanner.name],
                          "TypeCharToGroup treats '%s' as complex-capable but %s rejects '%s%s': complex buffers of that format cannot be acquired" % (_show(c), scanner.name, pre, _show(c)))
            elif c not in complex_chars:
                r.violate("CheckString:%s:%s" % (pre, _show(c)), BUFFER_C, line_of[scanner.name],
                          "%s admits '%s%s' but TypeCharToGroup('%s') does not depend on is_complex: the complex flag is silently ignored for that format" % (scanner.name, pre, _show(c), _show(c)))
    return r


PROBE = re.compile(r'typedef\s+struct\s*\{([^{}]*)\}\s*(\w+)\s*;')


def _probe_structs(text):
    """typedef struct { A a; B b; } name;  ->  {name: [(type, member), ...]}"""
    out = {}
    for m in PROBE.finditer(text):
        members = []
        for decl in m.group(1).split(';'):
            decl = decl.strip()
            if not decl:
                continue
            mm = re.fullmatch(r'(.*?)(\w+)', decl, re.S)
            if not mm:
                members = None
                break
            members.append((_ctype(mm.group(1)), mm.group(2)))
        if members:
            out[m.group(2)] = members
    return out


def _ctype(t):
    return re.sub(r'\s*\*\s*', '*', ' '.join(t.split()))


SIZEOF = r'sizeof\s*\(\s*([^()]+?)\s*\)'


def rule_nat(std, native, align, pad, structs, line_of):
    r = Rule('C17-NAT', 'signed/unsigned sibling formats share one size/alignment/padding expression; the type measured by TypeCharToNativeSize is the member type of the probe struct used by TypeCharToAlignment / TypeCharToPadding', floor=49)
    ints = [c for c in sorted(native.chars) if (_struct_kind(c) or '').startswith('int-')]
    pairs = [(a, b) for a in ints for b in ints if a != b and a.lower() == b.lower() and a.islower()]
    for t in (std, native, align, pad):
        for a, b in pairs:
            ea, eb = t.ret(a), t.ret(b)
            if ea is None or eb is None:
                continue
            r.inst('pair:%s:%s%s' % (_short(t.name), a, b), sample="%s('%s') == %s('%s') == %s" % (_short(t.name), a, _short(t.name), b, ea))
            if ea != eb:
                r.violate('%s:%s/%s' % (_short(t.name), a, b), BUFFER_C, line_of[t.name],
                          "%s returns %s for '%s' but %s for '%s': a signed type and its unsigned sibling have the same size and alignment, so one of the two formats is mis-sized"
                          % (t.name, ea, a, eb, b))
    for c in sorted(native.chars):
        en = native.ret(c)
        if en is None:
            continue
        if P.int_value(en) is not None:
            measured = None
        else:
            m = re.match(SIZEOF, en)
            if not m:
                continue
            measured = _ctype(m.group(1))
        for t, char_first in ((align, True), (pad, False)):
            e = t.ret(c)
            if e is None:
                continue
            key = 'probe:%s:%s' % (_short(t.name), c)
            if measured is None:
                if P.int_value(e) is None and not re.match(SIZEOF, e):
                    continue
                r.inst(key, sample="%s('%s') = %s for a %s-byte format" % (_short(t.name), c, e, en))
                if P.int_value(e) != P.int_value(en) or P.int_value(en) != 1:
                    if P.int_value(en) == 1:
                        r.violate('%s:%s' % (_short(t.name), _show(c)), BUFFER_C, line_of[t.name],
                                  "%s('%s') is %s but the format is a single byte (TypeCharToNativeSize returns 1): offsets of struct fields after it are computed wrongly" % (t.name, _show(c), e))
                continue
            m = re.fullmatch(SIZEOF + r'\s*-\s*' + SIZEOF, e)
            if not m:
                continue
            sname, sub = m.group(1).strip(), _ctype(m.group(2))
            r.inst(key, sample="%s('%s') = %s ; NativeSize measures %s" % (_short(t.name), c, e, measured))
            if sub != measured:
                r.violate('%s:%s' % (_short(t.name), _show(c)), BUFFER_C, line_of[t.name],
                          "%s('%s') subtracts sizeof(%s) but TypeCharToNativeSize('%s') measures %s: alignment/padding of '%s' fields is computed for another C type, so struct dtypes are rejected or mis-read"
                          % (t.name, _show(c), sub, _show(c), measured, _show(c)))
                continue
            mem = structs.get(sname)
            if mem is None:
                r.violate('%s:%s:probe' % (_short(t.name), _show(c)), BUFFER_C, line_of[t.name], "%s('%s') uses probe struct %s which is not defined in the section" % (t.name, _show(c), sname))
                continue
            types = [ty for ty, _ in mem]
            want = ['char', measured] if char_first else [measured, 'char']
            if types != want:
                r.violate('%s:%s' % (sname, _show(c)), BUFFER_C, line_of[t.name],
                          "probe struct %s has members (%s) but %s('%s') needs (%s) to measure the %s of %s: struct field offsets of that format are computed wrongly"
                          % (sname, ', '.join(types), t.name, _show(c), ', '.join(want), 'alignment' if char_first else 'tail padding', measured))
    return r


def produced_letters(ctx):
    rel = 'Cython/Compiler/Buffer.py'
    fn = tables.find_function(ctx.parse(rel), 'get_type_information_cname')
    if fn is None:
        raise AnalysisError('Buffer.get_type_information_cname vanished')
    # the variable whose value fills the typegroup slot: the one assigned quoted C character constants
    cands = {}
    for n in ast.walk(fn):
        if isinstance(n, ast.Assign) and len(n.targets) == 1 and isinstance(n.targets[0], ast.Name):
            consts = [c.value for c in ast.walk(n.value) if isinstance(c, ast.Constant) and isinstance(c.value, str)]
            letters = [l for s in consts for l in P.char_literals(s)]
            if letters and all(re.fullmatch(r"[^']*('.'[^']*)+", s) or not P.char_literals(s) for s in consts):
                cands.setdefault(n.targets[0].id, []).append((letters, n.lineno))
    if not cands:
        raise AnalysisError('get_type_information_cname: no variable is assigned C character constants')
    var = max(cands, key=lambda k: len(cands[k]))
    out = {}
    for letters, line in cands[var]:
        for l in letters:
            out.setdefault(l, line)
    return rel, var, out


class Exporter:
    """__Pyx_TypeInfoToFormat read as: group letter -> [(size guard or None, expression text)] + delegation C -> R."""

    def __init__(self, d):
        self.name = d.name
        stmts = P.parse_body(d.body)
        sw = P.find_switch(stmts, r'\w+\s*->\s*typegroup')
        if sw is None:
            raise AnalysisError('%s: switch over type->typegroup not found' % d.name)
        self.arms = P.switch_arms(sw)
        self.labels = {l for a in self.arms for l in a.labels if isinstance(l, str)}
        self.emits = {}
        self.delegates = {}
        for a in self.arms:
            rec = []
            for link in P.chain(self.arms, a.index):
                self._visit(link.body, None, rec)
            deleg = None
            for link in P.chain(self.arms, a.index):
                for st in P.walk(link.body):
                    m = re.search(r'\.\s*typegroup\s*=\s*(\'.\')', st.text) if st.kind == 'simple' else None
                    if m:
                        deleg = P.char_value(m.group(1))
            for lab in a.labels:
                self.emits[lab] = rec
                if deleg:
                    self.delegates[lab] = deleg

    def _visit(self, stmts, size, rec):
        for st in stmts:
            if st.kind == 'if':
                m = re.fullmatch(r'\(?\s*size\s*==\s*(\d+)\s*\)?', st.text)
                self._visit(P.as_list(st.body), int(m.group(1)) if m else None, rec)
                if st.orelse is not None:
                    self._visit(P.as_list(st.orelse), None, rec)
            elif st.kind == 'block':
                self._visit(st.body, size, rec)
            elif st.kind == 'simple':
                m = re.match(r'\*\s*buf\s*(\+\+)?\s*=\s*(.+)$', st.text)
                if m and P.char_literals(m.group(2)):
                    rec.append((size, m.group(2), bool(m.group(1))))


def rule_grp(ctx, group, std, scanner, exporter, fmt_section_text, section_funcs, line_of):
    r = Rule('C17-GRP', 'type-group letters emitted by Buffer.get_type_information_cname are matched by the format checker and consumed by the format exporter; exported format characters are accepted back with the same group and size; every letter a reader tests for is written', floor=40)
    rel, var, produced = produced_letters(ctx)
    if len(produced) < 5:
        raise AnalysisError('only %d type-group letters found in get_type_information_cname' % len(produced))
    returned = {l for c in group.chars for e in group.map[c] for l in P.char_literals(e)}
    structural = set()
    for d in section_funcs:
        for m in re.finditer(r"typegroup\s*[!=]=\s*('(?:\\.|[^'])')", d.body):
            structural.add(P.char_value(m.group(1)))
    pyx_letters = {P.char_value(x) for x in re.findall(r"typegroup\s*[!=]=\s*('(?:\\.|[^'])')", fmt_section_text)}
    for l, line in sorted(produced.items()):
        r.inst('checker:%s' % l, sample="letter '%s' emitted by Buffer.py; checker returns %s / compares %s" % (l, sorted(returned), sorted(structural)))
        if l not in returned | structural:
            r.violate("Buffer.get_type_information_cname:'%s':checker" % l, rel, line,
                      "get_type_information_cname emits type group '%s' but __Pyx_BufFmt_TypeCharToGroup never returns it and the format checker never tests for it: "
                      "no buffer can ever be acquired for that dtype" % l)
        r.inst('exporter:%s' % l)
        if l not in exporter.labels | pyx_letters:
            r.violate("Buffer.get_type_information_cname:'%s'" % l, rel, line,
                      "get_type_information_cname emits type group '%s' but neither %s (cases %s) nor format_from_typeinfo (tests %s) handles it: "
                      "a cython.array created for that dtype (<T[:n]> pointer) exports an empty format string and cannot be acquired as T[:] again"
                      % (l, exporter.name, sorted(exporter.labels), sorted(pyx_letters)))
    # reader side: an equality test of typegroup against a letter nobody writes is dead, and so is the handling it guards (struct descent, char exemption, ...)
    cmp_body = ''.join(d.body for d in ctx.cat.decls.get('__pyx_typeinfo_cmp', []) if d.kind == 'func' and d.body)
    readers = [(d.name, d.body, d.line, BUFFER_C) for d in section_funcs] + [('__pyx_typeinfo_cmp', cmp_body, line_of.get('__pyx_typeinfo_cmp', 0), BUFFER_C),
                                                                              ('format_from_typeinfo', fmt_section_text, 0, 'Cython/Utility/MemoryView.pyx')]
    for fname, body, line, frel in readers:
        for m in re.finditer(r"typegroup\s*[!=]=\s*('(?:\\.|[^'\\])')", body):
            l = P.char_value(m.group(1))
            r.inst('reader:%s:%s' % (fname, l), sample="%s tests typegroup against '%s'" % (fname, l))
            if l not in produced:
                r.violate("%s:typegroup=='%s'" % (_short(fname), _show(l)), frel, line,
                          "%s compares a type descriptor's typegroup with '%s', a letter Buffer.get_type_information_cname never writes (it writes %s): the test is always false and "
                          "the handling it guards (e.g. the descent into struct fields) never happens, so those dtypes cannot be acquired" % (fname, _show(l), sorted(produced)))
    # round trip of the exported characters
    for l in sorted(set(produced) & exporter.labels):
        recs = exporter.emits.get(l, [])
        target = exporter.delegates.get(l)
        for size, expr, is_prefix in recs:
            t = P.split_ternary(expr)
            if t and 'is_unsigned' in t[0]:
                cases = [(P.char_literals(t[1]), 'U'), (P.char_literals(t[2]), 'I')]
            else:
                cases = [(P.char_literals(expr), None)]
            for chars, want in cases:
                if len(chars) != 1:
                    continue
                c = chars[0]
                if want is not None and want != l and not (l in ('I', 'U')):
                    continue
                key = 'export:%s:%s' % (l, c)
                r.inst(key, sample="group '%s' size %s exports '%s'" % (l, size, c))
                vkey = "%s:'%s':%s" % (_short(exporter.name), l, _show(c))
                if is_prefix:
                    if c not in scanner.prefixes:
                        r.violate(vkey, BUFFER_C, line_of[exporter.name],
                                  "%s emits prefix '%s' for type group '%s' but %s has no prefix arm for it: the exported format is rejected on re-acquisition" % (exporter.name, c, l, scanner.name))
                    continue
                if c not in scanner.stored:
                    r.violate(vkey, BUFFER_C, line_of[exporter.name],
                              "%s emits format character '%s' for type group '%s' but %s does not accept it as a type character: buffers exported by cython.array are rejected by Cython's own checker"
                              % (exporter.name, _show(c), l, scanner.name))
                    continue
                got = set(P.char_literals(group.ret(c) or ''))
                need = want if want is not None else l
                if need not in got:
                    r.violate(vkey, BUFFER_C, line_of[exporter.name],
                              "%s emits '%s' for %s type group '%s' but TypeCharToGroup('%s') returns %s: the exported format does not match the dtype it was made from"
                              % (exporter.name, _show(c), 'an unsigned' if want == 'U' else 'a signed' if want == 'I' else 'the', need, _show(c), sorted(got)))
                if size is not None:
                    nom = _nominal(std.ret(c) or '')
                    if nom is not None and nom[0] != size:
                        r.violate(vkey + ':size', BUFFER_C, line_of[exporter.name],
                                  "%s emits '%s' for items of %d bytes but the standard size of '%s' is %d: the exporter's itemsize contradicts its format" % (exporter.name, _show(c), size, _show(c), nom[0]))
        if target is not None:
            r.inst('delegate:%s->%s' % (l, target))
            if target not in exporter.labels:
                r.violate("%s:'%s':delegate" % (_short(exporter.name), l), BUFFER_C, line_of[exporter.name],
                          "%s rewrites type group '%s' to '%s' and recurses, but has no case '%s'" % (exporter.name, l, target, target))
            else:
                for size, expr, is_prefix in exporter.emits.get(target, []):
                    for c in P.char_literals(expr):
                        r.inst('delegate:%s:%s' % (l, c))
                        if l not in set(P.char_literals(group.ret(c) or '')):
                            r.violate("%s:'%s':%s" % (_short(exporter.name), l, _show(c)), BUFFER_C, line_of[exporter.name],
                                      "%s exports group '%s' through the '%s' characters, but TypeCharToGroup('%s') never returns '%s'" % (exporter.name, l, target, _show(c), l))
    return r


def _scan_findings(fname, stmts):
    """-> (instances, violations) for the loops of one scanner function; violations are (key, message)."""
    inst, bad = [], []
    for loop, p in P.cursor_loops(stmts):
        body_txt = ' '.join(s.text for s in P.walk(P.as_list(loop.body)))
        if not P.advances(body_txt + ' ' + (loop.text if loop.kind == 'for' else ''), p):
            continue
        cond = loop.text if loop.kind != 'for' else (loop.text.split(';') + ['', ''])[1]
        key = '%s:%s(%s):NUL' % (fname, loop.kind, re.sub(r'\s+', '', cond))
        inst.append(key)
        if P.eval_at_nul(cond, p) is True:
            bad.append((key, "loop `%s (%s)` in %s keeps advancing %s when *%s is the terminating NUL: an unterminated construct in the exporter's format string is read past its end "
                             "(crash instead of ValueError)" % (loop.kind, cond, fname, p, p)))
    for loop in P.walk(stmts):
        if loop.kind == 'for':
            parts = (loop.text.split(';') + ['', ''])[:3]
            if len(loop.text.split(';')) != 3 or parts[2].strip():
                continue
            cond = parts[1].strip()
        elif loop.kind in ('while', 'do'):
            cond = loop.text
        else:
            continue
        if P.has_effect(cond):
            continue
        key = '%s:%s(%s)' % (fname, loop.kind, re.sub(r'\s+', '', cond))
        inst.append(key + ':progress')
        for ex in P.stuck_exits(loop):
            if ex is loop:
                bad.append((key + ':end-of-body', "the body of the `%s (%s)` loop in %s can complete without any state change: the loop repeats forever "
                                                  "(buffer acquisition hangs instead of raising ValueError)" % (loop.kind, cond, fname)))
            else:
                bad.append((key + ':continue', "a `continue` in the `%s (%s)` loop of %s is reached on a path without any state change (the cursor is not advanced): "
                                               "the same character is examined forever, so buffer acquisition hangs instead of raising ValueError" % (loop.kind, cond, fname)))
    # endless loops driven by a switch over the cursor need a returning NUL arm
    for loop in P.walk(stmts):
        if loop.kind not in ('while', 'for', 'do') or '*' in loop.text:
            continue
        for sw in P.walk(P.as_list(loop.body)):
            m = re.fullmatch(r'\*\s*(\w+)', sw.text) if sw.kind == 'switch' else None
            if not m:
                continue
            p = m.group(1)
            arms = P.switch_arms(sw)
            key = '%s:switch(*%s):NUL' % (fname, p)
            inst.append(key)
            nul = [a for a in arms if '\0' in a.labels]
            if not nul:
                bad.append((key, "the scanner switch over *%s in %s has no `case 0`: the end of the format string is not recognised" % (p, fname)))
                continue
            body = [s for link in P.chain(arms, nul[0].index) for s in link.body]
            flat = list(P.walk(body))
            ok = P.terminates(body) and not any(s.kind == 'simple' and re.match(r'(break|continue)\b', s.text) for s in flat) \
                and not any(s.kind in ('simple', 'if') and P.advances(s.text, p) for s in flat)
            if not ok:
                bad.append((key, "the `case 0` arm of the scanner switch in %s does not return on every path (or moves %s): scanning continues at/after the terminating NUL" % (fname, p)))
    return inst, bad


def rule_scan(section_funcs):
    r = Rule('C17-SCAN', 'cursor loops of the format scanner are false at NUL; no loop of the scanner has a back edge reachable without any state change; the main switch returns at NUL', floor=9)
    for d in section_funcs:
        inst, bad = _scan_findings(d.name, P.parse_body(d.body))
        for k in inst:
            r.inst(k, sample=k)
        for k, msg in bad:
            r.violate(k, BUFFER_C, d.line, msg)
    pc = P.parse_body("{ while (*ts && *ts != ')') { switch (*ts) { case ' ': continue; default: break; } n = f(&ts); } while (*q != ':') ++q; }")
    _, bad = _scan_findings('pc', pc)
    r.positive_control(sorted(k.rsplit(':', 1)[1] for k, _ in bad) == ['NUL', 'continue'], 'continue without advance + loop running over NUL')
    return r


def _guard_ifs(stmts):
    return [st for st in P.walk(stmts) if st.kind == 'if' and st.orelse is None and P.terminates(P.as_list(st.body))
            or st.kind == 'if' and P.terminates(P.as_list(st.body))]


def _val_findings(d):
    """-> list of (key suffix, message) of missing guards in one acquisition entry point."""
    stmts = P.parse_body(d.body)
    names = d.param_names()
    types = d.param_types()
    dtype = [n for n, t in zip(names, types) if n and '__Pyx_TypeInfo' in t]
    ints = [n for n, t in zip(names, types) if n and re.fullmatch(r'int', t.strip())]
    out = []
    if not dtype:
        raise AnalysisError('%s: no __Pyx_TypeInfo parameter' % d.name)
    dt = dtype[0]
    guards = _guard_ifs(stmts)
    # (1) format
    call = re.compile(r'__Pyx_BufFmt_CheckString\s*\(')
    fmt_ok = False
    for g in guards:
        m = call.search(g.text)
        if not m:
            continue
        end = P._match(g.text, m.end() - 1, '(', ')')
        args = [a.strip() for a in g.text[m.end():end - 1].split(',')]
        before = g.text[:m.start()]
        after = g.text[end:]
        negated = bool(re.search(r'!\s*$', before)) or bool(re.match(r'\s*==\s*(NULL|0)\b', after))
        if negated and len(args) == 2 and re.search(r'->\s*format$', args[1]):
            fmt_ok = True
    if not fmt_ok:
        out.append(('format', "%s does not fail when __Pyx_BufFmt_CheckString rejects buf->format (no `if (!__Pyx_BufFmt_CheckString(&ctx, ...->format)) <fail>`): "
                              "buffers with an incompatible item format are accepted" % d.name))
    init_ok = False
    for st in P.walk(stmts):
        if st.kind == 'simple':
            m = re.match(r'__Pyx_BufFmt_Init\s*\((.*)\)$', st.text)
            if m:
                a = [x.strip() for x in m.group(1).split(',')]
                if len(a) == 3 and a[2] == dt:
                    init_ok = True
    if not init_ok:
        out.append(('init', "%s does not initialise the format context with its dtype parameter `%s` (__Pyx_BufFmt_Init(&ctx, stack, %s)) before checking the format" % (d.name, dt, dt)))
    # (2) ndim
    nd_ok = False
    for g in guards:
        for n in ints:
            if re.search(r'->\s*ndim\s*!=\s*%s\b' % re.escape(n), g.text) or re.search(r'\b%s\s*!=\s*\w+\s*->\s*ndim\b' % re.escape(n), g.text):
                nd_ok = True
    if not nd_ok:
        out.append(('ndim', "%s has no failing `buf->ndim != <expected ndim parameter>` test: buffers with the wrong number of dimensions are accepted and indexed out of bounds" % d.name))
    # (3) itemsize
    is_ok = False
    for g in guards:
        if re.search(r'->\s*itemsize\s*!=\s*%s\s*->\s*size\b' % re.escape(dt), g.text) or re.search(r'\b%s\s*->\s*size\s*!=\s*(\([^()]*\)\s*)?\w+\s*->\s*itemsize\b' % re.escape(dt), g.text):
            is_ok = True
    if not is_ok:
        out.append(('itemsize', "%s has no failing `buf->itemsize != %s->size` test: buffers whose items have another size than the declared type are accepted" % (d.name, dt)))
    return out


def rule_val(ctx):
    r = Rule('C17-VAL', 'every acquisition entry point (caller of __Pyx_BufFmt_CheckString outside the checker) compares ndim and itemsize with the declared type and fails on a rejected format', floor=8)
    entry = []
    for v in ctx.cat.decls.values():
        for d in v:
            if d.kind == 'func' and d.body and re.search(r'__Pyx_BufFmt_CheckString\s*\(', d.body) and not (d.file == 'Buffer.c' and d.section.name == SECTION):
                entry.append(d)
    if len(entry) < 2:
        raise AnalysisError('only %d acquisition entry points call __Pyx_BufFmt_CheckString' % len(entry))
    for d in sorted(entry, key=lambda d: d.name):
        bad = dict(_val_findings(d))
        for k in ('format', 'init', 'ndim', 'itemsize'):
            r.inst('%s:%s' % (d.name, k), sample='%s checks %s' % (d.name, k))
            if k in bad:
                r.violate('%s:%s' % (d.name, k), 'Cython/Utility/' + d.file, d.line, bad[k])

    class _D:
        name = 'pc'
        body = "{ if (buf->ndim != nd) goto fail; __Pyx_BufFmt_Init(&ctx, stack, dtype); __Pyx_BufFmt_CheckString(&ctx, buf->format); if (buf->itemsize < dtype->size) goto fail; return 0; fail: return -1; }"

        @staticmethod
        def param_names():
            return ['buf', 'dtype', 'nd']

        @staticmethod
        def param_types():
            return ['Py_buffer *', 'const __Pyx_TypeInfo *', 'int']
    r.positive_control({k for k, _ in _val_findings(_D)} == {'format', 'itemsize'}, 'unchecked CheckString result + weakened itemsize test')
    return r


def run(ctx):
    funcs = _section_funcs(ctx)
    line_of = {d.name: d.line for d in funcs}
    tabs = []
    for d in funcs:
        if re.fullmatch(r'__Pyx_BufFmt_TypeCharTo\w+', d.name):
            tabs.append(P.Table(d.name, d.body, on=re.escape(d.param_names()[0] or 'ch')))
    if len(tabs) < 5:
        raise AnalysisError('only %d __Pyx_BufFmt_TypeCharTo* tables found' % len(tabs))
    byname = {_short(t.name): t for t in tabs}
    for need in ('TypeCharToStandardSize', 'TypeCharToNativeSize', 'TypeCharToAlignment', 'TypeCharToPadding', 'TypeCharToGroup'):
        if need not in byname:
            raise AnalysisError('__Pyx_BufFmt_%s vanished' % need)
    std, native, align, pad, group = (byname[k] for k in ('TypeCharToStandardSize', 'TypeCharToNativeSize', 'TypeCharToAlignment', 'TypeCharToPadding', 'TypeCharToGroup'))
    dd = _func(ctx, '__Pyx_BufFmt_DescribeTypeChar')
    describe = P.Table(dd.name, dd.body, on=re.escape(dd.param_names()[0] or 'ch'))
    cs = _func(ctx, '__Pyx_BufFmt_CheckString')
    scanner = Scanner(cs.name, cs.body)
    if len(scanner.stored) < 10:
        raise AnalysisError('CheckString: only %d stored type characters recognised' % len(scanner.stored))
    line_of.setdefault(dd.name, dd.line)
    line_of.setdefault(cs.name, cs.line)

    rules = []
    r = rule_tab(tabs, describe, scanner, line_of)
    # embedded positive example: a character present in one table only
    t1 = P.Table('__Pyx_BufFmt_TypeCharToA', "{ switch (ch) { case 'a': case 'e': return 1; default: return 0; } }")
    t2 = P.Table('__Pyx_BufFmt_TypeCharToB', "{ switch (ch) { case 'a': return 1; default: return 0; } }")
    pcs = Scanner('pc', "{ while (1) { switch (*ts) { case 0: return ts; case 'a': case 'z': ctx->enc_type = *ts; ++ts; break; default: return NULL; } } }")
    pr = rule_tab([t1, t2], t1, pcs, {t1.name: 0, t2.name: 0, 'pc': 0})
    r.positive_control({f.construct for f in pr.findings} == {'TypeCharToB:e', 'pc:z'}, "character 'e' in one table only; 'z' stored but unknown")
    rules.append(r)

    r = rule_ref(std, native, group, scanner, line_of)
    g2 = P.Table('__Pyx_BufFmt_TypeCharToGroup', "{ switch (ch) { case 'h': case 'H': return 'I'; case 'f': return (is_complex ? 'C' : 'R'); case 'd': return 'R'; default: return 0; } }")
    s2 = P.Table('__Pyx_BufFmt_TypeCharToStandardSize', "{ switch (ch) { case 'h': case 'H': return 4; case 'f': return (is_complex ? 8 : 4); case 'd': return 8; default: return 0; } }")
    n2 = P.Table('__Pyx_BufFmt_TypeCharToNativeSize', "{ switch (ch) { case 'h': case 'H': return sizeof(short); case 'f': return sizeof(float) * (is_complex ? 2 : 1); case 'd': return sizeof(double); default: return 0; } }")
    pcs2 = Scanner('pc', "{ while (1) { switch (*ts) { case 0: return ts; case 'Z': ++ts; if (*ts != 'f' && *ts != 'd') { return NULL; } CYTHON_FALLTHROUGH; case 'f': case 'd': ctx->enc_type = *ts; ++ts; break; default: return NULL; } } }")
    pr = rule_ref(s2, n2, g2, pcs2, {g2.name: 0, s2.name: 0, n2.name: 0, 'pc': 0})
    r.positive_control({f.construct for f in pr.findings} >= {'TypeCharToStandardSize:h:size', 'TypeCharToGroup:H', 'TypeCharToGroup:d', 'CheckString:Z:d'},
                       'wrong standard size, unsigned classified signed, float without complex, prefix follower mismatch')
    rules.append(r)

    sec = ctx.cat.section('Buffer.c', SECTION, 'impl')
    if sec is None:
        raise AnalysisError('Buffer.c::%s section missing' % SECTION)
    structs = _probe_structs(sec.text or P.norm(sec.raw))
    if len(structs) < 10:
        raise AnalysisError('only %d alignment/padding probe structs found in Buffer.c::%s' % (len(structs), SECTION))
    r = rule_nat(std, native, align, pad, structs, line_of)
    a2 = P.Table('__Pyx_BufFmt_TypeCharToAlignment', "{ switch (ch) { case 'h': return sizeof(st_short) - sizeof(short); case 'H': return sizeof(st_int) - sizeof(int); case 'f': return sizeof(st_float) - sizeof(float); default: return 0; } }")
    pr = rule_nat(s2, n2, a2, a2, _probe_structs('typedef struct { char c; short x; } st_short; typedef struct { char c; int x; } st_int; typedef struct { char c; double x; } st_float;'),
                  {a2.name: 0, s2.name: 0, n2.name: 0})
    r.positive_control({f.construct for f in pr.findings} >= {'TypeCharToAlignment:h/H', 'TypeCharToAlignment:H', 'st_float:f'}, 'sibling mismatch, wrong measured type, wrong probe member')
    rules.append(r)

    exporter = Exporter(_func(ctx, '__Pyx_TypeInfoToFormat'))
    line_of[exporter.name] = _func(ctx, '__Pyx_TypeInfoToFormat').line
    fsec = ctx.cat.section('MemoryView.pyx', 'BufferFormatFromTypeInfo')
    if fsec is None or 'typegroup' not in fsec.raw:
        raise AnalysisError('MemoryView.pyx::BufferFormatFromTypeInfo (format_from_typeinfo) not found')
    rules.append(rule_grp(ctx, group, std, scanner, exporter, fsec.raw, funcs, line_of))
    rules.append(rule_scan(funcs))
    rules.append(rule_val(ctx))
    from ..rules import dims
    rules.append(dims.rule_dims(ctx))
    from ..rules import sC17
    rules.append(sC17.rule_order(ctx, _func))
    # round 4 (rules/sC17.py, second half)
    entry = sorted((d for v in ctx.cat.decls.values() for d in v if d.kind == 'func' and d.body and re.search(r'__Pyx_BufFmt_CheckString\s*\(', d.body)
                    and not (d.file == 'Buffer.c' and d.section.name == SECTION)), key=lambda d: d.name)
    rules.append(sC17.rule_skip(ctx, entry))
    rules.append(sC17.rule_end(ctx, _func))
    rules.append(sC17.rule_count(ctx, funcs))
    rules.append(sC17.rule_state(ctx, funcs))
    returned = {l for c in group.chars for e in group.map[c] for l in P.char_literals(e)}
    rules.append(sC17.rule_chunk(ctx, _func, set(produced_letters(ctx)[2]), returned))
    rules.append(sC17.rule_cmp(ctx, _func, funcs))
    rules.append(sC17.rule_cmptab(ctx, _func, set(produced_letters(ctx)[2])))
    rules.append(sC17.rule_cmpdim(ctx, _func, set(produced_letters(ctx)[2])))
    # armed after the repair a5db7cc86 (FINDING_2 of strengthening session H2, round 5): sC17.rule_cmpdim (C17-CMPDIM) reported the unmodified tree - the char exemption of __pyx_typeinfo_cmp
    # returns `a->size == b->size` before the dimensionality / array extents are compared, so `char c[2]` equals `char c` (and `unsigned char c[3]`) and a struct view is
    # re-acquired as another struct dtype without the format check.
    exp_d = _func(ctx, '__Pyx_TypeInfoToFormat')
    readers = ['\n'.join(d.body for d in funcs), _func(ctx, '__pyx_typeinfo_cmp').body, exp_d.body, fsec.raw]

    def group_of(c):
        lits = P.char_literals(group.ret(c) or '')
        return lits[0] if len(lits) == 1 else None
    rules.append(sC17.rule_slot(ctx, readers, exp_d.body, group_of))
    rc = sC17.rule_contig(ctx, _func)
    rules.append(rc)
    rules.append(sC17.rule_cf(ctx, sC17.rule_contig.fastest))
    rules.append(sC17.rule_axis(ctx, _func))
    rules.append(sC17.rule_digits(ctx, funcs))
    rules.append(sC17.rule_eq(ctx, funcs + [_func(ctx, '__pyx_typeinfo_cmp')] + entry))
    rules.append(sC17.rule_align(ctx, funcs))
    rules.append(sC17.rule_access(ctx, _func))
    rules.append(sC17.rule_req(ctx))
    rules.append(sC17.rule_pool(ctx, _func))
    return rules
