"""C33 — C/C++ value conversions: every conversion template the compiler can select exists, receives the variables and
element-type placeholders it reads, is called under the name it defines, and declares its C helpers as they are."""
import ast, os, re

from ..core import Rule, AnalysisError
from ..rules import pC33 as Q
from ..rules.typed import c_prototypes, c_category

ID = 'C33'
TECHNIQUE = ('partial evaluation of the template-selecting methods of PyrexTypes.py over the finite key set of builtin_cpp_conversions / cpp_string_conversions '
             '(concrete strings and tables, identity-preserving unknowns), compared as sets with the sections, Tempita variables, element-type placeholders and '
             '@cname names of CppConvert.pyx / CConvert.pyx; cdef-extern helper declarations compared with the C prototypes of the utility catalogue / CPython headers; '
             'DICT: abstract interpretation of the expanded dict -> struct/union converter over the complete partition of mappings (member keys present x other keys); '
             'ENC: per preprocessor configuration path walk of the str -> char* encoder with an ASCII-witness typestate (guard dominance / count-equality exit); '
             'SHAPE: symbolic interpretation of every container / string / array conversion template (loops run on a generic element, index or iterator position; effects recorded per loop) against the '
             'specification of the conversion, carray.from_py interpreted for lengths 1..3 x 0..4 items x with/without len(); OUTLEN / NEGCHK: finite-state dataflow over the CFG of the TypeConversion.c helpers; '
             'DIRS: token-flow partial evaluation (module-directive tokens vs default tokens) of CythonUtilityCode.__init__ / filter_inherited_directives / get_tree and the context constructors they reach, '
             'needed directives = the ones the coercion code of ExprNodes.py reads, def-use of outer_module_scope= at the load sites of templates that build Python objects from caller-supplied types; '
             'CSTYPE: truth table over the complete (normalised) value set of c_string_type of three extracted tables (assumed result type, module-wide macro flavour, element helper flavour)')
DECIDES = ('(TAB) for every key of builtin_cpp_conversions and cpp_string_conversions, create_from_py_utility_code and create_to_py_utility_code load an existing '
           '<cls>.from_py / <cls>.to_py section of CppConvert.pyx, and the element-type placeholders the section uses (X, Y ...) are exactly the ones supplied for the '
           "table's template count; (CTX) at every CythonUtilityCode.load site for CppConvert.pyx / CConvert.pyx the Tempita variables read by the section are keys of the "
           'context passed, and the name the section defines (@cname("{{key}}")) is the value the type object stores as its conversion function; '
           '(STR) every name to_py_call_code can derive for a C++ string conversion (PyObject -> PyUnicode/PyBytes/PyByteArray) is defined by the string.to_py template; '
           '(I7) every `__Pyx_` helper declared cdef extern in the two files exists with the same arity and return kind, and its except value is one the C helper returns on error; '
           '(DICT) for 1..3 members and every class of mapping (which member keys are present x whether other keys exist) FromPyUnionUtility returns exactly for one member '
           'key and no other key and FromPyStructUtility exactly when all member keys are present, each field of `result` receives obj[<key of the same member>], and every '
           'other class raises ValueError/TypeError/KeyError (never falls through, never another exception type); '
           '(ENC) in every configuration (CPython / limited API old and new x c_string_encoding ascii / utf8) each non-NULL return of __Pyx_PyUnicode_AsStringAndSize returns a '
           'UTF-8 buffer of the argument with *length stored on the path, a character count serves as byte length only under an ASCII witness, in the ascii configuration '
           'the return is dominated by a positive PyUnicode_IS_ASCII guard or by the exit taken when character count != byte count, and '
           '__Pyx_PyUnicode_FromStringAndSize decodes with the decoder of the same encoding flag. '
           '(SHAPE) every element of the source is converted exactly once with the cast to its element type (vector / list / set .from_py), dict items arrive as (key -> first, value -> second) and back, '
           'pair and complex keep their component order, string.from_py passes the length the buffer helper stored, the *.to_py sequence builders allocate size() slots, fill slot I with element I for every I, '
           'INCREF before the stealing SET_ITEM and range-check size() before the cast; carray.from_py returns 0 exactly for `length` items, stores item i in v[i], never writes v[i >= length], raises IndexError otherwise. '
           '(OUTLEN) helpers with a Py_ssize_t* out-parameter store the length on every path that returns a buffer. (NEGCHK) results that are negative exactly on failure are tested (true for -1, false for 0) before use. '
           '(DIRS) every directive read while a value is coerced between C and Python (coercion node classes, coerce_to methods and the helpers they call: today c_string_type, c_string_encoding) '
           "arrives, as the value of the module being compiled, in the compiler_directives of a Cython-level helper loaded with outer_module_scope (with and without unrelated overrides), that table is the "
           'compiler_directives of the context object from which get_tree builds the nested pipeline, and every load of a template that returns Python objects built from caller-supplied types passes '
           'outer_module_scope derived from the scope the conversion is requested for, without overriding those directives. '
           '(CSTYPE) for each value c_string_type can take after normalisation: the preamble defines all __Pyx_PyObject_From* macros with one flavour F, the helper that tells the compiler the result type '
           'of a C string -> Python coercion yields a builtin type, and to_py_call_code maps that type to the same flavour F (so nested elements and top-level values become the same Python type).')
NOT_DECIDED = ('the conversion of the individual ELEMENTS inside the container templates (the `<X>item` casts are generated per element type: type checks, overflow) and of the individual struct/union fields; '
               'that a utf8 configuration never rejects non-ASCII text; whether a required utility section is emitted before use (I8); '
               'what the nested pipeline does with the directives it is handed (InterpretCompilerDirectives and later); directive dependence of the from-Python direction (decided by C macros).')
ASSUMPTIONS = ['a C++ string type has no template parameters (the only execution of the selection methods that does not raise KeyError)',
               'CPython C-API functions returning int/Py_ssize_t signal errors with -1, pointer-returning ones with NULL']

EXEMPT = {
    ('C33-I7', 'CppConvert.pyx:list.to_py:__Pyx_PyList_SET_ITEM:ret'):
        'list.to_py declares `void __Pyx_PyList_SET_ITEM(...)` although the macro yields an int (PyList_SetItem in the non-macro configurations): the discarded error '
        'cannot occur, the list was just created by PyList_New(v.size()) and the index counts the same elements; vector.to_py declares the checked form',
}

PYREX = 'Cython/Compiler/PyrexTypes.py'
FILES = ('CppConvert.pyx', 'CConvert.pyx')

MUTATIONS = [
    # (file, single edit, expected rule) -- tried on a scratch copy; each reported with the construct named
    ('Cython/Compiler/PyrexTypes.py', 'builtin_cpp_conversions: add "std::deque": 1 (no deque.* section)', 'C33-TAB'),
    ('Cython/Compiler/PyrexTypes.py', 'builtin_cpp_conversions: "std::map": 2 -> 1', 'C33-TAB'),
    ('Cython/Compiler/PyrexTypes.py', "create_to_py_utility_code: cls.replace('unordered_', '') -> cls (unordered_map.to_py does not exist)", 'C33-TAB'),
    ('Cython/Compiler/PyrexTypes.py', 'create_from_py_utility_code: loads <cls> + ".to_py"', 'C33-TAB'),
    ('Cython/Utility/CppConvert.pyx', 'pair.from_py: pair[X,Y](<X>x, <Y>y) -> pair[X,X](<X>x, <X>y) everywhere (Y unused)', 'C33-TAB'),
    ('Cython/Utility/CppConvert.pyx', 'rename section "set.to_py" to "sets.to_py"', 'C33-TAB'),
    ('Cython/Compiler/PyrexTypes.py', "CppClassType context: drop 'maybe_unordered' entry", 'C33-CTX'),
    ('Cython/Compiler/PyrexTypes.py', "CArrayType.create_to_py_utility_code: context key 'to_tuple_cname' -> 'tuple_cname'", 'C33-CTX'),
    ('Cython/Compiler/PyrexTypes.py', 'CppClassType.create_from_py_utility_code: self.from_py_function = cname -> = cls', 'C33-CTX'),
    ('Cython/Utility/CConvert.pyx', 'carray.from_py: {{base_type}} -> {{basetype}}', 'C33-CTX'),
    ('Cython/Utility/CppConvert.pyx', "string.to_py: drop 'PyByteArray' from the py_type list", 'C33-STR'),
    ('Cython/Compiler/PyrexTypes.py', "_builtin_type_name_map: 'bytes': 'Bytes' -> 'String'", 'C33-STR'),
    ('Cython/Utility/CppConvert.pyx', 'vector.from_py: __Pyx_PyObject_LengthHint ... except -1 -> except 0', 'C33-I7'),
    ('Cython/Utility/CppConvert.pyx', 'vector.to_py: __Pyx_PyList_SET_ITEM(object list, Py_ssize_t i, object o) -> drop parameter i', 'C33-I7'),
    ('Cython/Utility/CppConvert.pyx', 'string.from_py: __Pyx_PyObject_AsStringAndSize -> __Pyx_PyObject_AsStringAndLen', 'C33-I7'),
    ('Cython/Utility/CConvert.pyx', 'FromPyStructUtility: __Pyx_RaiseUnexpectedTypeError ... except 0 -> except -1', 'C33-I7'),
    ('Cython/Compiler/PyrexTypes.py', "CTypedefType.create_to_py_utility_code: context loses its 'type' entry", 'C33-CTX'),
    ('Cython/Compiler/PyrexTypes.py', "CppClassType.create_to_py_utility_code: prefix = 'PyObject_' -> 'Object_'", 'C33-STR'),
    ('Cython/Utility/CppConvert.pyx', 'string.from_py: declare `cdef int __Pyx_PyObject_AsStringAndSize(...) except -1`', 'C33-I7'),
    ('Cython/Compiler/PyrexTypes.py', 'CStructOrUnionType: "FromPyUnionUtility" -> "FromPyUnionUtil"', 'C33-CTX'),
    ('Cython/Utility/CConvert.pyx', 'seed C33b: FromPyUnionUtility final `else:` -> `elif repeated_key is not None:`', 'C33-DICT CConvert.pyx:FromPyUnionUtility:extra-keys'),
    ('Cython/Utility/CConvert.pyx', 'FromPyUnionUtility: `if not length: return result` -> `if length: return result`', 'C33-DICT :member-keys + :extra-keys'),
    ('Cython/Utility/CConvert.pyx', 'FromPyUnionUtility: drop `length -= 1`', 'C33-DICT :member-keys (valid mapping raises)'),
    ('Cython/Utility/CConvert.pyx', 'FromPyStructUtility: `except KeyError: lookup_failed = True` -> False', 'C33-DICT FromPyStructUtility:member-keys (UnboundLocalError)'),
    ('Cython/Utility/CConvert.pyx', 'FromPyStructUtility: `if lookup_failed: raise ValueError` -> `return result`', 'C33-DICT FromPyStructUtility:member-keys'),
    ('Cython/Utility/TypeConversion.c', 'seed C33a: PyUnicode_IS_ASCII(o) -> __Pyx_PyUnicode_KIND(o) == PyUnicode_1BYTE_KIND', 'C33-ENC ...AsStringAndSize:ascii:ascii + :length'),
    ('Cython/Utility/TypeConversion.c', 'limited API post-check `unicode_length != *length` -> `unicode_length > *length`', 'C33-ENC :ascii:ascii (both limited configurations)'),
    ('Cython/Utility/TypeConversion.c', 'drop `*length = PyUnicode_GET_LENGTH(o);`', 'C33-ENC :ascii:length'),
    ('Cython/Utility/TypeConversion.c', '`if (likely(PyUnicode_IS_ASCII(o)))` -> `if (unlikely(!PyUnicode_IS_ASCII(o)))` (branches keep their bodies)', 'C33-ENC :ascii:ascii'),
    ('Cython/Utility/TypeConversion.c', 'inner `#if __PYX_DEFAULT_STRING_ENCODING_IS_ASCII` -> `..._IS_UTF8`', 'C33-ENC :ascii:ascii'),
    ('Cython/Utility/TypeConversion.c', '__Pyx_PyUnicode_FromStringAndSize ascii arm: PyUnicode_DecodeASCII -> PyUnicode_DecodeUTF8', 'C33-ENC ...FromStringAndSize:ascii'),
    # fourth round: stored under /verif/mutants/C33/<name>/ and replayed by the thorough tier
    ('Cython/Utility/CppConvert.pyx', 'map-from-swapped / map-to-swapped / map-from-no-items / pair-*-swapped / complex-* / set-from-cast-dropped / string-from-no-length / string-to-no-guard', 'C33-SHAPE'),
    ('Cython/Utility/CppConvert.pyx', 'vector-to-range / vector-to-no-incref / list-to-no-advance', 'C33-SHAPE'),
    ('Cython/Utility/CConvert.pyx', 'carray-to-tuple-index / carray-from-overrun / carray-from-never-ok', 'C33-SHAPE'),
    ('Cython/Utility/TypeConversion.c', 'asstring-bytearray-length', 'C33-OUTLEN'),
    ('Cython/Utility/TypeConversion.c', 'asstring-bytes-error / fromstring-len-negative', 'C33-NEGCHK'),
    # fifth round (seed C33f: two inherited directive names fused by a lost comma): stored under /verif/mutants/C33/dirs-* and cstype-*
    ('Cython/Compiler/UtilityCode.py', 'dirs-inherit-drop-encoding / dirs-inherit-typo-type / dirs-inherit-copies-default / dirs-init-filter-discarded / dirs-init-overrides-only / dirs-gettree-no-directives', 'C33-DIRS'),
    ('Cython/Compiler/TreeFragment.py', 'dirs-strctx-always-empty', 'C33-DIRS'),
    ('Cython/Compiler/PyrexTypes.py', 'dirs-load-carray-to-no-scope / dirs-load-cpp-to-decl-scope / dirs-load-cpp-to-override', 'C33-DIRS'),
    ('Cython/Compiler/ExprNodes.py', 'cstype-defstr-bytearray-bytes / cstype-defstr-missing-str', 'C33-CSTYPE'),
    ('Cython/Compiler/ModuleNode.py', 'cstype-modnode-str-arm / cstype-modnode-size-macro-bytes', 'C33-CSTYPE'),
    ('Cython/Compiler/PyrexTypes.py', 'cstype-namemap-bytearray-bytes', 'C33-CSTYPE'),
    ('Cython/Compiler/UtilityCode.py', 'ok-dirs-list-rewritten / ok-dirs-dictcomp / ok-dirs-init-else / ok-dirs-extract-helpers / ok-dirs-load-local-scope / ok-cstype-rewritten', None),
    # behaviour-preserving, must stay silent
    ('Cython/Utility/CConvert.pyx', 'union: drop `length = 0` after a repeated key / swap the two final messages (`is None` <-> `is not None`: both arms raise ValueError) / final arm `elif repeated_key is not None or length or True:`; '
                                    'struct: try/except replaced by a per-member `if name not in obj: raise ValueError`', None),
    ('Cython/Utility/TypeConversion.c', 'ascii branch as early `if (!PyUnicode_IS_ASCII(o)) {...return NULL;}` + fall-through return; `return PyUnicode_AsUTF8AndSize(o, length)` in the ascii branch; '
                                        'limited API: `Py_ssize_t nchars = ...; if (likely(*length == nchars)) return result; ...; return NULL;` with #else return', None),
    ('Cython/Compiler/PyrexTypes.py', 'reorder rows of builtin_cpp_conversions; rename local `cls` to `klass` in both methods; build context with dict(...) instead of update', None),
    ('Cython/Utility/CppConvert.pyx', 'reverse the order of all sections; rename local `v` to `vec` in vector.from_py; add a comment', None),
    ('Cython/Utility/CConvert.pyx', 'carray.to_py: re-space the __Pyx_PyTuple_SET_ITEM declaration and add a trailing comment', None),
]


def _methods_with_loads(tree):
    out = []
    for cls in tree.body:
        if not isinstance(cls, ast.ClassDef):
            continue
        for fn in cls.body:
            if not isinstance(fn, ast.FunctionDef):
                continue
            hit = False
            for n in ast.walk(fn):
                if isinstance(n, ast.Call) and isinstance(n.func, ast.Attribute) and n.func.attr in ('load', 'load_cached') \
                        and isinstance(n.func.value, ast.Name) and n.func.value.id == 'CythonUtilityCode':
                    consts = [a.value for a in n.args[1:2] if isinstance(a, ast.Constant)]
                    if consts and consts[0] in FILES:
                        hit = True
            if hit:
                out.append((cls, fn))
    return out


def _table_driven(fn, names):
    return any(isinstance(n, ast.Name) and n.id in names for n in ast.walk(fn))


def collect_sites(ctx):
    """-> (interp, [LoadSite], keyed sites {(method, key): [LoadSite]}, tables)"""
    tree = ctx.parse(PYREX)
    it = Q.Interp(tree)
    conv = it.consts.get('builtin_cpp_conversions')
    strs = it.consts.get('cpp_string_conversions')
    if not isinstance(conv, dict) or not conv:
        raise AnalysisError('PyrexTypes.builtin_cpp_conversions not found as a literal table')
    if not isinstance(strs, (tuple, list)) or not strs:
        raise AnalysisError('PyrexTypes.cpp_string_conversions not found as a literal table')
    methods = _methods_with_loads(tree)
    if len(methods) < 6:
        raise AnalysisError('only %d methods of PyrexTypes load CppConvert.pyx/CConvert.pyx templates' % len(methods))
    plain, keyed = [], {}
    for cls, fn in methods:
        if _table_driven(fn, ('builtin_cpp_conversions', 'cpp_string_conversions')):
            for K in list(conv) + list(strs):
                it.loads = []
                it.unbounded = False
                it.run(cls, fn, {'self.cname': K}, key=K)
                if it.unbounded:
                    raise AnalysisError('%s.%s: template-parameter loop not bounded by the table for %s' % (cls.name, fn.name, K))
                keyed[('%s.%s' % (cls.name, fn.name), K)] = [l for l in it.loads if l.file in FILES]
        else:
            it.loads = []
            it.run(cls, fn, {}, key=None)
            plain += [l for l in it.loads if l.file in FILES]
    return it, plain, keyed, conv, strs


def _sections(site):
    s = site.section
    if isinstance(s, Q.Multi):
        return sorted(s.values)
    return [s] if isinstance(s, str) else []


def _section_text(ctx, file, name):
    sec = ctx.cat.section(file, name)
    return None if sec is None else sec


def rule_tab(ctx, it, keyed, conv, strs):
    r = Rule('C33-TAB', 'every key of builtin_cpp_conversions / cpp_string_conversions selects existing <cls>.from_py and <cls>.to_py sections whose element-type placeholders match the table\'s template count', floor=34)
    by_method = {}
    for (meth, K), sites in keyed.items():
        by_method.setdefault(meth, {})[K] = sites
    if len(by_method) < 2:
        raise AnalysisError('expected a from_py and a to_py selection method driven by builtin_cpp_conversions, found %s' % sorted(by_method))
    for meth, per_key in sorted(by_method.items()):
        direction = 'from_py' if 'from_py' in meth else 'to_py' if 'to_py' in meth else None
        for K, sites in sorted(per_key.items()):
            want = conv.get(K, 0)
            key = '%s:%s' % (K, direction or meth)
            r.inst(key, sample='%s -> %s' % (key, [(s.file, s.section) for s in sites]))
            if not sites:
                r.violate(key + ':no-template', PYREX, 0, '%s selects no conversion template for %s although the type is listed as convertible: coercion of %s %s Python objects fails at compile time'
                          % (meth, K, K, 'from' if direction == 'from_py' else 'to'))
                continue
            for s in sites:
                for name in _sections(s) or [None]:
                    if name is None:
                        raise AnalysisError('%s: section name for %s is not computable (%r)' % (meth, K, s.section))
                    sec = ctx.cat.section(s.file, name)
                    if sec is None:
                        r.violate(key + ':section', PYREX, s.line,
                                  "%s computes template '%s' in %s for %s, but the file has no such section (sections: %s): compiling any conversion of %s raises KeyError inside the compiler"
                                  % (meth, name, s.file, K, ', '.join(sorted(ctx.cat.files.get(s.file, {}))), K))
                        continue
                    if direction and not name.endswith('.' + direction):
                        r.violate(key + ':direction', PYREX, s.line, "%s loads '%s' for %s: that template converts in the other direction" % (meth, name, K))
                    if not isinstance(s.context, dict):
                        raise AnalysisError('%s: context for %s is not a dictionary (%r)' % (meth, K, s.context))
                    alphabet = s.env.get('X')
                    if not isinstance(alphabet, str):
                        alphabet = 'XYZABC'
                    supplied = {k for k in s.context if isinstance(k, str) and len(k) == 1 and k in alphabet}
                    r.inst(key + ':count')
                    if len(supplied) != want:
                        r.violate(key + ':count', PYREX, s.line, '%s supplies element types %s for %s but the table declares %d template parameter(s)' % (meth, sorted(supplied), K, want))
                    body = Q.strip_pyx_noise(sec.raw)
                    used = {w for w in re.findall(r'\b[A-Z]\b', body) if w in alphabet}
                    r.inst(key + ':placeholders', sample="%s::%s uses %s ; supplied %s" % (s.file, name, sorted(used), sorted(supplied)))
                    if used - supplied:
                        r.violate('%s:%s:%s' % (s.file, name, ','.join(sorted(used - supplied))), 'Cython/Utility/' + s.file, sec.line,
                                  "section %s uses element-type placeholder(s) %s but %s supplies only %s for %s (template count %d): the template does not compile (undeclared type)"
                                  % (name, sorted(used - supplied), meth, sorted(supplied), K, want))
                    if supplied - used:
                        r.violate('%s:%s:unused:%s' % (s.file, name, ','.join(sorted(supplied - used))), 'Cython/Utility/' + s.file, sec.line,
                                  "section %s never uses element type %s that %s supplies for %s (template count %d): that element type is converted as something else or not at all"
                                  % (name, sorted(supplied - used), meth, K, want))
    return r


def _ctx_findings(ctx, site, name):
    """-> list of (key suffix, message) for one (load site, section)."""
    out = []
    sec = ctx.cat.section(site.file, name)
    if sec is None:
        return [('section', "%s loads '%s' from %s, which has no such section" % (site.func, name, site.file))]
    if not isinstance(site.context, dict):
        return [('context', '%s loads %s::%s without a computable context dictionary' % (site.func, site.file, name))]
    free, loops, bad = Q.tempita_facts(sec.raw)
    keys = {k for k in site.context if isinstance(k, str) and k != Q.OPEN}
    if not site.context.get(Q.OPEN):
        for v in sorted(free - keys):
            out.append(('var:' + v, "section %s::%s reads Tempita variable '%s' but %s passes only %s: instantiating the template raises NameError inside the compiler (or silently substitutes an unrelated builtin of that name)"
                        % (site.file, name, v, site.func, sorted(keys))))
    for k in sorted(set(Q.cname_keys(sec.raw))):
        if k not in site.context:
            continue
        val = site.context[k]
        stored = [a for a, v in site.env.items() if a.startswith('self.') and (v is val or (isinstance(v, str) and v == val))]
        if not stored:
            funcs = {a: v for a, v in site.env.items() if a.startswith('self.') and 'function' in a}
            out.append(('cname:' + k, "section %s::%s defines the function named by context['%s'] (%s) but %s stores %s as the type's conversion function: generated code calls a function that was never defined"
                        % (site.file, name, k, val if isinstance(val, str) else 'computed', site.func, funcs or 'nothing')))
    return out


def rule_ctx(ctx, plain, keyed):
    r = Rule('C33-CTX', 'Tempita variables of each loaded conversion section are keys of the context passed; the @cname key of the section is the stored conversion function name', floor=18)
    seen = set()
    allsites = list(plain) + [s for v in keyed.values() for s in v]
    for s in allsites:
        for name in _sections(s):
            k = (s.func, s.file, name)
            key = '%s->%s::%s' % k
            dup = k in seen
            if not dup:
                r.inst(key, sample=key)
            seen.add(k)
            for suffix, msg in _ctx_findings(ctx, s, name):
                vk = key + ':' + suffix
                if dup and any(f.construct == vk for f in r.findings):
                    continue
                r.violate(vk, PYREX, s.line, msg)
    return r


def rule_str(ctx, it, keyed):
    r = Rule('C33-STR', 'every specialised C++ string to_py name that to_py_call_code can derive is defined by the string.to_py template', floor=4)
    tree = ctx.parse(PYREX)
    # the replacement performed on the function name for string types
    rep = None
    owner = None
    for cls in tree.body:
        if not isinstance(cls, ast.ClassDef):
            continue
        for fn in cls.body:
            if isinstance(fn, ast.FunctionDef) and fn.name == 'to_py_call_code':
                for n in ast.walk(fn):
                    if isinstance(n, ast.Call) and isinstance(n.func, ast.Attribute) and n.func.attr == 'replace' and n.args and isinstance(n.args[0], ast.Constant) \
                            and any(isinstance(x, ast.Attribute) and x.attr in ('is_cpp_string', 'is_string') for x in ast.walk(fn)):
                        maps = [x for x in ast.walk(fn) if isinstance(x, ast.Attribute) and x.attr.endswith('_map')]
                        if maps:
                            rep, owner = (n, maps[0].attr), cls
    if rep is None:
        raise AnalysisError('CType.to_py_call_code: name specialisation for string types (func.replace(...)) not found')
    call, mapname = rep
    table = None
    for st in owner.body:
        if isinstance(st, ast.Assign) and any(isinstance(t, ast.Name) and t.id == mapname for t in st.targets):
            try:
                table = ast.literal_eval(st.value)
            except (ValueError, SyntaxError):
                table = None
    if not isinstance(table, dict) or not table:
        raise AnalysisError('%s.%s is not a literal table' % (owner.name, mapname))
    old = call.args[0].value
    count = call.args[2].value if len(call.args) > 2 and isinstance(call.args[2], ast.Constant) else None
    sec = ctx.cat.section('CppConvert.pyx', 'string.to_py')
    if sec is None:
        raise AnalysisError('CppConvert.pyx::string.to_py missing')
    free, loops, _ = Q.tempita_facts(sec.raw)
    # names the template defines: the @cname expressions evaluated over the loop domain
    exprs = set(re.findall(r'@cname\(\s*"\{\{(.*?)\}\}"\s*\)', sec.raw))
    if not exprs:
        raise AnalysisError('string.to_py: no @cname("{{...}}") definition found')
    sites = [s for (meth, K), v in keyed.items() for s in v if 'string.to_py' in _sections(s)]
    names = {s.context.get('cname') for s in sites if isinstance(s.context, dict) and isinstance(s.context.get('cname'), str)}
    if not names:
        raise AnalysisError('no concrete C name computed for string.to_py')
    reported = set()
    for cname in sorted(names):
        for disp, bad, msg in _str_findings(it, cname, exprs, loops, table, old, count, mapname):
            r.inst('string.to_py:' + disp, sample='%s requested by to_py_call_code' % disp)
            if bad and disp not in reported:
                reported.add(disp)
                r.violate('string.to_py:' + disp, 'Cython/Utility/CppConvert.pyx', sec.line, msg)
    pc = _str_findings(it, '__pyx_convert_Py%s_string_to_py_T' % old, exprs, loops, {'bytes': 'Qq7'}, old, count, mapname)
    r.positive_control(any(bad and 'Qq7' in disp for disp, bad, _ in pc), "a map value without a variant in the template")
    return r


def _str_findings(it, cname, exprs, loops, table, old, count, mapname):
    """-> [(displayed name, is violation, message)] for one concrete string to_py C name."""
    defined = set()
    for e in exprs:
        tree_e = ast.parse(e.strip(), mode='eval').body
        doms = [(v, ast.literal_eval(src)) for v, src in loops.items() if re.search(r'\b%s\b' % v, e)]
        envs = [{}]
        for v, dom in doms:
            envs = [dict(en, **{v: x}) for en in envs for x in dom]
        for en in envs:
            val = it.eval(tree_e, dict(en, cname=cname))
            if isinstance(val, str):
                defined.add(val)

    def derive(v):
        return cname.replace(old, v, count) if count is not None else cname.replace(old, v)
    hide = lambda x: re.sub(r'§\d+§', '<T>', x)
    requested = {cname} | {derive(v) for v in table.values()}
    out = []
    for nm in sorted(requested):
        how = sorted(k for k, v in table.items() if derive(v) == nm)
        msg = ("to_py_call_code derives the function name %s (from %s%s) but string.to_py only defines %s: converting a C++ string to that Python type calls an undefined function"
               % (hide(nm), hide(cname), ' for result type(s) %s via %s' % (how, mapname) if how else '', sorted(hide(d) for d in defined)))
        out.append((hide(nm), nm not in defined, msg))
    return out


def _generated_define(ctx, name):
    base = ctx.path('Cython/Compiler')
    pat = re.compile(r'#define\s+%s\b' % re.escape(name))
    for fn in sorted(os.listdir(base)):
        if fn.endswith('.py'):
            if pat.search(ctx.read('Cython/Compiler/' + fn)):
                return fn
    return None


def _resolve_protos(ctx, name, depth=0):
    protos = c_prototypes(ctx, name)
    if protos or depth > 3:
        return protos
    for d in ctx.cat.lookup(name):
        if d.kind == 'macro' and d.params is None and re.fullmatch(r'[A-Za-z_]\w*', d.body.strip() or '') and d.body.strip() != name:
            protos += _resolve_protos(ctx, d.body.strip(), depth + 1)
    return protos


def _i7_findings(ctx, decl):
    """-> (resolved?, [(key suffix, message)])"""
    protos = _resolve_protos(ctx, decl.name)
    if not protos:
        gen = _generated_define(ctx, decl.name)
        if gen:
            return 'generated by ' + gen, []
        return None, [('undeclared', "`%s` is declared cdef extern but no utility section, CPython header or generated #define provides it: the generated C does not compile" % decl.name)]
    out = []
    ar = {len(p[2]) for p in protos if p[2] is not None}
    if ar and len(decl.params) not in ar:
        out.append(('arity', "`%s` is declared with %d parameter(s) (%s) but the C helper takes %s: the generated call does not compile"
                    % (decl.name, len(decl.params), ', '.join(decl.params), sorted(ar))))
    pc = Q.pyx_category(decl.ret)
    for src, ret, ptypes, pnames, d in protos:
        if not ret:
            continue
        cc = c_category(ret)
        if pc and cc and pc != cc:
            if pc == 'void' and cc in ('int', 'object', 'pointer'):
                out.append(('ret', "`%s` is declared `void` but the C helper returns %s [%s]: its error indicator is discarded, a failure goes unnoticed" % (decl.name, ret.replace('static', '').replace('CYTHON_INLINE', '').strip(), src)))
            else:
                out.append(('ret', "`%s` is declared returning `%s` (%s) but the C helper returns `%s` (%s) [%s]" % (decl.name, decl.ret, pc, ' '.join(ret.split()), cc, src)))
            break
    m = re.match(r'except\s*(\??)\s*(\S+)', decl.exc or '')
    if m and m.group(2) not in ('*', '+'):
        val = m.group(2)
        for src, ret, ptypes, pnames, d in protos:
            cc = c_category(ret) if ret else None
            if cc in ('pointer', 'object'):
                if val not in ('NULL', '0'):
                    out.append(('except', "`%s` is declared `except %s` but the C helper returns a pointer (error value NULL) [%s]" % (decl.name, val, src)))
                    break
            elif cc == 'int':
                if d is not None and d.kind == 'func' and d.body:
                    rets = set(re.findall(r'\breturn\s*\(?\s*(-?\w+)\s*\)?\s*;', d.body))
                    if val not in rets:
                        out.append(('except', "`%s` is declared `except %s` but the C helper never returns %s (it returns %s) [%s]: the error it raises is not propagated at the call"
                                    % (decl.name, val, val, sorted(rets), src)))
                        break
                elif d is None or d.kind == 'macro':
                    if ret and val != '-1' and (src.startswith('CPython') or '->' in src):
                        out.append(('except', "`%s` is declared `except %s` but forwards to a CPython function returning %s whose error value is -1 [%s]: errors are not propagated"
                                    % (decl.name, val, ' '.join(ret.split()), src)))
                        break
    return 'ok', out


def rule_i7(ctx):
    r = Rule('C33-I7', 'cdef-extern declarations of __Pyx_ helpers in CppConvert.pyx / CConvert.pyx agree with the C helper: existence, arity, return kind, except value', floor=10)
    for fn in FILES:
        secs = ctx.cat.files.get(fn)
        if not secs:
            raise AnalysisError('Cython/Utility/%s not catalogued' % fn)
        for name, types in sorted(secs.items()):
            for sec in types.values():
                for decl in Q.extern_helpers(sec.raw, sec.line):
                    key = '%s:%s:%s' % (fn, name, decl.name)
                    how, bad = _i7_findings(ctx, decl)
                    r.inst(key, sample='%s: %r (%s)' % (key, decl, how))
                    for suffix, msg in bad:
                        r.violate(key + ':' + suffix, 'Cython/Utility/' + fn, decl.line, '%s::%s: %s' % (fn, name, msg))
    pc = Q.extern_helpers("cdef extern from *:\n    cdef Py_ssize_t __Pyx_PyObject_LengthHint(object o) except 0\n    void __Pyx_NoSuchHelperAnywhere(object)\n")
    found = {(d.name.replace('__Pyx_', ''), s) for d in pc for s, _ in _i7_findings(ctx, d)[1]}
    r.positive_control(found >= {('PyObject_LengthHint', 'arity'), ('PyObject_LengthHint', 'except'), ('NoSuchHelperAnywhere', 'undeclared')},
                       'wrong arity, wrong except value, undeclared helper')
    return r


def run(ctx):
    it, plain, keyed, conv, strs = collect_sites(ctx)
    rules = []
    r = rule_tab(ctx, it, keyed, conv, strs)
    # embedded positive example: a key whose section does not exist and a template-count mismatch
    tree = ast.parse(
        "conv = {'std::deque': 1, 'std::pair': 1}\n"
        "class T:\n"
        "    def create_to_py_utility_code(self, env):\n"
        "        context = {}\n"
        "        X = 'XYZABC'\n"
        "        for ix, t in enumerate(self.templates or []):\n"
        "            if ix >= conv[self.cname]:\n"
        "                break\n"
        "            context[X[ix]] = t\n"
        "        cls = self.cname[5:]\n"
        "        context.update({'cname': 'f', 'type': self.cname, 'maybe_unordered': ''})\n"
        "        env.use_utility_code(CythonUtilityCode.load(cls + '.to_py', 'CppConvert.pyx', context=context))\n"
        "        return True\n")
    it2 = Q.Interp(tree)
    keyed2 = {}
    for K in it2.consts['conv']:
        it2.loads = []
        it2.run(tree.body[1], tree.body[1].body[0], {'self.cname': K}, key=K)
        keyed2[('T.create_to_py_utility_code', K)] = list(it2.loads)
    keyed2[('T.create_from_py_utility_code', 'std::pair')] = []
    pr = rule_tab(ctx, it2, keyed2, it2.consts['conv'], ())
    got = {f.construct for f in pr.findings}
    r.positive_control({'std::deque:to_py:section', 'CppConvert.pyx:pair.to_py:Y', 'std::pair:from_py:no-template'} <= got, 'missing section, missing placeholder, no template selected')
    rules.append(r)

    r = rule_ctx(ctx, plain, keyed)
    fake = Q.LoadSite('pc', None, 'carray.to_py', 'CConvert.pyx', {'cname': 'a', 'base_type': Q.Sym()}, 0, {'self.to_py_function': 'b'})
    got = {k for k, _ in _ctx_findings(ctx, fake, 'carray.to_py')}
    r.positive_control({'var:to_tuple_cname', 'cname:cname'} <= got, 'missing context key, stored name differs from defined name')
    rules.append(r)

    rules.append(rule_str(ctx, it, keyed))
    rules.append(rule_i7(ctx))
    from ..rules import sC33
    rules.append(sC33.rule_dict(ctx))
    rules.append(sC33.rule_enc(ctx))
    rules.append(sC33.rule_dict_fields(ctx))    # found FromPyUnionUtility assigning result.{{member.cname}}; repaired in /repo (97c0f17ba)
    # fourth round
    rules += [sC33.rule_shape(ctx), sC33.rule_outlen(ctx), sC33.rule_negchk(ctx)]
    # fifth round
    from ..rules import s4C33
    rules.append(s4C33.rule_dirs(ctx, plain, keyed))
    rules.append(s4C33.rule_cstype(ctx))
    return rules
