"""C24 — argument binding: the wrapper generator (Nodes.DefNodeWrapper) and the C helpers of FunctionArguments.c /
CythonFunction.c agree on names, variants, arities, argument order, utility sections, error exits, labels and METH_* flags."""
from ..rules import pC24

ID = 'C24'
TECHNIQUE = ('resolved interface analysis of emitted C text (helper calls with the Signature.fastvar suffix expanded over its finite domain) '
             'against the utility catalogue; exhaustive evaluation of the #if tree of the fastcall helper family; path-sensitive '
             'dataflow for utility loads, raise=>exit and labels; table comparison of METH_* flag combinations with the C dispatch switches; '
             'symbolic evaluation of the wrapper generator over the complete partition of the `**kwargs` state; taint analysis (container element -> '
             'representation-level string comparison) over FunctionArguments.c with guards decided by a truth table over {exact str, str subclass, not a str}; '
             'interprocedural linear forms (argnames + k*num_pos_args) of the table pointers of the keyword parser; provenance (guard sets) of the positional-only counters of the wrapper generator; '
             'truth table of the unknown-keyword exits over {kwds2} x {ignore flag}; abstract execution of the generator methods that emit the parser call / the *args slice over the finite domain '
             '{positional-only count} x {positional count} x {keyword-only count} x {*args} with evaluation of the emitted C count expressions for every nargs (round 9, s9C24)')
DECIDES = ('C24-I5: every emitted call to a FunctionArguments.c helper has the arity of every #if variant of the helper; '
           'C24-FAM: every __Pyx_<Family>_<fastvar> helper that can be emitted is defined with that arity under every feasible assignment of '
           'the #if conditions of the fastcall section; C24-GUARD: the variant chosen by Signature.fastvar uses the fastcall argument layout '
           'exactly when Signature.fastcall_guard (the #if that selects the C signature of the wrapper) is true; '
           'C24-PD: prototypes of the fastcall section are defined under the same configurations; '
           'C24-I6: no two name-carrying arguments of an emitted or helper-to-helper call are passed in each other\'s parameter position; '
           'C24-I8: the utility section declaring an emitted helper is requested on every path to the emission (same method or all callers); '
           'C24-RX: an emitted call to an exception-setting void helper is followed by an error exit on every path; '
           'C24-G3/G4: the argument-error label is restored, and every label created by the wrapper generator is placed exactly once; '
           'C24-FLAGS: the METH_* combinations produced by Signature.method_flags are cases of the CyFunction vectorcall/tp_call switches '
           'and each case calls the method pointer with the argument count of that CPython calling convention; '
           'C24-KW2: for each of {no **kwargs, **kwargs never read (C variable NULL), **kwargs read}: the dict and ignore_unknown arguments of the emitted '
           '__Pyx_ParseKeywords call (positions taken from the C definitions) together with the emission creating the dict accept unknown keywords exactly when the '
           'signature has **kwargs, a read dict is passed and created, and no __Pyx_RejectKeywords emission is reachable with **kwargs; '
           'C24-EXACT: a keyword name taken out of the caller\'s container reaches memcmp/PyUnicode_DATA, the cached ->hash or PyUnicode_Compare (directly or through '
           'helper parameters, propagated to a fixpoint) only under a dominating condition that is true for exact str alone; '
           'C24-IDX: every table pointer of the keyword parser is a linear form argnames + k*num_pos_args of the entry point\'s parameters (helpers bound at their call sites): a hit\'s slot is '
           '`cursor - argnames`, keyword lookups scan from argnames + num_pos_args, duplicate-of-positional checks scan [argnames, argnames + num_pos_args); '
           'C24-POSONLY: every counter that offsets values[] indices against the keyword-name table (values + K, nargs - K, pykwdlist[i - K]; locals or parameters bound at self.method() call sites) '
           'counts exactly the positional-only parameters, the complement of the `not arg.pos_only` filter of the table, AND runs over the list the table is filtered from (the same local / a parameter bound to it at every call site / '
           'the loop that files the arguments into its component lists / another collection only under the membership conditions of that list); counters are followed through aliases, sum()/len() comprehensions, helper methods and '
           '`self.<attr>` to the method that stores them (round 7: seed C24i, DefNode.num_posonly_args counts self/cls of extension-type methods); '
           'C24-KWCOUNT: the num_kwargs argument of __Pyx_ParseKeywords is the keyword count, the num_pos_args argument is 0 or a C variable defined from nargs in the same function; '
           'C24-UNKNOWN: the unexpected-keyword exit of every parser that gets the flags is reachable exactly for (kwds2 NULL, ignore_unknown_kwargs 0) — truth table of its enclosing conditions; '
           'C24-KWSTR: __Pyx_CheckKeywordStrings is emitted on every path before __Pyx_KwargsAsDict_*; '
           'C24-VCSELF: a CyFunction call path that takes self from args[0] / item 0 of the tuple passes on args+1, nargs-1 / the slice from 1; '
           'C24-POSRANGE (round 9, seed C24n): for every signature shape (P positional-only, M positional, keyword-only count, *args) and every nargs the emitted num_pos_args operand of __Pyx_ParseKeywords '
           '(with the C definitions `Py_ssize_t X = ...` it refers to) evaluates to clamp(nargs - P, 0, M - P), the number of keyword-table names bound positionally, and the values window starts at P whenever the table is non-empty; '
           'C24-STARSLICE: the operands of __Pyx_ArgsSlice_<variant>(args, start, stop) evaluate to (M, nargs) for every call with surplus positional arguments (and the whole-tuple shortcut is taken for M = 0 only).')
NOT_DECIDED = ('the rest of the keyword matching algorithm (the order of the two search loops, the `extracted` counter of the dict parser), the arithmetic of the emitted switch statements '
               '(case numbers, the enumerate()/range() values behind values[i] in the unpacking, defaults and conversion emitters), reference counting of values[], and S3 (raise => error return inside the C helpers, needs a C CFG); '
               'I8 is decided for the emitters in Nodes.py only (ExprNodes collects helper names in a set and loads them in a loop).')
ASSUMPTIONS = ['preprocessor identifiers of the fastcall section are independent 0/1 switches (version macros take the values around '
               'each threshold they are compared with); configurations that hit #error are infeasible',
               'CPython calling conventions as documented for PyMethodDef.ml_flags (frozen in sa/rules/pC24.CONVENTION)']

EXEMPT = {
    ('C24-FAM', '__Pyx_ArgsSlice_FASTCALL_TPNEW'):
        '__Pyx_ArgsSlice_<fastvar> is only emitted for functions with a *args parameter (generate_stararg_init_code, under `if self.star_arg`), '
        'and FastcallUsed.TP_NEW is only selected when TpVectorcallSlot.slot_code() != "0", which requires '
        'entry.tp_new_can_be_vectorcall = not self.star_arg for every __init__/__cinit__ involved: the combination cannot be emitted',
}

# Single-edit variants tried on a scratch copy (/tmp/scr_C24); every one was reported (exit 1) by the rule named, with a message
# naming the edited construct.  (file, edit, reporting rule)
MUTATIONS = [
    ('Cython/Compiler/Nodes.py', "generate_stararg_copy_code: drop the last argument of __Pyx_RaiseArgtupleInvalid(...)", 'C24-I5'),
    ('Cython/Compiler/Nodes.py', "generate_tuple_and_keyword_parsing_code (argtuple_error_label): swap min_positional_args / max_positional_args", 'C24-I6'),
    ('Cython/Compiler/Nodes.py', "generate_argument_parsing_code: __Pyx_KwValues_%s(args_cname, nargs_cname) -> (nargs_cname, args_cname)", 'C24-I6'),
    ('Cython/Compiler/Nodes.py', "generate_keyword_unpacking_code: __Pyx_ParseKeywords(kwds, kwvalues, ...) -> (kwvalues, kwds, ...)", 'C24-I6'),
    ('Cython/Utility/FunctionArguments.c', "__Pyx_ParseKeywords: swap num_pos_args / num_kwargs in the call of __Pyx_ParseKeywordDict", 'C24-I6'),
    ('Cython/Utility/FunctionArguments.c', "delete `#define __Pyx_NumKwargs_FASTCALL_TPNEW __Pyx_NumKwargs_VARARGS` (the #else branch)", 'C24-FAM'),
    ('Cython/Utility/FunctionArguments.c', "delete `#define __Pyx_ArgsSlice_FASTCALL __Pyx_ArgsSlice_VARARGS` (the #else branch)", 'C24-FAM'),
    ('Cython/Utility/FunctionArguments.c', "`#define __Pyx_KwValues_FASTCALL(args, nargs)` -> one parameter", 'C24-FAM'),
    ('Cython/Compiler/TypeSlots.py', "fastcall_guard: the TP_NEW branch returns \"CYTHON_VECTORCALL\"", 'C24-GUARD'),
    ('Cython/Compiler/TypeSlots.py', "fastvar: the TP_NEW branch returns \"FASTCALL\"", 'C24-GUARD'),
    ('Cython/Utility/FunctionArguments.c', "`#define __Pyx_ArgRef_FASTCALL_TPNEW __Pyx_ArgRef_FASTCALL` -> __Pyx_ArgRef_VARARGS", 'C24-GUARD'),
    ('Cython/Utility/FunctionArguments.c', "fastcall implementation: `#if CYTHON_VECTORCALL` -> `#if CYTHON_VECTORCALL && CYTHON_ASSUME_SAFE_MACROS`", 'C24-PD'),
    ('Cython/Compiler/Nodes.py', "generate_tuple_and_keyword_parsing_code: remove use_utility_code(load_cached('RejectKeywords', ...))", 'C24-I8'),
    ('Cython/Compiler/Nodes.py', "generate_keyword_unpacking_code: put use_utility_code(load_cached('ParseKeywords', ...)) under `if self.starstar_arg:`", 'C24-I8'),
    ('Cython/Compiler/Nodes.py', "generate_tuple_and_keyword_parsing_code: remove `{goto_error}` after __Pyx_RejectKeywords(...)", 'C24-RX'),
    ('Cython/Compiler/Nodes.py', "generate_tuple_and_keyword_parsing_code: remove `{goto_error}` after __Pyx_RaiseArgtupleInvalid(..., i)", 'C24-RX'),
    ('Cython/Compiler/Nodes.py', "generate_argument_parsing_code: remove `code.error_label = old_error_label`", 'C24-G3'),
    ('Cython/Compiler/Nodes.py', "generate_argument_parsing_code: remove `code.put_label(end_label)`", 'C24-G4'),
    ('Cython/Compiler/Nodes.py', "generate_tuple_and_keyword_parsing_code: remove `code.put_label(argtuple_error_label)`", 'C24-G4'),
    ('Cython/Utility/CythonFunction.c', "__Pyx_CyFunction_Init: remove the `case METH_O:` block", 'C24-FLAGS'),
    ('Cython/Utility/CythonFunction.c', "__Pyx_CyFunction_Init: swap the vectorcall functions assigned for METH_NOARGS and METH_O", 'C24-FLAGS'),
    ('Cython/Utility/CythonFunction.c', "__Pyx_CyFunction_CallMethod, case METH_VARARGS|METH_KEYWORDS: call meth(self, arg) without kw", 'C24-FLAGS'),
    ('Cython/Compiler/TypeSlots.py', "method_flags: [method_fastcall, method_keywords] -> [method_fastcall]", 'C24-FLAGS'),
    ('Cython/Compiler/Nodes.py', "seed C24a: has_kwargs_dict = starstar_arg is not None and entry.cf_used, used for both the dict and the ignore flag", 'C24-KW2 unused'),
    ('Cython/Compiler/Nodes.py', "generate_keyword_unpacking_code: flag `self.starstar_arg is None` / constant 0", 'C24-KW2 (absent + unused / unused)'),
    ('Cython/Compiler/Nodes.py', "generate_keyword_unpacking_code: dict argument always '0'", 'C24-KW2 used'),
    ('Cython/Compiler/Nodes.py', "generate_stararg_init_code: `and not self.starstar_arg.entry.cf_used` (dict created only when unused)", 'C24-KW2 used'),
    ('Cython/Compiler/Nodes.py', "generate_tuple_and_keyword_parsing_code: accept_kwd_args = bool(non_posonly_args)", 'C24-KW2 RejectKeywords'),
    ('Cython/Compiler/Nodes.py', "generate_stararg_copy_code: `if self.starstar_arg and self.starstar_arg.entry.cf_used:` (unused ** falls into the reject branch)", 'C24-KW2 RejectKeywords'),
    ('Cython/Utility/FunctionArguments.c', "seed C24b: __Pyx_MatchKeywordArg dispatches on PyUnicode_Check", 'C24-EXACT (both callers)'),
    ('Cython/Utility/FunctionArguments.c', "__Pyx_MatchKeywordArg: dispatch removed (always _str) / arms swapped / `CheckExact(key) || Check(key)`", 'C24-EXACT (3 variants)'),
    ('Cython/Utility/FunctionArguments.c', "__Pyx_ParseKeywordsTuple calls __Pyx_MatchKeywordArg_str(key, ...) directly", 'C24-EXACT'),
    # fourth round (rules/sC24.py; the full list with patches is in /verif/mutants/C24/)
    ('Cython/Utility/FunctionArguments.c', 'seed C24c and siblings: index computed as `name - first_kw_arg` in _str (both arms), _nostr, values[name-first_kw_arg]', 'C24-IDX index-base (4 variants)'),
    ('Cython/Utility/FunctionArguments.c', 'keyword scan started at argnames; first_kw_arg = argnames; duplicate scan started at first_kw_arg', 'C24-IDX keyword-scan-start / positional-scan-range (3 variants)'),
    ('Cython/Utility/FunctionArguments.c', '`else if (ignore_unknown_kwargs) goto invalid_keyword`', 'C24-UNKNOWN'),
    ('Cython/Compiler/Nodes.py', 'seed C24d and siblings: offset = number of REQUIRED positional-only args (passed in / counted locally / in pykwdlist[i - K]); name table also filtered by kw_only', 'C24-POSONLY (4 variants)'),
    ('Cython/Compiler/Nodes.py', 'round 7 (mutants/C24/posdom-*): seed C24i (offset = self.num_posonly_args) and siblings: attribute used only for values + K / pykwdlist[i - K] / passed in by the caller, local loop or sum() over '
                                 'self.args / self.target.args, counter moved before the is_generic / self-arg filters, only is_generic filtered; rewrites (sum over all_args, helper method, self.args with the full filters, renamed parameter + len([...])) silent',
     'C24-POSONLY domain (7 variants)'),
    ('Cython/Compiler/Nodes.py', 'num_pos_args / num_kwargs operands of __Pyx_ParseKeywords exchanged; __Pyx_CheckKeywordStrings emission dropped', 'C24-KWCOUNT; C24-KWSTR'),
    ('Cython/Utility/CythonFunction.c', 'Vectorcall_O without `args += 1`; CallAsMethod slices from 0', 'C24-VCSELF (2 variants)'),
    ('Cython/Compiler/Nodes.py', 'round 9 (mutants/C24/posrange-*, starslice-*): seed C24n (clamp limit = max_positional_args) and siblings: clamp dropped / skipped with positional-only parameters / taking the larger value, '
                                 'kwd_pos_args without the 0 floor, subtraction only for P > 1, values window decided against max_positional_args; *args slice from M - 1 / 0, whole tuple for M <= 1', 'C24-POSRANGE (6 variants), C24-STARSLICE (3 variants)'),
    ('Cython/Compiler/Nodes.py', 'defaults written to values[i+1]; FunctionArguments.c: `extracted++` dropped; casts around swapped arguments', 'MISSED (arithmetic / run-time counts, see NOT_DECIDED)'),
]
# Behaviour-preserving edits tried: all stay silent.
PRESERVING = [
    ('Cython/Compiler/Nodes.py', 'extra alias local `error_exit = goto_error` in generate_tuple_and_keyword_parsing_code'),
    ('Cython/Compiler/Nodes.py', 'split the __Pyx_RejectKeywords putln into two putln calls (the call; then goto_error)'),
    ('Cython/Compiler/Nodes.py', 'compute the `} else if (...)` text into a local before putln / put_goto'),
    ('Cython/Compiler/Nodes.py', 'hoist use_utility_code(RejectKeywords) out of the `if not accept_kwd_args:` branch'),
    ('Cython/Compiler/Nodes.py', 'move method generate_stararg_init_code above generate_arg_assignment'),
    ('Cython/Utility/FunctionArguments.c', 'reorder two #define lines of the CYTHON_VECTORCALL_TPNEW block'),
    ('Cython/Utility/FunctionArguments.c', 'rename the macro parameters of __Pyx_KwValues_FASTCALL'),
    ('Cython/Compiler/Nodes.py', 'ParseKeywords emission rewritten with %-format, locals has_starstar / kwds2, NULL instead of 0, int(has_starstar)'),
    ('Cython/Compiler/Nodes.py', 'accept_kwd_args by De Morgan; generate_stararg_init_code with a local alias and nested ifs, f-string emission'),
    ('Cython/Utility/FunctionArguments.c', '__Pyx_MatchKeywordArg: `if (unlikely(!PyUnicode_CheckExact(key))) return nostr(...); return str(...);`'),
    ('Cython/Utility/FunctionArguments.c', '__Pyx_MatchKeywordArg: `unlikely(!Py_IS_TYPE(key, &PyUnicode_Type)) ? nostr : str`'),
    ('Cython/Utility/FunctionArguments.c', '__Pyx_MatchKeywordArg_str: parameter renamed, the ->hash read extracted into a new helper function'),
    ('Cython/Utility/FunctionArguments.c', 'index through a local alias of argnames; parameters of _str renamed with local aliases; unknown-keyword test written with an empty `if (ignore) {}` arm'),
    ('Cython/Compiler/Nodes.py', 'counting loop with `if not arg.pos_only: continue` and an alias; the correct half of seed C24d (caller passes num_pos_only_args); pos_arg_count renamed'),
    ('Cython/Utility/CythonFunction.c', '`args++; --nargs;`'),
    ('Cython/Compiler/Nodes.py', 'round 9 (mutants/C24/keep-posrange-*, keep-starslice-*): clamp with `<=` and renamed C variables/locals; kwd_pos_args emitted by an extracted helper method + limit counted with a sum() comprehension; '
                                 'elif chain rewritten as sequential ifs; slice start through an alias with %-formatting'),
]


def run(ctx):
    kinds, domain = pC24.fastvar_domain(ctx)
    names = pC24.helper_names(ctx)
    sites = list(pC24.emitters(ctx, names, domain))
    fam, guard = pC24.rule_families(ctx, sites, kinds, domain)
    g3, g4 = pC24.rule_labels(ctx)
    from ..rules import sC24, s9C24
    return [pC24.rule_arity(ctx, sites), fam, guard, pC24.rule_proto_def(ctx), pC24.rule_order(ctx, sites),
            pC24.rule_sections(ctx, sites, domain), pC24.rule_raise_exit(ctx, sites, domain), g3, g4, pC24.rule_flags(ctx),
            sC24.rule_kw2(ctx), sC24.rule_exact(ctx), sC24.rule_idx(ctx), sC24.rule_posonly(ctx), sC24.rule_kwstr(ctx), sC24.rule_vcself(ctx), sC24.rule_unknown(ctx), sC24.rule_kwcount(ctx), s9C24.rule_posrange(ctx), s9C24.rule_starslice(ctx)]
