"""C44 — line tables and positions (LineTable.py encoder vs. CPython's location-table format)."""
import ast

from ..core import Rule, AnalysisError, node_src
from ..engine import pyflow
from ..engine.pyindex import walk_no_nested

ID = 'C44'
TECHNIQUE = ('abstract interpretation (interval x known-bits-with-provenance) of the line-table encoder against the frozen CPython location-table format; path-sensitive base-line rule; '
             'writer/reader agreement of the emitted save/restore assignments of the error-position variables + path-sensitive call-site pairing of the saving and restoring helpers; '
             'role agreement (file index / source line / C line) along emission site -> position macro -> position variables -> C helper parameters -> CPython constructors, with '
             'roles derived from use at every hop; finite-domain evaluation of GlobalState.lookup_filename by the checker-owned evaluator; order-domain (ascending/descending) '
             'analysis of the position list; def-use of the first-line expression')
DECIDES = ('for LineTable.py under the input assumptions (columns >= 0, start >= last, end >= start): '
           'BASE: the line number handed on as the base of the next entry equals the START line of the entry just written on every path '
           "(CPython's decoder adds line deltas to start lines); "
           'NUM: every first byte of an entry has bit 7 set and a code field in the range of its form, every other byte is < 128, var-int chunks carry the continuation bit on all but the last chunk, '
           'and the bit layout of each form (short / one-line / long) is the one CPython decodes (sa/reference.py LOCATION_TABLE).  '
           'FIRST: the driver loop hands the encoder a variable as base line, assigns the result back to it and starts it from its own first-line parameter; CodeObjectNode builds the table '
           'with the expression it emits as co_firstlineno (the `first_line` field of the descriptor, field order read from the emitted typedef), that expression is pos[LINE] (LINE = the '
           'component the Plex scanner puts its line counter in), and the table string is converted with a codec that maps chr(n) to byte n.  '
           'ORDER: the function that fills node_positions sorts with the line component as primary key and stores an ASCENDING list (every reverse()/[::-1]/insert(0) accounted for); '
           'node_positions_to_offset numbers a list in the same order.  '
           'POSPAIR: for the variables that put_add_traceback hands to __Pyx_AddTraceback (line, C line, file name): in every class that parks them in other storage '
           '(TryFinallyStatNode.put_error_catcher/put_error_uncatcher, ParallelStatNode.fetch/restore_parallel_exception) the emitted save assignments and restore assignments are '
           'mirror images (same variable <-> same slot, line and file name included); in every method calling the saving helper the restoring helper (directly or through one '
           'wrapper method) receives the same local storage for each slot parameter - not a conditional, not None - and no jump to an error label happens between save and restore.  '
           'ERRPOS: both variants of __PYX_MARK_ERR_POS assign exactly one of the variables the traceback reads from module_file_table[param] (file) and one from a bare parameter (line), '
           'the C line from __LINE__, no variable changes role between the variants, __PYX_ERR forwards its parameters; every emission of the two macros (error_goto, set_error_info) puts '
           'lookup_filename(pos[FILE]) in the file parameter and pos[LINE] in the line parameter; in every #if variant of __Pyx_AddTraceback no parameter is used in two roles '
           '(C line: handed to __Pyx_CLineForTraceback; source line: PyCode_NewEmpty.firstlineno / __Pyx_PyFrame_SetLineNumber / "co_firstlineno"; file / function name: PyCode_NewEmpty '
           'parameters by header name, Py_CompileString), helper functions followed; put_add_traceback hands each position variable to a parameter of its own role.  '
           'FILETAB: GlobalState.lookup_filename returns, for every sequence of new/repeated descriptors up to length 4, the position of the file in filename_list, and the file table is '
           'emitted from filename_list in list order.  '
           'TBKEY: every variant of __Pyx_AddTraceback searches and fills the code-object cache under the same key expression.')
NOT_DECIDED = ('which positions the compiler records (mark_pos) and whether a node passes its own pos to error_goto; whether the guards inside the saving and the restoring helper agree '
               '(only the call-site arguments and the emitted assignments are compared); position handling of generators/coroutines across yields; the binary search of the '
               'code-object cache (__pyx_bisect_code_objects: a wrong search costs cache hits, a hit is validated against the key); completeness of the cache key with respect to '
               'function name and file (rule C44-TBKEY/key-complete is written and reports the unmodified tree: FINDING_2, pending); C-line handling inside __Pyx_CLineForTraceback.')
ASSUMPTIONS = ['positions are start-sorted, columns are non-negative, end line >= start line (the documented input contract of build_line_table)']


# Single-edit variants for C44-POSPAIR, run on a scratch copy (file, edit, expected construct); the last five are behaviour-preserving and stayed silent.
MUTATIONS = [
    ('Cython/Compiler/Nodes.py', 'seed C44b: put_error_uncatcher(..., exc_lineno_cnames if code.label_used(code.error_label) else None, ...)', 'C44-POSPAIR ...generate_execution_code:restore-arg:lineno_cname'),
    ('Cython/Compiler/Nodes.py', 'put_error_uncatcher: lineno <- exc_lineno_cnames[1], clineno <- exc_lineno_cnames[0]', 'C44-POSPAIR Nodes.TryFinallyStatNode:pos:lineno_cname:slot-mismatch'),
    ('Cython/Compiler/Nodes.py', 'put_error_uncatcher: file name no longer restored', 'C44-POSPAIR ...:pos:filename_cname:not-restored'),
    ('Cython/Compiler/Nodes.py', 'generate_execution_code: None passed for the line temps of put_error_uncatcher', 'C44-POSPAIR ...:restore-arg:lineno_cname'),
    ('Cython/Compiler/Nodes.py', 'generate_execution_code: put_goto(old_error_label) moved before put_error_uncatcher', 'C44-POSPAIR ...:error-exit-without-restore'),
    ('Cython/Compiler/Nodes.py', 'generate_execution_code: put_error_uncatcher only `if self.in_generator`', 'C44-POSPAIR ...:error-exit-without-restore'),
    ('Cython/Compiler/Nodes.py', 'ParallelStatNode.restore_parallel_exception: chain(*zip(self.parallel_pos_info, self.pos_info)) (copies in the save direction)', 'C44-POSPAIR Nodes.ParallelStatNode:pos:*:not-restored'),
    ('Cython/Compiler/Nodes.py', 'put_error_catcher: lineno saved into both line temps (clineno not saved)', 'C44-POSPAIR ...:pos:clineno_cname:not-saved'),
    ('Cython/Compiler/Nodes.py', 'restore extracted into a wrapper method that passes None for the line temps', 'C44-POSPAIR ...:restore-arg:lineno_cname'),
    ('Cython/Compiler/Nodes.py', 'put_error_uncatcher: parameters renamed, %-format -> two f-string putln calls in another order', None),
    ('Cython/Compiler/Nodes.py', 'call with keyword arguments through a local alias `pos_temps = exc_lineno_cnames`', None),
    ('Cython/Compiler/Nodes.py', '`if needs_success_cleanup:` -> `if not needs_success_cleanup: pass / else:`, temps released after the goto', None),
    ('Cython/Compiler/Nodes.py', 'uncatcher call + temp release + trace call extracted into a helper method (arguments handed through)', None),
]
# Fourth round: 32 breaking edits and 18 behaviour-preserving rewrites are kept as replayable patches under /verif/mutants/C44/<name>/ (meta.json says what each one
# breaks and which rule reports it); the thorough tier re-applies the reported ones on every run.  Mechanisms covered there: line-table driver, code object creation
# (first line, codec), position list order / offsets, error_goto / set_error_info argument roles, the position macros, __Pyx_AddTraceback parameter roles (both API variants),
# the code-object cache key, the file table index.


def find_encoder(ctx):
    """(functions of LineTable.py, the per-entry encoder, index of its base-line parameter).  The encoder is the function the driver loop hands each
    position to; its base-line parameter is the one subtracted from the start line (whether the driver feeds the result back is decided by C44-FIRST)."""
    from ..rules import sC44
    tree = ctx.parse('Cython/Compiler/LineTable.py')
    fns = {n.name: n for n in tree.body if isinstance(n, ast.FunctionDef)}
    rel, driver, loop, call, enc, base_idx = sC44._driver_facts(ctx)
    return fns, enc, base_idx


def rule_base(ctx):
    r = Rule('C44-BASE', "the value returned as next base line equals the entry's start line on every path", floor=2)
    fns, enc, base_idx = find_encoder(ctx)
    rel = 'Cython/Compiler/LineTable.py'
    base_param = enc.args.args[base_idx].arg
    # start/end variables: the tuple unpacking of the position argument
    start = end = None
    for n in walk_no_nested(enc):
        if isinstance(n, ast.Assign) and isinstance(n.targets[0], ast.Tuple) and len(n.targets[0].elts) == 4 and isinstance(n.value, ast.Name):
            start, end = n.targets[0].elts[0].id, n.targets[0].elts[1].id
    if start is None:
        raise AnalysisError('cannot find the (start_lineno, end_lineno, start_col, end_col) unpacking in %s' % enc.name)

    def check(fn, start, end):
        bad = []

        def tr(node, state):
            if isinstance(node, ast.Return):
                v = node.value
                ok = isinstance(v, ast.Name) and (v.id == start or (v.id == end and (
                    ('?', '%s == %s' % (end, start), True, frozenset({end, start})) in state or
                    ('?', '%s == %s' % (start, end), True, frozenset({end, start})) in state)))
                if not ok:
                    return frozenset(state | {('BAD', node.lineno, node_src(v) if v is not None else 'None')})
            return state
        o = pyflow.Flow(tr).run(fn)
        for st in o.returns | o.normal:
            bad += [f for f in st if isinstance(f, tuple) and f[0] == 'BAD']
        if o.normal:
            bad.append(('BAD', fn.lineno, 'falls off the end (None)'))
        return sorted(set(bad))
    nret = sum(1 for n in walk_no_nested(enc) if isinstance(n, ast.Return))
    for n in walk_no_nested(enc):
        if isinstance(n, ast.Return):
            r.inst('%s:return@%s' % (enc.name, node_src(n.value)), sample='%s returns %s' % (enc.name, node_src(n.value)))
    for b in check(enc, start, end):
        r.violate('LineTable.%s:return:%s' % (enc.name, b[2].split()[0]), rel, b[1],
                  "%s hands on %r as the base line for the next entry on a path where it is not known to equal the entry's start line %r: "
                  "CPython's decoder adds the next line delta to the START line, so every later line number is shifted by (end - start)" % (enc.name, b[2], start))
    # the delta written is start - base
    r.inst('%s:delta' % enc.name)
    ok = any(isinstance(n, (ast.Assign, ast.AnnAssign)) and isinstance(n.value, ast.BinOp) and isinstance(n.value.op, ast.Sub) and
             isinstance(n.value.left, ast.Name) and n.value.left.id == start and isinstance(n.value.right, ast.Name) and n.value.right.id == base_param
             for n in walk_no_nested(enc))
    if not ok:
        r.violate('LineTable.%s:delta' % enc.name, rel, enc.lineno, 'the line delta is no longer computed as %s - %s' % (start, base_param))
    pc = ast.parse("def e(t, p, last):\n    s, e, a, b = p\n    if e == s:\n        return e\n    return e\n").body[0]
    r.positive_control(len(check(pc, 's', 'e')) == 1, 'return end line in multi-line form')
    return r


class _ChrConcat(ast.NodeTransformer):
    """`chr(a) + chr(b) + "x"`  ->  f"{a:c}{b:c}x": the same string; the byte model of the NUM rules (engine/pyabs.bytes_of) reads chr(), f-strings with :c and
    literals, but not their concatenation with `+`"""

    @staticmethod
    def parts(e):
        if isinstance(e, ast.BinOp) and isinstance(e.op, ast.Add):
            a, b = _ChrConcat.parts(e.left), _ChrConcat.parts(e.right)
            return None if a is None or b is None else a + b
        if isinstance(e, ast.Call) and isinstance(e.func, ast.Name) and e.func.id == 'chr' and len(e.args) == 1 and not e.keywords:
            return [ast.FormattedValue(value=e.args[0], conversion=-1, format_spec=ast.JoinedStr(values=[ast.Constant(value='c')]))]
        if isinstance(e, ast.Constant) and isinstance(e.value, str):
            return [e]
        if isinstance(e, ast.JoinedStr):
            return list(e.values)
        return None

    def visit_BinOp(self, node):
        self.generic_visit(node)
        if isinstance(node.op, ast.Add):
            ps = self.parts(node)
            if ps is not None and any(isinstance(p, ast.FormattedValue) for p in ps):
                return ast.fix_missing_locations(ast.copy_location(ast.JoinedStr(values=ps), node))
        return node


class _NormCtx:
    """the analysis context with LineTable.py normalised by _ChrConcat (everything else is handed through)"""

    def __init__(self, ctx):
        self._ctx = ctx
        self._tree = None

    def parse(self, rel):
        if rel.endswith('Compiler/LineTable.py'):
            if self._tree is None:
                import copy
                self._tree = ast.fix_missing_locations(_ChrConcat().visit(copy.deepcopy(self._ctx.parse(rel))))
            return self._tree
        return self._ctx.parse(rel)

    def __getattr__(self, name):
        return getattr(self._ctx, name)


def run(ctx):
    rules = [rule_base(ctx)]
    from ..rules import num
    rules += num.linetable_rules(_NormCtx(ctx))
    from ..rules import sC44
    rules.append(sC44.rule_pospair(ctx))
    rules += [sC44.rule_errpos(ctx), sC44.rule_filetab(ctx), sC44.rule_tbkey(ctx), sC44.rule_first(ctx), sC44.rule_order(ctx)]
    # known finding K13 (FINDING_2 of session s4-G10): the traceback code-object cache is keyed by line number only; the repair reworks the runtime cache (struct, find, insert, both API variants)
    rules.append(sC44.rule_tbkey_complete(ctx))
    return rules
