"""C44 — line tables and positions (LineTable.py encoder vs. CPython's location-table format)."""
import ast

from ..core import Rule, AnalysisError, node_src
from ..engine import pyflow
from ..engine.pyindex import walk_no_nested

ID = 'C44'
TECHNIQUE = 'abstract interpretation (interval x known-bits-with-provenance) of the line-table encoder against the frozen CPython location-table format; path-sensitive base-line rule'
DECIDES = ('for LineTable.py under the input assumptions (columns >= 0, start >= last, end >= start): '
           'BASE: the line number handed on as the base of the next entry equals the START line of the entry just written on every path '
           "(CPython's decoder adds line deltas to start lines); "
           'NUM: every first byte of an entry has bit 7 set and a code field in the range of its form, every other byte is < 128, var-int chunks carry the continuation bit on all but the last chunk, '
           'and the bit layout of each form (short / one-line / long) is the one CPython decodes (sa/reference.py LOCATION_TABLE).')
NOT_DECIDED = 'which positions the compiler records (mark_pos), and traceback construction in Exceptions.c.'
ASSUMPTIONS = ['positions are start-sorted, columns are non-negative, end line >= start line (the documented input contract of build_line_table)']


def find_encoder(ctx):
    tree = ctx.parse('Cython/Compiler/LineTable.py')
    fns = {n.name: n for n in tree.body if isinstance(n, ast.FunctionDef)}
    if 'build_line_table' not in fns:
        raise AnalysisError('LineTable.build_line_table vanished')
    # the per-entry encoder is the function whose result build_line_table feeds back as its own argument
    driver = fns['build_line_table']
    enc = None
    for n in ast.walk(driver):
        if isinstance(n, ast.Assign) and isinstance(n.value, ast.Call) and isinstance(n.value.func, ast.Name) and \
                isinstance(n.targets[0], ast.Name) and any(isinstance(a, ast.Name) and a.id == n.targets[0].id for a in n.value.args):
            enc = (n.value.func.id, n.targets[0].id, [a.id if isinstance(a, ast.Name) else None for a in n.value.args].index(n.targets[0].id))
    if enc is None or enc[0] not in fns:
        raise AnalysisError('cannot find the per-entry encoder called from build_line_table')
    return fns, fns[enc[0]], enc[2]


def rule_base(ctx):
    r = Rule('C44-BASE', "the value returned as next base line equals the entry's start line on every path", floor=2)
    fns, enc, base_idx = find_encoder(ctx)
    rel = 'Cython/Compiler/LineTable.py'
    base_param = enc.args.args[base_idx].arg
    # start/end variables: the tuple unpacking of the position argument
    start = end = None
    for n in walk_no_nested(enc):
        if isinstance(n, ast.Assign) and isinstance(n.targets[0], ast.Tuple) and len(n.targets[0].elts) == 4 and isinstance(n.value, ast.Name):
            start, end = n.targets[0].elts[0].id, n.targets[0].elts[1].id
    if start is None:
        raise AnalysisError('cannot find the (start_lineno, end_lineno, start_col, end_col) unpacking in %s' % enc.name)

    def check(fn, start, end):
        bad = []

        def tr(node, state):
            if isinstance(node, ast.Return):
                v = node.value
                ok = isinstance(v, ast.Name) and (v.id == start or (v.id == end and (
                    ('?', '%s == %s' % (end, start), True, frozenset({end, start})) in state or
                    ('?', '%s == %s' % (start, end), True, frozenset({end, start})) in state)))
                if not ok:
                    return frozenset(state | {('BAD', node.lineno, node_src(v) if v is not None else 'None')})
            return state
        o = pyflow.Flow(tr).run(fn)
        for st in o.returns | o.normal:
            bad += [f for f in st if isinstance(f, tuple) and f[0] == 'BAD']
        if o.normal:
            bad.append(('BAD', fn.lineno, 'falls off the end (None)'))
        return sorted(set(bad))
    nret = sum(1 for n in walk_no_nested(enc) if isinstance(n, ast.Return))
    for n in walk_no_nested(enc):
        if isinstance(n, ast.Return):
            r.inst('%s:return@%s' % (enc.name, node_src(n.value)), sample='%s returns %s' % (enc.name, node_src(n.value)))
    for b in check(enc, start, end):
        r.violate('LineTable.%s:return:%s' % (enc.name, b[2].split()[0]), rel, b[1],
                  "%s hands on %r as the base line for the next entry on a path where it is not known to equal the entry's start line %r: "
                  "CPython's decoder adds the next line delta to the START line, so every later line number is shifted by (end - start)" % (enc.name, b[2], start))
    # the delta written is start - base
    r.inst('%s:delta' % enc.name)
    ok = any(isinstance(n, (ast.Assign, ast.AnnAssign)) and isinstance(n.value, ast.BinOp) and isinstance(n.value.op, ast.Sub) and
             isinstance(n.value.left, ast.Name) and n.value.left.id == start and isinstance(n.value.right, ast.Name) and n.value.right.id == base_param
             for n in walk_no_nested(enc))
    if not ok:
        r.violate('LineTable.%s:delta' % enc.name, rel, enc.lineno, 'the line delta is no longer computed as %s - %s' % (start, base_param))
    pc = ast.parse("def e(t, p, last):\n    s, e, a, b = p\n    if e == s:\n        return e\n    return e\n").body[0]
    r.positive_control(len(check(pc, 's', 'e')) == 1, 'return end line in multi-line form')
    return r


def run(ctx):
    rules = [rule_base(ctx)]
    from ..rules import num
    rules += num.linetable_rules(ctx)
    return rules
