"""C35 — reference counts stay balanced on every path (structural clause: the code generator's own ownership protocols)."""
from ..rules import gen2, sC35

ID = 'C35'
TECHNIQUE = ('typestate/pairing dataflow over the code generator (evaluate -> dispose -> free_temps, allocate_temp -> release_temp, bracket pairs) on every normal path, class-level pairing for split protocols; '
             'ARGS: decision table of the emitted cleanup events, extracted with the path-enumerating evaluator (sibling methods inlined through the MRO) over the complete star/starstar/kwonly domain')
DECIDES = ('G1: every sub-expression the generator evaluates is disposed of and its temporaries are freed on every normal path (or ownership is handed to generate_assignment_code / the inherited subexpression handling); '
           'G2: every temporary obtained from allocate_temp is released on every normal path or by a sibling method; '
           'G5: emission brackets (blocks, ensured GIL, free-threading lock, trace yield/resume) balance on every normal path; '
           'G7: a reference held in an unmanaged temp is released before the first error exit emitted after its last use; '
           'ARGS: for every signature class (star_arg present/absent x starstar_arg present/absent x keyword-only arguments) the cleanup block behind the argument-unpacking '
           'error label of DefNodeWrapper.generate_argument_parsing_code releases the entry of every star argument that exists, on every path (helper methods inlined), and '
           'generate_stararg_init_code releases an entry it has marked as owned (put_var_gotref) before every later emitted `return`.')
NOT_DECIDED = ('reference balance inside the C helpers and on error paths of the generated C other than the argument-unpacking exits (needs the running refnanny); ordering of emitted error checks relative to decrefs; '
               'null-safety of conditional acquisitions other than the argument entries covered by C35-ARGNULL.')


def run(ctx):
    # sC35.rule_args_nullsafe found generate_stararg_init_code decref_clear-ing the NULL entry of an unused **kwargs (Py_DECREF(NULL) when the *args slice fails); repaired in /repo (63b53eadb)
    return [gen2.rule_G1(ctx), gen2.rule_G2(ctx), gen2.rule_G5(ctx), gen2.rule_G7(ctx), sC35.rule_args(ctx), sC35.rule_args_nullsafe(ctx)]


MUTATIONS = [
    # (file, single edit on a scratch copy, rule / construct that reported it)
    ('Cython/Compiler/Nodes.py', 'seed C35b: error-label cleanup `if has_star_or_kw_args:` -> `if self.star_arg:`', 'C35-ARGS Nodes.DefNodeWrapper.generate_argument_parsing_code:starstar_arg'),
    ('Cython/Compiler/Nodes.py', 'error-label cleanup `if has_star_or_kw_args:` -> `if has_kwonly_args:`', 'C35-ARGS ...:starstar_arg and :star_arg'),
    ('Cython/Compiler/Nodes.py', 'generate_arg_decref: `if arg:` -> `if not arg:`', 'C35-ARGS ...generate_argument_parsing_code:star_arg'),
    ('Cython/Compiler/Nodes.py', 'error-label cleanup: delete `self.generate_arg_decref(self.star_arg, code)`', 'C35-ARGS ...:star_arg'),
    ('Cython/Compiler/Nodes.py', 'error-label cleanup: `if self.starstar_arg:` -> `if self.starstar_arg and self.star_arg:`', 'C35-ARGS ...:starstar_arg'),
    ('Cython/Compiler/Nodes.py', 'generate_stararg_init_code: delete `if self.starstar_arg: code.put_var_decref_clear(self.starstar_arg.entry)` before the early return', 'C35-ARGS Nodes.DefNodeWrapper.generate_stararg_init_code:starstar_arg'),
]
SILENT_EDITS = [
    'error-label cleanup: outer guard replaced by `if True:`; by `if not (self.star_arg is None and self.starstar_arg is None and not has_kwonly_args):` with the star release written inline',
    'error-label cleanup block extracted into a new method `_release_star_args(code)` (alias `kw = self.starstar_arg`, early `return` when absent)',
    'generate_stararg_init_code: explicit `if self.starstar_arg: put_var_decref_clear(...)` replaced by `self.generate_arg_decref(self.starstar_arg, code)`',
]
