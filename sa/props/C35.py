"""C35 — reference counts stay balanced on every path (structural clause: the code generator's own ownership protocols)."""
from ..rules import gen2, sC35

ID = 'C35'
TECHNIQUE = 'typestate/pairing dataflow over the code generator (evaluate -> dispose -> free_temps, allocate_temp -> release_temp, bracket pairs) on every normal path, class-level pairing for split protocols'
DECIDES = ('G1: every sub-expression the generator evaluates is disposed of and its temporaries are freed on every normal path (or ownership is handed to generate_assignment_code / the inherited subexpression handling); '
           'G2: every temporary obtained from allocate_temp is released on every normal path or by a sibling method; '
           'G5: emission brackets (blocks, ensured GIL, free-threading lock, trace yield/resume) balance on every normal path; '
           'G7: a reference held in an unmanaged temp is released before the first error exit emitted after its last use.')
NOT_DECIDED = 'reference balance inside the C helpers and on error paths of the generated C (needs the running refnanny); ordering of emitted error checks relative to decrefs.'


def run(ctx):
    return [gen2.rule_G1(ctx), gen2.rule_G2(ctx), gen2.rule_G5(ctx), gen2.rule_G7(ctx), sC35.rule_args(ctx)]
