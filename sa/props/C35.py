"""C35 — reference counts stay balanced on every path (structural clause: the code generator's own ownership protocols)."""
from ..rules import gen2, sC35

ID = 'C35'
TECHNIQUE = ('typestate/pairing dataflow over the code generator (evaluate -> dispose -> free_temps, allocate_temp -> release_temp, bracket pairs) on every normal path, class-level pairing for split protocols; '
             'ARGS: decision table of the emitted cleanup events, extracted with the path-enumerating evaluator (sibling methods inlined through the MRO) over the complete star/starstar/kwonly domain; '
             'fourth round: finite-state dataflow over the control-flow graph of C helpers (all preprocessor variants) for reference slots (INOUT); symbolic execution of the refcount macro family and of the '
             'text PyObjectType emits on r in {NULL, object} in both CYTHON_REFNANNY configurations (REFTAB); boolean decision tables of the argument incref / decref loops on both sides of the function body '
             '(ARGPAIR) and of the temp free lists (TEMPKEY); ordered typestate E -> D -> F confirmed on the exact decision table of the method (LIFE); concrete interpretation of the nanny\'s reference table '
             'on the complete count partition {absent, 1, 2, 3, NULL} (NANNY)')
DECIDES = ('G1: every sub-expression the generator evaluates is disposed of and its temporaries are freed on every normal path (or ownership is handed to generate_assignment_code / the inherited subexpression handling); '
           'G2: every temporary obtained from allocate_temp is released on every normal path or by a sibling method; '
           'G5: emission brackets (blocks, ensured GIL, free-threading lock, trace yield/resume) balance on every normal path; '
           'G7: a reference held in an unmanaged temp is released before the first error exit emitted after its last use; '
           'ARGS: for every signature class (star_arg present/absent x starstar_arg present/absent x keyword-only arguments) the cleanup block behind the argument-unpacking '
           'error label of DefNodeWrapper.generate_argument_parsing_code releases the entry of every star argument that exists, on every path (helper methods inlined), and '
           'generate_stararg_init_code releases an entry it has marked as owned (put_var_gotref) before every later emitted `return`. '
           'INOUT: a C helper that releases the reference held in a `PyObject **` slot (decref of *p or of a local loaded from it) stores a new value or NULL into the slot before every return. '
           'REFTAB: CCodeWriter.put_<op> -> type.get_<op>_code -> __Pyx_<OP> agree by operation; every macro of the family __Pyx_[Py_][X]{INCREF,DECREF,GOTREF,GIVEREF,CLEAR,DECREF_SET} has the effect of its '
           'name in both refnanny configurations (one acquire/release of the old value, routed through the nanny exactly when it is on, X variants inert on NULL, CLEAR/_SET store before they release); the '
           'text PyObjectType.get_<op>_code returns has the effect of <op> for nanny x clear_before_decref. '
           'LIFE: X.free_temps(code) is reached only after X was disposed of / handed over on every path since X.generate_evaluation_code(code) in the same method. '
           'OVR: a node class overriding generate_disposal_code / free_temps handles every self.X its evaluation method evaluates explicitly. '
           'ERRLBL: behind the error label of each C function (FuncDefNode, DefNodeWrapper, GeneratorBodyDefNode, module init function; the sub-function writer nested in ModuleNode.mod_init_subfunction is not reached) all managed temps are XDECREF\'ed. '
           'ARGPAIR: an argument entry is incref\'ed before the function body exactly when it is decref\'ed at the exit (all flag combinations of in_closure / cf_is_reassigned / acquire_gil / memoryview). '
           'TEMPKEY: a reused temp leaves the free set, a released temp enters it on every path, temps_in_use() lists exactly the temps not in it. '
           'TEMPEND: ExprNode.generate_disposal_code releases an owned temp with a clearing decref and never a borrowed one; generate_post_assignment_code resets a handed-over temp without releasing it. '
           'NANNY: refnanny Context.regref / delref keep an exact per-object count, refuse one decref too many; DECREF is gated by that verdict.')
DECIDES += (' BORROW (seventh round, rules/s7C35.py): the result of a borrowed-reference C-API call (table from the C-API manual; __Pyx_ macros resolved through the utility-code catalogue) stored into a slot '
            'the generator owns (GOTREF / INCREF / managed temp) is made owned - incref, or removal of the item from its container (`ob_size--`) - before any child code or foreign error exit '
            'is emitted, per emitted #if arm, on every path. '
            'SETUP: while an unmanaged temp owns a reference (GOTREF emitted) child expression code and error exits are emitted only under an error label created by the function, '
            'and that label is placed with a release of the temp on every path on which it may have been used.')
DECIDES += (' ERRAPI / HELD (eighth round, rules/s8C35.py): the error-exit emitters of CCodeWriter are derived from Code.py (closure of the methods that forward a position to error_goto: '
            'error_goto_if*, put_error_if_neg, put_error_if_unbound, the trace emitters, wrappers added later) and used by BORROW, SETUP and HELD; HELD: on every path through a generator function no such exit, '
            'no helper method of the node that emits one, no fallible child code and no conditional jump to a label without a release is emitted under the surrounding error label between the last use of '
            'an unmanaged temp and the release the function emits for it; an exit that mentions the temp is exempt only when it is its NULL test.')
NOT_DECIDED = ('reference balance inside the C helpers other than the slot protocol of INOUT, and on error paths of the generated C other than the argument-unpacking exits and the function error label '
               '(needs the running refnanny); ordering of emitted error checks relative to decrefs outside G7; '
               'null-safety of conditional acquisitions other than the argument entries covered by C35-ARGNULL; '
               'that a borrowed Py_None stored into an owned variable is incref\'ed (mutant closure-none-incref: the general rule would also report ScopedExprNode._generate_vars_cleanup, '
               'whose `__Pyx_DECREF_SET(<cglobal>, Py_None)` has no INCREF and cannot be demonstrated on an interpreter with an immortal None); '
               'which sub-expressions a node evaluates through loops over lists of nodes (LIFE/OVR see explicit self.X receivers only).')


DECIDES += (' MGDCLEAR (batch 12, rules/s10C35.py): every local bound from allocate_temp(..., manage_ref=True) in a code-generating function is given up only through a clearing '
            'decref emitter (put_decref_clear / put_xdecref_clear) or a plain put_decref / put_xdecref directly followed by an emitted assignment to the same temp; a managed temp that keeps a '
            'released pointer is released again by the error cleanup (XDECREF of all managed temps).')
TECHNIQUE += '; syntactic typestate of managed temps (allocation site -> decref emitter -> next emitted statement) over all code-generating functions, instances inferred from the allocation calls'


def run(ctx):
    # sC35.rule_args_nullsafe found generate_stararg_init_code decref_clear-ing the NULL entry of an unused **kwargs (Py_DECREF(NULL) when the *args slice fails); repaired in /repo (63b53eadb)
    rules = [gen2.rule_G1(ctx), gen2.rule_G2(ctx), gen2.rule_G5(ctx), gen2.rule_G7(ctx), sC35.rule_args(ctx), sC35.rule_args_nullsafe(ctx)]
    # fourth round
    rules.append(sC35.rule_inout(ctx))
    rules.append(sC35.rule_reftab(ctx))
    rules += [sC35.rule_life(ctx), sC35.rule_ovr(ctx), sC35.rule_errlabel(ctx), sC35.rule_argpair(ctx), sC35.rule_tempkey(ctx), sC35.rule_tempend(ctx), sC35.rule_nanny(ctx)]
    # round 6 (rules/dD4.py, shared with C22): a reference parked in an unmanaged temp while a child generates code is released on every exit of that child
    from ..rules import dD4
    rules += [dD4.rule_parked(ctx), dD4.rule_retlive(ctx)]
    # seventh round (rules/s7C35.py): borrowed results in owned slots; cleanup label covering the whole life of an unmanaged owned temp
    from ..rules import s7C35
    rules += s7C35.rules(ctx)
    # eighth round (rules/s8C35.py): error-exit emitters derived from CCodeWriter (also used by BORROW / SETUP); path-sensitive G7 over that set
    from ..rules import s8C35
    rules += s8C35.rules(ctx)
    # batch 12 (rules/s10C35.py): a managed temp is given up only by a clearing decref or decref-then-overwrite
    from ..rules import s10C35
    rules += s10C35.rules(ctx)
    return rules


MUTATIONS = [
    ('Cython/Compiler/ExprNodes.py', 'SEED C35o: generate_generic_parallel_unpacking_code: put_decref_clear(iterator_temp) -> put_decref(iterator_temp) at the unpacking_failed label', 'C35-MGDCLEAR ExprNodes.SequenceNode.generate_generic_parallel_unpacking_code:iterator_temp'),
    # (file, single edit on a scratch copy, rule / construct that reported it)
    ('Cython/Compiler/Nodes.py', 'seed C35b: error-label cleanup `if has_star_or_kw_args:` -> `if self.star_arg:`', 'C35-ARGS Nodes.DefNodeWrapper.generate_argument_parsing_code:starstar_arg'),
    ('Cython/Compiler/Nodes.py', 'error-label cleanup `if has_star_or_kw_args:` -> `if has_kwonly_args:`', 'C35-ARGS ...:starstar_arg and :star_arg'),
    ('Cython/Compiler/Nodes.py', 'generate_arg_decref: `if arg:` -> `if not arg:`', 'C35-ARGS ...generate_argument_parsing_code:star_arg'),
    ('Cython/Compiler/Nodes.py', 'error-label cleanup: delete `self.generate_arg_decref(self.star_arg, code)`', 'C35-ARGS ...:star_arg'),
    ('Cython/Compiler/Nodes.py', 'error-label cleanup: `if self.starstar_arg:` -> `if self.starstar_arg and self.star_arg:`', 'C35-ARGS ...:starstar_arg'),
    ('Cython/Compiler/Nodes.py', 'generate_stararg_init_code: delete `if self.starstar_arg: code.put_var_decref_clear(self.starstar_arg.entry)` before the early return', 'C35-ARGS Nodes.DefNodeWrapper.generate_stararg_init_code:starstar_arg'),
]
MUTATIONS += [
    # fourth round: every entry below is stored under /verif/mutants/C35/<name>/ and replayed by the thorough tier
    ('Cython/Utility/TypeConversion.c', 'seed C35d / inout-float-bad: __Pyx__Py{Int,Float}_FromNumber failure exit without `*number_var = NULL`', 'C35-INOUT'),
    ('Cython/Utility/Exceptions.c', 'inout-egmatch-stale: __Pyx_ExceptionGroupMatch drops the re-assignment of *match after Py_DECREF(*match)', 'C35-INOUT'),
    ('Cython/Compiler/Code.py', 'put-xdecref-nonnull: put_xdecref -> type.get_decref_code', 'C35-REFTAB api:CCodeWriter.put_xdecref'),
    ('Cython/Compiler/PyrexTypes.py', 'xdecref-clear-nullcheck / decref-clear-noreset: get_xdecref_clear_code null_check=False; clear=True no longer resets the variable', 'C35-REFTAB type:PyObjectType.*'),
    ('Cython/Utility/ModuleSetupCode.c', 'macro-xdecref-set-nonnull / macro-clear-wrong-operand / macro-xgiveref-guard', 'C35-REFTAB macro:*'),
    ('Cython/Compiler/Nodes.py', 'arg-exit-decref-guard / var-arg-incref-guard: one side of the argument incref/decref guards changed', 'C35-ARGPAIR'),
    ('Cython/Compiler/Nodes.py, ModuleNode.py', 'errlabel-temps-in-use / errlabel-gen-decref / errlabel-module-dropped', 'C35-ERRLBL'),
    ('Cython/Compiler/Code.py', 'temp-freelist-remove / temp-in-use-inverted', 'C35-TEMPKEY'),
    ('Cython/Compiler/ExprNodes.py', 'dictitem-disposal-dropped (override without the value) / attr-assign-obj-disposal (free_temps without disposal)', 'C35-OVR / C35-LIFE'),
    ('Cython/Compiler/ExprNodes.py', 'post-assign-no-clear / disposal-plain-decref / disposal-borrowed', 'C35-TEMPEND'),
    ('Cython/Runtime/refnanny.pyx', 'refnanny-delref-count / refnanny-regref-noinc / refnanny-decref-unguarded', 'C35-NANNY'),
    ('Cython/Compiler/Nodes.py', 'closure-none-incref: MISSED (see NOT_DECIDED)', '-'),
]
MUTATIONS += [
    # seventh round: mutants/C35/g7-*
    ('Cython/Compiler/ExprNodes.py', 'seed C35i: starred unpacking shrinks the list once after the loop; shrink dropped / after the coercion / on the wrong list; borrowed read in the #else arm; tuple unpacking without incref', 'C35-BORROW'),
    ('Cython/Compiler/Nodes.py, ModuleNode.py', 'incref of the borrowed bases item / module dict emitted after a foreign error exit', 'C35-BORROW'),
    ('Cython/Compiler/Nodes.py', 'seed C35j: __enter__ call generated before the cleanup label of exit_var is installed; label put back early / installed late; cleanup without the release / releasing another temp / '
     'under the wrong label_used test / removed; extra error exit before the label', 'C35-SETUP (G7 for the last)'),
]
MUTATIONS += [
    # eighth round: mutants/C35/h8-*
    ('Cython/Compiler/ExprNodes.py, Nodes.py, Code.py, ModuleNode.py', 'seed C35k: put_error_if_neg moved in front of the release of the __exit__ result; the same through error_goto_if_neg in the using putln, '
     'through an extracted helper method, through a new CCodeWriter wrapper; with_stat.exit_var released after the NULL check of the call; star-except: unconditional exit before the decref of the prepared group, '
     'pattern tuple released after the conditional jump / after a put_error_if_neg; put_error_if_neg before the cleanup label of WithStatNode; put_error_if_neg before the incref of the borrowed module dict',
     'C35-HELD / C35-SETUP / C35-BORROW (G7 for the error_goto forms)'),
]
SILENT_EDITS = [
    'error-label cleanup: outer guard replaced by `if True:`; by `if not (self.star_arg is None and self.starstar_arg is None and not has_kwonly_args):` with the star release written inline',
    'error-label cleanup block extracted into a new method `_release_star_args(code)` (alias `kw = self.starstar_arg`, early `return` when absent)',
    'generate_stararg_init_code: explicit `if self.starstar_arg: put_var_decref_clear(...)` replaced by `self.generate_arg_decref(self.starstar_arg, code)`',
    'fourth round (mutants/C35/ok-*): single-exit rewrite of __Pyx__PyInt_FromNumber that stores NULL through the result variable; put_xdecref through a local bound method; %-format instead of f-string in '
    '_get_decref_code; De Morgan on the argument release guard; the argument incref loop extracted into a helper with regrouped tests; error-label cleanup through a local / extracted into a helper method; '
    '__Pyx_XCLEAR / __Pyx_XDECREF with a positive NULL test and renamed local; reordered free-list updates; delref computing the remaining count first; generate_disposal_code with an early return; '
    'disposal + free_temps called through a loop over bound methods',
    'eighth round (mutants/C35/ok8-*): WithExitCallNode with if/else branches that release before the check; renamed local + early return + putln(error_goto_if_neg) after the release; truth test and release '
    'extracted into a helper; StarExceptPrepAndReraiseNode with reordered independent statements, a separate NULL-test putln and a renamed local',
]
