"""C20 — operands and targets are evaluated left to right, exactly once (structural clauses of the code generators and of the temp-wrapping rewrites)."""
from ..rules import pC20

ID = 'C20'
TECHNIQUE = ('evaluation-sequence extraction: path-wise order of the generate_evaluation_code / generate_assignment_code requests each node class makes to its operands (MRO-resolved, '
             'helper methods inlined, local aliases followed, the default iteration over `subexprs` expanded), compared with a frozen order table taken from the language reference; '
             'abstract interpretation of the rewriting functions of Optimize.py over provenance paths (which operand of the original node a value comes from), temporaries, lists '
             'built in loops (with iteration polarity) and evaluation-ordered operand sequences of the constructed tree (operands of known node classes ordered by the extracted '
             'sequences; loop-carried wrappers solved symbolically); '
             'writer/reader decision tables of one node class extracted by partial evaluation (sa/rules/sC14.Emu): under which flag valuations the code generator pastes an operand\'s C result '
             'besides/more than the one evaluation vs. under which the analysis method made the operand simple, compared over all valuations of the shared flags (type flags pruned with the '
             'flag table of the PyrexTypes classes); order typestate (EMPTY/ASC/DESC/PERM/unknown relative to a source sequence, position tags, keyed lookups) of the lists of temporaries that '
             'are wrapped around a node in a loop, in every module; '
             'interpretation of the *source* of tree rewrites / emitters by the checker\'s own evaluator (sa/rules/sC21.MiniPy; nothing of the repository is imported or executed) on complete '
             'families of small abstract inputs (assignment shapes, augmented-assignment targets, and/or trees, keyword call shapes), the rewritten tree / emitted skeleton evaluated by the checker '
             'under the node semantics C20-ORDER establishes and compared with the language reference applied to the original statement; iteration polarity of code-generation loops over child lists; '
             'round 8 (rules/s8C20.py): path-complete evaluation of the boolean methods is_simple() / coerce_to_simple() / coerce_to_temp() over their atoms')
DECIDES = ('C20-ORDER: for each entry of the order table (binary and boolean operators, conditional expression, comparisons incl. cascades, subscription, slicing, dict item, the three '
           'call node classes, cached method calls, f-string value/spec, display * factor, single/cascaded/parallel/augmented assignment, for-in, raise-from, and the let constructs '
           'EvalWithTempExprNode/LetNode) and every subclass: on every code-generation path the earlier operand is asked for its evaluation code before the later one. '
           'C20-ONCE: on no code-generation path of these classes the same operand is asked twice. '
           'LET-ORDER: every function of Optimize.py that wraps temporaries (LetRefNode/ResultRefNode) with EvalWithTempExprNode/LetNode returns trees whose operand evaluation order '
           '(outermost temporary first, then the body; operands of constructed nodes in the order of C20-ORDER) keeps operands of one source list in index order and sibling '
           'operands in table order, unless the operand is established to be side-effect free by is_simple()/try_is_simple()/is_literal/is_name on that path; runs of temporaries are '
           'not wrapped back to front, and every temporary that carries an operand and is referenced by the returned tree is bound by a let (otherwise the operand is never evaluated). '
           'C20-DROP: a rewrite in Optimize.py empties the operand list of an existing node only under a test that establishes the operands as side-effect free. '
           'C20-PASTE: for every expression node class of ExprNodes.py whose own code generator pastes `self.<operand>.result()` into statements it emits in addition to the evaluation it delegates '
           'to its base class (DivNode: zero-division, overflow and cdivision-warning tests), or at least twice into its result expression (CoerceToComplexNode, CoerceCStringToBooleanNode): '
           'under every valuation of the flags both phases consult the analysis method / constructor has made that operand simple (coerce_to_simple/coerce_to_temp) - otherwise a non-simple C '
           'operand is evaluated once per paste and operands that did get a temporary run before it. '
           'C20-STACK: for every loop that stacks EvalWithTempExprNode/LetNode wrappers from a list (11 sites in ExprNodes, Nodes, Optimize, ParseTreeTransforms): the evaluation order of the '
           'temporaries (reverse of the wrapping order) is not definitely the reverse of, or a permutation of, the source order of the operands they carry - a list filled while iterating another '
           'sequence with operands fetched by key (GeneralCallNode.map_to_simple_call_node: declared parameters vs. keyword arguments) must be re-sorted by the recorded source position. '
           'C20-REWRITE: for the 232 chained assignments T1 [= T2 [= T3]] = display of the family (displays of 2-4 items, nested once, tuple / list, a name or an attribute among the items; per link '
           'every compatible target shape: whole, item by item, starred first / last / middle, nested) the tree PostParse builds (flatten_parallel_assignments, map_starred_assignment, '
           'eliminate_rhs_duplicates, sort_common_subsequences, the let stacking of _visit_assignment_node) evaluates every right-hand side item exactly once, the temporaries in source order '
           'among themselves, the items left in the partial assignments in source order among themselves, no temporary before its let, and gives every target the value CPython gives it. '
           'C20-INPLACE: for 12 augmented-assignment target shapes (name, attribute, subscript, nested twice, primaries that are names or calls) ExpandInplaceOperators makes every call of the '
           'target and of the right-hand side once, in source order, binds temporaries before use and stores once, last. '
           'C20-SHORT: for every and/or tree with up to four operands (100 trees incl. result type object / C) and every truth valuation the if/goto skeleton BoolBinopNode / BoolBinopResultNode '
           'emit evaluates exactly the operands Python evaluates, in order, and yields the value of the same operand. '
           'C20-LISTDIR: every code-generation loop (23 sites) that requests evaluation / assignment code from the elements of a child list (display items, dict items, constituent and cascaded '
           'assignments, unpacking targets, default sub-expressions) iterates the list front to back. '
           'C20-KWMAP: for the 183 calls of the family (3 and 4 declared parameters x positional / keyword split x keyword order x simple / non-simple arguments) map_to_simple_call_node evaluates '
           'every non-simple argument once, in the order written, and binds every temporary. '
           'C20-BATCH (round 7): every code-generation loop of ExprNodes.py over a child list (11 sites) that requests the evaluation code of an element does not, in the same iteration, emit an operation on '
           'that element which the generator itself declares fallible (put_error_if_neg / error_goto...; helper methods inlined, emitted text followed through locals): all items of a set display are evaluated '
           'before the first PySet_Add (unhashable item / logging __hash__ are observed after the last item expression, as with BUILD_SET); the unpacking displays (MergedSequenceNode, the `**` items of '
           'MergedDictNode) are the table of exceptions taken from the language reference. '
           'C20-CHAIN (round 7): for the linked chain of a chained comparison (chain classes are found structurally: one child attribute through which >= 2 non-framework methods call themselves with a compatible '
           'signature; heads = classes that enter the chain with another signature): (A) every chain method that rewrites / evaluates an operand of its own link calls itself on the next link on every completing '
           'path on which a next link may exist; (C) an operand that a link (or the head) asks for its evaluation code and also hands to the next link is made simple (coerce_to_simple / coerce_to_temp) in a '
           'method that is applied to the chain, under no stronger condition than "there is a next link" (or "not simple yet"). '
           'C20-SIMPLE (round 8): the is_simple() contract behind every coerce_to_simple() consumer (chained assignment / comparison, and/or operands, slice bounds, clones): for every expression node class '
           'of ExprNodes.py / UtilNodes.py and every operand in `subexprs` whose result() the class pastes into its own result expression (calculate_result_code / result, helpers inlined; 52 class x operand '
           'pairs, 8 classes with an is_simple() of their own): over ALL valuations of the tests is_simple() makes (MRO-resolved, self methods and result_in_temp() inlined, aliases followed) there is none with '
           'is_simple() true, the node not in a temporary, the operand present and neither <operand>.is_simple() nor <operand>.result_in_temp() established; and ExprNode.coerce_to_simple / every coerce_to_temp '
           'return the node itself only on paths where is_simple() / result_in_temp() (evaluated after the operand coercions the method performed) holds for every valuation.')
NOT_DECIDED = ('C20-SIMPLE: that every consumer which refers to an operand more than once asks for coerce_to_simple (C20-PASTE / C20-CHAIN decide that for their classes); CloneNode.arg and other references outside `subexprs`; classes whose is_simple() answers True and whose result is a cached C name / constant are accepted because they paste no operand; nodes that are simple by an argument outside the node (NameNode of a C global modified by a call in between). '
               'C20-BATCH: dict displays (DictNode and the pairs inlined by MergedDictNode are filled pair by pair on the unmodified tree: FINDING_1 of session J5, rule part C20-BATCH-DICT unregistered); operations the generator does not '
               'declare fallible; loops outside ExprNodes.py. C20-CHAIN: a chain method whose only recursive call was removed and that the head calls on itself (CmpNode.coerce_operands_to) is no longer recognisable as one; '
               'whether coerce_to_simple really yields a simple node. '
               'assignment / call / target shapes outside the families of C20-REWRITE, C20-INPLACE, C20-KWMAP (longer chains, deeper nesting, string unpacking, C struct targets); the relative order of '
               'temporaries and inline items in flattened assignments and the routing of re-ordered keyword arguments are decided by C20-REWRITE-XORDER and C20-KWMAP-ROUTING (armed after the repairs of '
               'FINDING_2 and FINDING_4 of session s4-G5); the re-read of the owner NAME / C-level attribute path of an augmented target is the known finding K14 (C01-INPLACE-NAME, shared with C01; '
               'C20-INPLACE-READONCE, whose model does not know result_in_temp(), stays unregistered); '
               'the order of the `refs` list SingleAssignmentNode.unroll hands to unroll_assignments (built by straight-line appends in another method); '
               'temporaries introduced by coercions and by analyse_types (coerce_to_temp etc.) beyond the paste/simple agreement of C20-PASTE (TypecastNode, PyMethodCallNode, JoinedStrNode, YieldExprNode '
               'exceed the evaluator: info lines); C20-STACK reports only definite disorder - where a list comes from a helper or a parameter its order is not established (info lines); '
               'the relative order of two ascending runs that are concatenated; the order inside helper C functions; short-circuit behaviour beyond the order of the two '
               'operands; rewrites that do not use the let constructs (e.g. argument re-packing in call optimisations, ConstantFolding dropping `[f()] * 0` operands - observed: '
               'f is not called); whether a value established as is_simple() really is side-effect free; generator/closure evaluation order; '
               'rewrites outside Optimize.py (ExpandInplaceOperators and SingleAssignmentNode.unroll were read: they keep source order).')
ASSUMPTIONS = ['C20-REWRITE / INPLACE / KWMAP: type analysis of operand nodes keeps the operand sub-trees in place (analyse_* / coerce_* are the identity in the interpreted rewrites); '
               'operand leaves are opaque calls (non-simple), names and literals (simple), attribute reads (side effect, not simple)',
               'a node constructor call evaluates exactly the sub-trees handed to it; for node classes whose evaluation sequence is extracted the operands are ordered by it, otherwise in '
               'argument order', 'attributes that are not child attributes of any node class (pos, type, entry, constant_result ...) are not sub-trees',
               'the handlers receive their operand lists in source order (args[i] before args[j] for i < j)']
EXEMPT = {
    ('LET-ORDER', 'Optimize.IterationTransform._transform_enumerate_iteration:enumerate_function.arg_tuple.args[1]-before-enumerate_function.arg_tuple.args[0]'
                  '@only-when(iterable.type.is_memoryviewslice=False,iterable.type.is_pyobject=False)'):
        'infeasible path: the iterable is an argument of a call to the Python builtin enumerate(), and SimpleCallNode.analyse_types has coerced call arguments to Python objects '
        'before this transform runs (memoryview slices are the one exception and are covered by the guard). Confirmed by compiling enumerate(cpp_vector_call(), start()), '
        'enumerate(get_struct().arr, start()) with PYTHONPATH=/repo: the iterable is evaluated first in both. The unqualified construct (any operand type) is NOT exempted.',
}
# Genuine defects on the unchanged tree that these rules report (each confirmed by compiling a module with PYTHONPATH=/repo in a temp dir; v(name) logs its name):
#  1. LET-ORDER _transform_enumerate_iteration (DESIGN finding 21): for i, x in enumerate(v('a'), v('b')) logs ['b', 'a'].
#  2. LET-ORDER FlattenInListTransform.visit_PrimaryCmpNode (finding 22): v('x') in (v('a'), v('b')) logs ['a', 'b', 'x'].
#  3. LET-ORDER _optimise_min_max (finding 23; both spellings min(a, b, c) and min((a, b, c))): min(v('a'), v('b'), v('c')) logs ['b', 'c', 'a'].
#  4. LET-ORDER _transform_range_iteration (new): cdef int i; for i in range(v('a'), v('b')) logs ['b', 'a'] (the stop bound's LetNode wraps the loop that evaluates the start bound).
#  5. LET-ORDER _handle_simple_function_isinstance (new): isinstance(v('a'), (v('b'),)) logs ['b', 'a'] (a single non-builtin type in a tuple gets a temporary, the object does not).
#  6. LET-ORDER _handle_simple_method_list_extend (new): (<list>v('l')).extend([v('a')]) logs ['a', 'l'] (one item: the item gets a temporary, the list expression does not).
#  7. C20-ORDER InPlaceAssignmentNode.generate_execution_code (new): def f(int[:] buf): buf[v('i')] += v('r') logs ['r', 'i'] (CPython evaluates the target's subscript first).
#  8. C20-DROP ConstantFolding._calculate_constant_seq (new): [v('a')] * 0 and (v('a'), v('b')) * -1 log [] - the operands are deleted without being evaluated.

# Single-edit variants tried on a scratch copy: (file, edit, rule/construct that reported it).
MUTATIONS = [
    ('Cython/Compiler/ExprNodes.py', "BinopNode: subexprs = ['operand2', 'operand1']", 'C20-ORDER ExprNodes.BinopNode/AddNode/...:eval:operand1<eval:operand2'),
    ('Cython/Compiler/ExprNodes.py', "IndexNode: subexprs = ['index', 'base']", 'C20-ORDER ExprNodes.IndexNode[.generate_assignment_code/.generate_deletion_code]:eval:base<eval:index'),
    ('Cython/Compiler/ExprNodes.py', "SliceNode: subexprs = ['stop', 'start', 'step']", 'C20-ORDER ExprNodes.SliceNode:eval:start<eval:stop'),
    ('Cython/Compiler/ExprNodes.py', "GeneralCallNode: subexprs = ['positional_args', 'function', 'keyword_args']", 'C20-ORDER ExprNodes.GeneralCallNode:eval:function<eval:positional_args'),
    ('Cython/Compiler/ExprNodes.py', "FormattedValueNode: subexprs = ['format_spec', 'value']", 'C20-ORDER ExprNodes.FormattedValueNode:eval:value<eval:format_spec'),
    ('Cython/Compiler/ExprNodes.py', 'DictItemNode.generate_evaluation_code: value before key', 'C20-ORDER ExprNodes.DictItemNode:eval:key<eval:value'),
    ('Cython/Compiler/ExprNodes.py', 'CondExprNode.generate_evaluation_code: eval_and_get(true_val) moved before the condition', 'C20-ORDER ExprNodes.CondExprNode:eval:condition<eval:true_val'),
    ('Cython/Compiler/ExprNodes.py', 'PrimaryCmpNode.generate_evaluation_code: operand2 before operand1', 'C20-ORDER ExprNodes.PrimaryCmpNode:eval:operand1<eval:operand2'),
    ('Cython/Compiler/ExprNodes.py', 'SimpleCallNode.generate_evaluation_code: tuple (self.self, self.coerced_self, arg, function)', 'C20-ORDER ExprNodes.SimpleCallNode:eval:function<eval:arg_tuple'),
    ('Cython/Compiler/ExprNodes.py', 'PyMethodCallNode.generate_evaluation_code: keyword values evaluated before the positional arguments', 'C20-ORDER ExprNodes.PyMethodCallNode:eval:arg_tuple<eval:kwdict|...'),
    ('Cython/Compiler/UtilNodes.py', 'EvalWithTempExprNode.generate_evaluation_code: subexpression before setup_temp_expr', 'C20-ORDER UtilNodes.EvalWithTempExprNode:eval:temp_expression<eval:subexpression'),
    ('Cython/Compiler/Nodes.py', 'AssignmentNode.generate_execution_code: generate_assignment_code before generate_rhs_evaluation_code', 'C20-ORDER Nodes.SingleAssignmentNode:eval:rhs<assign:lhs (+ Cascaded)'),
    ('Cython/Compiler/Nodes.py', 'ParallelAssignmentNode.generate_execution_code: one loop doing rhs and assignment per constituent', 'C20-ORDER Nodes.ParallelAssignmentNode:rhs:stats<assign:stats'),
    ('Cython/Compiler/Nodes.py', 'CascadedAssignmentNode.generate_assignment_code: extra self.rhs.generate_evaluation_code(code)', 'C20-ONCE Nodes.CascadedAssignmentNode.generate_execution_code:eval:rhs'),
    ('Cython/Compiler/ExprNodes.py', 'CondExprNode.generate_evaluation_code: condition evaluated twice', 'C20-ONCE ExprNodes.CondExprNode.generate_evaluation_code:eval:condition'),
    ('Cython/Compiler/Optimize.py', '_handle_simple_function_set: `for temp in temps[::-1]` -> `for temp in temps`', 'LET-ORDER ..._handle_simple_function_set:pos_args[0].args[i]-reversed'),
    ('Cython/Compiler/Optimize.py', '_handle_simple_function_set: iterate pos_args[0].args[::-1]', 'LET-ORDER ..._handle_simple_function_set:pos_args[0].args[::-1][i]-reversed'),
    ('Cython/Compiler/Optimize.py', '_handle_simple_method_list_extend: `for temp in temps` -> `temps[::-1]`', 'LET-ORDER ..._list_extend:args[1].args[-1]-before-args[1].args[-2::-1] + ...-reversed'),
    ('Cython/Compiler/Optimize.py', '_handle_simple_function_isinstance: `for temp in temps[::-1]` -> `for temp in temps`', 'MISSED: the construct pos_args[1]-before-pos_args[0] already fires on this function and the type list comes from a helper (unknown order)'),
    ('Cython/Compiler/Optimize.py', '_optimise_min_max: temporary for args[0] created but wrapped innermost / never wrapped', 'LET-ORDER ..._optimise_min_max:args[1:]-before-args[0] / args[0]-never-evaluated'),
    ('Cython/Compiler/Optimize.py', "visit_MulNode: `node.operand1.args = []` when the factor is 0", 'C20-DROP Optimize.ConstantFolding.visit_MulNode:drop:node.operand1.args'),
    ('Cython/Compiler/ExprNodes.py', 'SEED C20a: map_to_simple_call_node `[arg for i,arg in sorted(temps)]` -> `[arg for _, arg in temps]`', 'C20-STACK ExprNodes.GeneralCallNode.map_to_simple_call_node:EvalWithTempExprNode[0]'),
    ('Cython/Compiler/ExprNodes.py', 'map_to_simple_call_node: sorted(temps, reverse=True)', 'C20-STACK ...map_to_simple_call_node:EvalWithTempExprNode[0] (right to left)'),
    ('Cython/Compiler/ExprNodes.py', 'map_to_simple_call_node: `for temp in temps:` (wrapped front to back)', 'C20-STACK ...map_to_simple_call_node:EvalWithTempExprNode[0]'),
    ('Cython/Compiler/ExprNodes.py', 'map_to_simple_call_node: `[arg for arg in (t for _, t in temps)]` (sort dropped, generator in between)', 'C20-STACK ...map_to_simple_call_node:EvalWithTempExprNode[0]'),
    ('Cython/Compiler/Optimize.py', 'FlattenInListTransform: `for temp in temps[::-1]` -> `for temp in temps`', 'C20-STACK Optimize.FlattenInListTransform.visit_PrimaryCmpNode:EvalWithTempExprNode[0] (+ LET-ORDER)'),
    ('Cython/Compiler/ExprNodes.py', 'SEED C20b: DivNode.analyse_operation coerces operand1 only under cdivision_warnings', 'C20-PASTE ExprNodes.DivNode:operand1'),
    ('Cython/Compiler/ExprNodes.py', 'DivNode.analyse_operation: `if env.directives[\'cdivision_warnings\']:` / `if self.zerodivision_check and ...`', 'C20-PASTE ExprNodes.DivNode:operand1 + :operand2'),
    ('Cython/Compiler/ExprNodes.py', 'the same defect in refactored form (need_simple local, early return, operand1 coerced under the directive only)', 'C20-PASTE ExprNodes.DivNode:operand1'),
    ('Cython/Compiler/ExprNodes.py', 'CoerceToComplexNode.__init__: coerce_to_simple removed / done under `arg.type.is_float`', 'C20-PASTE ExprNodes.CoerceToComplexNode:arg'),
    ('Cython/Compiler/ExprNodes.py', 'CoerceCStringToBooleanNode.__init__: `arg = arg.coerce_to_simple(env)` removed', 'C20-PASTE ExprNodes.CoerceCStringToBooleanNode:arg'),
    # repairs make the corresponding construct go silent (and nothing else appear)
    ('Cython/Compiler/Nodes.py', 'FIX InPlaceAssignmentNode: lhs.generate_subexpr_evaluation_code before rhs.generate_evaluation_code', 'C20-ORDER InPlaceAssignmentNode silent'),
    ('Cython/Compiler/Optimize.py', 'FIX FlattenInListTransform: EvalWithTempExprNode(lhs, ...) applied last (outermost)', 'LET-ORDER visit_PrimaryCmpNode silent'),
    ('Cython/Compiler/Optimize.py', 'FIX _optimise_min_max: first_ref = ResultRefNode(args[0]) ... return EvalWithTempExprNode(first_ref, last_result)', 'LET-ORDER _optimise_min_max silent'),
    ('Cython/Compiler/Optimize.py', 'FIX enumerate: when start is not simple, LetRefNode for the iterable wrapped outside the LetNode of start', 'LET-ORDER _transform_enumerate_iteration silent'),
    ('Cython/Compiler/Optimize.py', 'FIX range: LetRefNode for a non-simple bound1 (not reversed) wrapped outside the LetNode of bound2', 'LET-ORDER _transform_range_iteration silent'),
    ('Cython/Compiler/Optimize.py', 'FIX _calculate_constant_seq: `... <= 0 and all(arg.is_literal for arg in sequence_node.args)`', 'C20-DROP silent'),
]
MUTATIONS += [      # fourth round (session s4-G5): patches and verdicts in /verif/mutants/C20/*
    ('Cython/Compiler/ParseTreeTransforms.py', 'SEED C20c: `for _, temp_ref in duplicates_and_temps[::-1]` -> forward', 'C20-REWRITE _visit_assignment_node:temp-order'),
    ('Cython/Compiler/ParseTreeTransforms.py', 'sort_common_subsequences dropped / lower_than swapped; LetRefNodes collected with insert(0); attributes treated as simple; starred slice one short; '
     'starred merge comparison; partial assignments emitted back to front', 'C20-REWRITE temp-before-set / temp-order / once / routing / inline-order'),
    ('Cython/Compiler/ParseTreeTransforms.py', 'ExpandInplaceOperators: reverse() dropped; [index] + temps; attribute / subscript operand not put into a temporary', 'C20-INPLACE eval-order / eval-once'),
    ('Cython/Compiler/ExprNodes.py', 'BoolBinopResultNode: sense flipped; BoolBinopNode: next_and/next_or labels swapped; outer labels not restored', 'C20-SHORT'),
    ('Cython/Compiler/Nodes.py + ExprNodes.py', 'reversed() iteration over stats / lhs_list / key_value_pairs / unpacking targets / subexpr_nodes()', 'C20-LISTDIR (C20-ORDER for the default sub-expression loop)'),
    ('Cython/Compiler/ExprNodes.py', 'map_to_simple_call_node: `if new_temps: args = final_args` dropped (double evaluation); preceding arguments not moved into temporaries', 'C20-KWMAP once / order'),
    ('Cython/Compiler/Nodes.py', 'unroll_assignments: `refs[::-1]` -> `refs`', 'MISSED: the list is built in SingleAssignmentNode.unroll by straight-line appends; its order is not established (NOT_DECIDED)'),
]
MUTATIONS += [      # seventh round (session J5): patches and verdicts in /verif/mutants/C20/j5-*
    ('Cython/Compiler/ExprNodes.py', 'SEED C20j: SetNode evaluates each item inside the PySet_Add loop; variants: helper per item, index loop, while/pop loop, putln + error_goto, f-string + zip, first item apart', 'C20-BATCH ExprNodes.SetNode.generate_evaluation_code:args'),
    ('Cython/Compiler/ExprNodes.py', 'SEED C20i: coerce_cascaded_operands_to_temp without the recursion; recursion only in the is_simple() branch; CascadedCmpNode.generate_evaluation_code hands on only without coerced operand', 'C20-CHAIN ...:cascade:forward'),
    ('Cython/Compiler/ExprNodes.py', 'head no longer calls cascade.coerce_cascaded_operands_to_temp / no longer makes operand2 simple; shared operand made simple only for Python objects / only when the next link has a successor', 'C20-CHAIN <class>:operand2:shared-simple'),
    ('Cython/Compiler/ExprNodes.py', 'CmpNode.coerce_operands_to without the recursion', 'MISSED (see NOT_DECIDED)'),
]
MUTATIONS += [      # eighth round (session K4): patches and verdicts in /verif/mutants/C20/k4-*
    ('Cython/Compiler/ExprNodes.py', 'SEED C20l: IndexNode.is_simple() type-first rewrite that loses self.index.is_simple(); variants: base dropped instead, TypecastNode / AttributeNode / _TempModifierNode / '
     'MemoryViewSliceNode (no-op slice) answer simple without their operand, a new AmpersandNode.is_simple()', 'C20-SIMPLE <class>:<operand>:simple-without-operand'),
    ('Cython/Compiler/ExprNodes.py', 'ExprNode.coerce_to_simple returns every non-object C value unchanged; ExprNode.coerce_to_temp with the test inverted', 'C20-SIMPLE ExprNode.coerce_to_*:returns-self'),
]
SILENT_EDITS = [
    'round 8: IndexNode.is_simple type-first with early returns and a local alias (index test kept); AttributeNode.is_simple with alias / `is None` / early returns; coerce_to_simple negated with early return; '
    'TypecastNode.is_simple through a helper method with an is_temp short cut',
    'SetNode: two loops with renamed locals / enumerate / text in a local; the two loops in two helper methods; disposal in a third loop',
    'coerce_cascaded_operands_to_temp: local alias of the link + early return; `if not operand2.is_simple(): coerce_to_temp`; head: the coercion lines in a helper method',   # behaviour-preserving, no new violation
    "DictItemNode: subexprs = ['value', 'key'] (its explicit generate_evaluation_code decides the order)",
    "BinopNode: subexprs as a tuple",
    'SimpleCallNode.generate_evaluation_code: list `operands`, loop variable renamed, `if operand is None: continue`',
    'CondExprNode.generate_evaluation_code: local alias for true_val, keyword argument for eval_and_get',
    'CascadedAssignmentNode.generate_assignment_code: loop variables renamed',
    'FlattenInListTransform: `for tmp_node in reversed(temps)`; `temps = list()`',
    '_handle_simple_function_set: `new_args`/`item` names, early `continue` for simple items',
    'map_to_simple_call_node: `for let_ref in reversed(temps)`; `temps.sort(); ordered = [t for _, t in temps]; temps = new_temps + ordered`',
    'FlattenInListTransform: `temps.reverse(); for temp in temps:`',
    'DivNode.analyse_operation: `need_simple = self.zerodivision_check or env.directives[...]; if not need_simple: return result`, operands coerced in the other order',
    'DivNode.generate_div_warning_code: zero test built with f-strings, branches swapped, locals renamed',
]


# sC20.rule_hoist (C20-HOIST: operand2 of a binary node forced into a temporary without operand1) found ExprNodes.PrimaryCmpNode.analyse_types:operand2-before-operand1
# (`f() < g() < h()` with cdef noexcept functions logged g, f, h) - repaired in /repo (cdf5a6519), the rule is registered.
def run(ctx):
    from ..rules import flatpar
    from ..rules import sC20, pC01, dD5, s7C20, s8C20, dD12
    return [pC20.rule_order(ctx), pC20.rule_once(ctx), pC20.rule_let_order(ctx), pC20.rule_drop(ctx), flatpar.rule_flat(ctx),
            sC20.rule_paste(ctx), sC20.rule_stack(ctx), sC20.rule_hoist(ctx),
            sC20.rule_rewrite(ctx, 'main', floor=200), sC20.rule_inplace(ctx, 'main', floor=10), sC20.rule_short(ctx), sC20.rule_listdir(ctx), sC20.rule_kwmap(ctx, 'main', floor=150),
            sC20.rule_rewrite(ctx, 'cross-order', floor=200), sC20.rule_kwmap(ctx, 'routing', floor=150),
            pC01.rule_inplace(ctx, pending=True, floor=0, tolerant=True),
            dD5.rule_repaste(ctx), dD5.rule_errconv(ctx), dD5.rule_reuse(ctx),
            s7C20.rule_batch(ctx, 'main', floor=9), s7C20.rule_chain(ctx, floor=5),      # round 7 (session J5)
            s7C20.rule_batch(ctx, 'dict'),           # C20-BATCH-DICT: known finding K19
            s8C20.rule_simple(ctx, floor=44, override_floor=7),      # round 8 (session K4)
            dD12.rule_snapshot(ctx)]     # C20-SNAPSHOT (rules/dD12.py), armed after the repair 597ac5015
    # known finding K19 (FINDING_1 of session J5): s7C20.rule_batch(ctx, 'dict') -> C20-BATCH-DICT reports ExprNodes.DictNode.generate_evaluation_code:key_value_pairs and
    #   ExprNodes.MergedDictNode.generate_evaluation_code:keyword_args[*].key_value_pairs on the unmodified tree: `{f(1): 1, []: 2, f(3): 3}` stops before f(3) (CPython evaluates all pairs, then raises).
    # round 6 (rules/dD5.py), armed after the repairs 08e5ac73c, ca5f2514f, 64585f1af       # C01-INPLACE-NAME (known finding K14), shared with C01
    # armed after the repair b8df1e725 (FINDING_2 of session s4-G5): sC20.rule_rewrite(ctx, 'cross-order', floor=200) -> C20-REWRITE-XORDER reports
    #   ParseTreeTransforms.PostParse._visit_assignment_node:cross-order on the unmodified tree: `a1, b1 = a2, *s2 = f(), g()` calls g before f.
    # NOT registered (FINDING_3 of session s4-G5, partially repaired by 43f76656b: Python-level lookups are evaluated once now; the rule's model does not know
    #   `obj.result_in_temp()` and still reports C-level re-reads, which are only observable if the right-hand side rebinds the object): sC20.rule_inplace(ctx, 'read-once', floor=10) -> C20-INPLACE-READONCE reports
    #   ParseTreeTransforms.ExpandInplaceOperators.visit_InPlaceAssignmentNode:read-once: `o.a.b += 1` reads o.a twice, `f()[g()].a += 1` calls __getitem__ twice.
    # armed after the repair 15007ed16 (FINDING_4 of session s4-G5): sC20.rule_kwmap(ctx, 'routing', floor=150) -> C20-KWMAP-ROUTING reports
    #   ExprNodes.GeneralCallNode.map_to_simple_call_node:routing: `cfunc(f0(), p2=f2(), p1=n1)` drops the argument p2 (the C default / a wrong arity is used).
