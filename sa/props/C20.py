"""C20 — operands and targets are evaluated left to right, exactly once (structural clauses of the code generators and of the temp-wrapping rewrites)."""
from ..rules import pC20

ID = 'C20'
TECHNIQUE = ('evaluation-sequence extraction: path-wise order of the generate_evaluation_code / generate_assignment_code requests each node class makes to its operands (MRO-resolved, '
             'helper methods inlined, local aliases followed, the default iteration over `subexprs` expanded), compared with a frozen order table taken from the language reference; '
             'abstract interpretation of the rewriting functions of Optimize.py over provenance paths (which operand of the original node a value comes from), temporaries, lists '
             'built in loops (with iteration polarity) and evaluation-ordered operand sequences of the constructed tree (operands of known node classes ordered by the extracted '
             'sequences; loop-carried wrappers solved symbolically)')
DECIDES = ('C20-ORDER: for each entry of the order table (binary and boolean operators, conditional expression, comparisons incl. cascades, subscription, slicing, dict item, the three '
           'call node classes, cached method calls, f-string value/spec, display * factor, single/cascaded/parallel/augmented assignment, for-in, raise-from, and the let constructs '
           'EvalWithTempExprNode/LetNode) and every subclass: on every code-generation path the earlier operand is asked for its evaluation code before the later one. '
           'C20-ONCE: on no code-generation path of these classes the same operand is asked twice. '
           'LET-ORDER: every function of Optimize.py that wraps temporaries (LetRefNode/ResultRefNode) with EvalWithTempExprNode/LetNode returns trees whose operand evaluation order '
           '(outermost temporary first, then the body; operands of constructed nodes in the order of C20-ORDER) keeps operands of one source list in index order and sibling '
           'operands in table order, unless the operand is established to be side-effect free by is_simple()/try_is_simple()/is_literal/is_name on that path; runs of temporaries are '
           'not wrapped back to front.')
NOT_DECIDED = ('temporaries introduced by coercions and by analyse_types (coerce_to_temp etc.); the order inside helper C functions; short-circuit behaviour beyond the order of the two '
               'operands; rewrites that do not use the let constructs (e.g. argument re-packing in call optimisations, ConstantFolding dropping `[f()] * 0` operands - observed: '
               'f is not called); whether a value established as is_simple() really is side-effect free; generator/closure evaluation order; '
               'rewrites outside Optimize.py (ExpandInplaceOperators and SingleAssignmentNode.unroll were read: they keep source order).')
ASSUMPTIONS = ['a node constructor call evaluates exactly the sub-trees handed to it; for node classes whose evaluation sequence is extracted the operands are ordered by it, otherwise in '
               'argument order', 'attributes that are not child attributes of any node class (pos, type, entry, constant_result ...) are not sub-trees',
               'the handlers receive their operand lists in source order (args[i] before args[j] for i < j)']
EXEMPT = {}
MUTATIONS = []
SILENT_EDITS = []


def run(ctx):
    return [pC20.rule_order(ctx), pC20.rule_once(ctx), pC20.rule_let_order(ctx), pC20.rule_drop(ctx)]
