"""C37 — prange gives sequential results and a safe exit on every schedule (structural clauses of the exit protocol)."""
from ..rules import pC37, sC37

ID = 'C37'
TECHNIQUE = ('table agreement between the writer and the readers of the shared exit code (extracted from get_all_labels(), the emitted C templates and the '
             'case dispatch), slot-wise save/restore resolution of the label context, must-precede dataflow over the generate_execution_code methods, '
             'bracket/region analysis of the exception hand-off, stack-depth dataflow of the assignment collector')
DECIDES = ('C37-WHY: the exit code trap_parallel_exit stores into parallel_why for each of continue/break/return/error (index in FunctionState.get_all_labels() '
           'order + the offset in the emitted `%d`) equals the `case N:` that end_parallel_control_flow_block dispatches to that kind of label; codes are distinct and '
           'non-zero; the "prefer error" store after `if (parallel_exc_type)` writes the error code; every emitted `if (parallel_why <op> N)` guard runs its body '
           'exactly for normal/continue and skips it for break/return/error; the loop body and the else clause each have such a guard; each case is enabled by the flag '
           'that records usage of the same kind of label (resolved through the call sites); fetch_parallel_exception is emitted exactly under `label == code.error_label`; '
           'the error case calls restore_parallel_exception before its goto. '
           'C37-LBL: setup_parallel_control_flow_block replaces all four label slots; restore_labels puts every saved label back into the slot it was taken from '
           '(kinds resolved through FunctionState.new_loop_labels/new_error_label/set_all_labels); every generate_execution_code runs setup -> body -> trap -> '
           'label_used reads -> restore_labels -> else clause / end_parallel_control_flow_block on all paths. '
           'C37-EXC: in fetch/restore_parallel_exception the C block, GIL and free-threading lock brackets balance, the __Pyx_ErrFetch*/__Pyx_ErrRestore* transfer and the '
           'test of the shared slot sit inside GIL + lock, the fetch is under the first-exception-wins guard, the transfer arguments are the three shared slots in order, '
           'gotref/giveref mirror each other around the transfer, position info is saved by fetch and copied back by restore. '
           'C37-STK: MarkParallelAssignments.visit_ParallelStatNode pushes/pops parallel_block_stack balanced on every path, visits children while pushed and the prange '
           'else clause after the pop. '
           'C37-RED: operators turned into reduction(op:var) are implicitly declared OpenMP reduction identifiers whose combiner equals the in-place operator.')
NOT_DECIDED = ('everything schedule-dependent: that reductions/lastprivate give sequential results for every thread count, schedule and chunk size; the nsteps/index '
               'arithmetic (numeric); absence of data races in user bodies; the OpenMP flush placement; privatisation of temporaries (privatize_temps) and of closure '
               'variables; which of several simultaneously raised exceptions wins.  The LIFO order of GIL vs free-threading lock is not required (only that the '
               'transfer is inside both).  The firstprivate/lastprivate clause emission is not checked (it could only be matched as frozen text).')
ASSUMPTIONS = ['CCodeWriter label accessors forward to FunctionState (checked, ANALYSIS-ERROR otherwise)',
               'OpenMP reduction identifiers: OpenMP 5.2 section 5.5.5, implicitly declared identifiers for C/C++ (frozen in sa/rules/pC37.py)']
EXEMPT = {}

# Single-edit variants tried on a scratch copy: (file, edit, rule/construct that reported it).  All 27 breaking edits were
# reported with exit 1; the behaviour-preserving ones stayed silent.
MUTATIONS = [
    ('Cython/Compiler/Nodes.py', 'trap_parallel_exit: `i + 1` -> `i + 2`', 'C37-WHY why:case:*'),
    ('Cython/Compiler/Nodes.py', 'end_parallel_control_flow_block: "case 2: " -> "case 3: "', 'C37-WHY why:case:break + why:case:dup:3'),
    ('Cython/Compiler/Nodes.py', 'end_parallel_control_flow_block: "%s = 4;" -> "%s = 3;"', 'C37-WHY why:prefer-error'),
    ('Cython/Compiler/Nodes.py', 'generate_loop: body guard "if (%s < 2)" -> "< 3"', 'C37-WHY why:guard:ParallelRangeNode.generate_loop'),
    ('Cython/Compiler/Nodes.py', 'generate_execution_code: else guard "< 2" -> "<= 2"', 'C37-WHY why:guard:ParallelRangeNode.generate_execution_code'),
    ('Cython/Compiler/Code.py', 'FunctionState.get_all_labels: swap continue_label/break_label in the returned tuple', 'C37-WHY why:case:continue, why:case:break, why:guard:*'),
    ('Cython/Compiler/Nodes.py', 'trap_parallel_exit: `if label == code.error_label` -> `code.return_label`', 'C37-WHY why:fetch-on-error + why:flag:error'),
    ('Cython/Compiler/Nodes.py', 'ParallelRangeNode: `return_=self.return_label_used` -> `self.breaking_label_used`', 'C37-WHY why:flag:return:ParallelRangeNode'),
    ('Cython/Compiler/Nodes.py', 'case 2: `put_goto(code.break_label)` -> `code.return_label`', 'C37-WHY why:case:return + why:flag:return:ParallelWithBlockNode'),
    ('Cython/Compiler/Nodes.py', 'case 4: delete `self.restore_parallel_exception(code)`', 'C37-WHY why:error:restore'),
    ('Cython/Compiler/Nodes.py', 'delete the `%s = 4;` prefer-error store', 'C37-WHY why:prefer-error'),
    ('Cython/Compiler/Nodes.py', 'generate_loop: delete the body guard emission', 'C37-WHY why:body-guard:ParallelRangeNode.generate_loop'),
    ('Cython/Compiler/Nodes.py', 'restore_labels: swap self.old_return_label / self.old_error_label', 'C37-LBL lbl:restore:return + lbl:restore:error'),
    ('Cython/Compiler/Nodes.py', 'ParallelRangeNode.generate_execution_code: delete `self.restore_labels(code)`', 'C37-LBL lbl:order:...:else-before-restore, end-before-restore, no-restore'),
    ('Cython/Compiler/Nodes.py', 'ParallelWithBlockNode: move restore_labels after end_parallel_control_flow_block', 'C37-LBL lbl:order:...:end-before-restore'),
    ('Cython/Compiler/Nodes.py', 'setup: `code.new_error_label()` -> `code.error_label`', 'C37-LBL lbl:fresh:error'),
    ('Cython/Compiler/Nodes.py', 'ParallelWithBlockNode: call trap_parallel_exit before body.generate_execution_code', 'C37-LBL lbl:body-before-trap:...'),
    ('Cython/Compiler/Code.py', 'FunctionState.set_all_labels: swap return_label/error_label targets', 'C37-LBL lbl:restore:return + lbl:restore:error'),
    ('Cython/Compiler/Nodes.py', 'fetch_parallel_exception: delete put_release_freethreading_lock()', 'C37-EXC exc:fetch_parallel_exception:unbalanced:lock'),
    ('Cython/Compiler/Nodes.py', 'restore_parallel_exception: zip(self.pos_info, self.parallel_pos_info) -> swapped', 'C37-EXC exc:restore_parallel_exception:posinfo'),
    ('Cython/Compiler/Nodes.py', 'fetch: move put_acquire_freethreading_lock() after the `if (!exc_type) {` test', 'C37-EXC exc:fetch_parallel_exception:guard-outside-lock'),
    ('Cython/Compiler/Nodes.py', 'restore: delete put_giveref(parallel_exc_type)', 'C37-EXC exc:refnanny'),
    ('Cython/Compiler/Nodes.py', 'fetch: "if (!%s) {" -> "if (%s) {"', 'C37-EXC exc:fetch_parallel_exception:unguarded-fetch'),
    ('Cython/Compiler/Nodes.py', 'restore: end_block() before put_release_ensured_gil()', 'C37-EXC exc:restore_parallel_exception:block-closed-early'),
    ('Cython/Compiler/TypeInference.py', 'visit_ParallelStatNode: pop after visiting the else clause', 'C37-STK stk:visit_ParallelStatNode:else'),
    ('Cython/Compiler/TypeInference.py', 'visit_ParallelStatNode: delete the pop in the non-prange branch', 'C37-STK stk:visit_ParallelStatNode'),
    ('Cython/Compiler/Nodes.py', 'generate_loop: reduction operators "+*-&^|" -> "+*-&^|/"', 'C37-RED red:/'),
]
SILENT_EDITS = [   # behaviour-preserving, all stayed silent (exit 0)
    '`i + 1` -> `1 + i`; `enumerate(all_labels, 1)` with `i = idx - 1`',
    'body guard "< 2" -> "<= 1"',
    '"%s = 4;" % Naming.parallel_why -> f-string',
    'swap the `if break_:` and `if return_:` case blocks',
    'restore_labels through a local (`saved_labels = ...; code.set_all_labels(saved_labels)`)',
    'reformat the parallel_exc tuple; swap its first two elements (both transfer calls use the same tuple)',
    'reorder the two label_used() reads in ParallelWithBlockNode',
    'rename local all_labels and parameter break_ (all sites); move restore_parallel_exception above fetch_parallel_exception',
]


def run(ctx):
    return [pC37.rule_why(ctx), pC37.rule_labels(ctx), pC37.rule_handoff(ctx), pC37.rule_stack(ctx), pC37.rule_reductions(ctx),
            sC37.rule_emit(ctx), sC37.rule_trip(ctx)]
