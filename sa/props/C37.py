"""C37 — prange gives sequential results and a safe exit on every schedule (structural clauses of the exit protocol)."""
from ..rules import pC37

ID = 'C37'
TECHNIQUE = ('table agreement between the writer and the readers of the shared exit code (extracted from get_all_labels(), the emitted C templates and the '
             'case dispatch), slot-wise save/restore resolution of the label context, must-precede dataflow over the generate_execution_code methods, '
             'bracket/region analysis of the exception hand-off, stack-depth dataflow of the assignment collector')
DECIDES = ('C37-WHY: the exit code trap_parallel_exit stores into parallel_why for each of continue/break/return/error (index in FunctionState.get_all_labels() '
           'order + the offset in the emitted `%d`) equals the `case N:` that end_parallel_control_flow_block dispatches to that kind of label; codes are distinct and '
           'non-zero; the "prefer error" store after `if (parallel_exc_type)` writes the error code; every emitted `if (parallel_why <op> N)` guard runs its body '
           'exactly for normal/continue and skips it for break/return/error; the loop body and the else clause each have such a guard; each case is enabled by the flag '
           'that records usage of the same kind of label (resolved through the call sites); fetch_parallel_exception is emitted exactly under `label == code.error_label`; '
           'the error case calls restore_parallel_exception before its goto. '
           'C37-LBL: setup_parallel_control_flow_block replaces all four label slots; restore_labels puts every saved label back into the slot it was taken from '
           '(kinds resolved through FunctionState.new_loop_labels/new_error_label/set_all_labels); every generate_execution_code runs setup -> body -> trap -> '
           'label_used reads -> restore_labels -> else clause / end_parallel_control_flow_block on all paths. '
           'C37-EXC: in fetch/restore_parallel_exception the C block, GIL and free-threading lock brackets balance, the __Pyx_ErrFetch*/__Pyx_ErrRestore* transfer and the '
           'test of the shared slot sit inside GIL + lock, the fetch is under the first-exception-wins guard, the transfer arguments are the three shared slots in order, '
           'gotref/giveref mirror each other around the transfer, position info is saved by fetch and copied back by restore. '
           'C37-STK: MarkParallelAssignments.visit_ParallelStatNode pushes/pops parallel_block_stack balanced on every path, visits children while pushed and the prange '
           'else clause after the pop. '
           'C37-RED: operators turned into reduction(op:var) are implicitly declared OpenMP reduction identifiers whose combiner equals the in-place operator.')
NOT_DECIDED = ('everything schedule-dependent: that reductions/lastprivate give sequential results for every thread count, schedule and chunk size; the nsteps/index '
               'arithmetic (numeric); absence of data races in user bodies; the OpenMP flush placement; privatisation of temporaries (privatize_temps) and of closure '
               'variables; which of several simultaneously raised exceptions wins.  The LIFO order of GIL vs free-threading lock is not required (only that the '
               'transfer is inside both).  The firstprivate/lastprivate clause emission is not checked (it could only be matched as frozen text).')
ASSUMPTIONS = ['CCodeWriter label accessors forward to FunctionState (checked, ANALYSIS-ERROR otherwise)',
               'OpenMP reduction identifiers: OpenMP 5.2 section 5.5.5, implicitly declared identifiers for C/C++ (frozen in sa/rules/pC37.py)']
EXEMPT = {}

# single-edit variants tried on a scratch copy (file, edit, rule that reported it) -- see final builder report
MUTATIONS = []


def run(ctx):
    return [pC37.rule_why(ctx), pC37.rule_labels(ctx), pC37.rule_handoff(ctx), pC37.rule_stack(ctx), pC37.rule_reductions(ctx)]
