"""C37 — prange gives sequential results and a safe exit on every schedule (structural clauses of the exit protocol)."""
from ..rules import pC37, sC37, s4C37

ID = 'C37'
TECHNIQUE = ('table agreement between the writer and the readers of the shared exit code (extracted from get_all_labels(), the emitted C templates and the '
             'case dispatch), slot-wise save/restore resolution of the label context, must-precede dataflow over the generate_execution_code methods, '
             'bracket/region analysis of the exception hand-off, stack-depth dataflow of the assignment collector; decision tables of trap_parallel_exit / '
             'end_parallel_control_flow_block obtained by interpreting their code in the checker over the complete domain (construct x set of exit kinds used); '
             'C-semantics evaluation of the extracted trip-count / loop-header / index expressions over all residue classes of small strides; event-trace analysis of the '
             'emitted label skeleton and of the writer (insertion point in front of / code writer after the parallel region) of every exit-protocol emission; slot-flow '
             '(def-use) analysis of the reduction operator from the in-place assignment to the sharing clause; decision tables of the node set-up methods '
             '(range arguments, is_parallel, for-loop part transfer, thread-state bracket, return critical section) and of the clause emission of generate_loop; '
             'path-forking abstract interpretation (unknown values are tokens with identity, the collector stack / collected set / clause lists are concrete) of the temp collector '
             'protocol: FunctionState.allocate_temp / start_collecting_temps / stop_collecting_temps and the region generators with privatize_temps inlined')
DECIDES = ('C37-WHY: the exit code trap_parallel_exit stores into parallel_why for each of continue/break/return/error (index in FunctionState.get_all_labels() '
           'order + the offset in the emitted `%d`) equals the `case N:` that end_parallel_control_flow_block dispatches to that kind of label; codes are distinct and '
           'non-zero; the "prefer error" store after `if (parallel_exc_type)` writes the error code; every emitted `if (parallel_why <op> N)` guard runs its body '
           'exactly for normal/continue and skips it for break/return/error; the loop body and the else clause each have such a guard; each case is enabled by the flag '
           'that records usage of the same kind of label (resolved through the call sites); fetch_parallel_exception is emitted exactly under `label == code.error_label`; '
           'the error case calls restore_parallel_exception before its goto. '
           'C37-LBL: setup_parallel_control_flow_block replaces all four label slots; restore_labels puts every saved label back into the slot it was taken from '
           '(kinds resolved through FunctionState.new_loop_labels/new_error_label/set_all_labels); every generate_execution_code runs setup -> body -> trap -> '
           'label_used reads -> restore_labels -> else clause / end_parallel_control_flow_block on all paths. '
           'C37-EXC: in fetch/restore_parallel_exception the C block, GIL and free-threading lock brackets balance, the __Pyx_ErrFetch*/__Pyx_ErrRestore* transfer and the '
           'test of the shared slot sit inside GIL + lock, the fetch is under the first-exception-wins guard, the transfer arguments are the three shared slots in order, '
           'gotref/giveref mirror each other around the transfer, position info is saved by fetch and copied back by restore. '
           'C37-STK: MarkParallelAssignments.visit_ParallelStatNode pushes/pops parallel_block_stack balanced on every path, visits children while pushed and the prange '
           'else clause after the pop. '
           'C37-RED: operators turned into reduction(op:var) are implicitly declared OpenMP reduction identifiers whose combiner equals the in-place operator. '
           'C37-EMIT (sa/rules/sC37.py): for ParallelWithBlockNode and ParallelRangeNode x each of the 16 sets U of exit kinds the body may use, trap_parallel_exit and '
           'end_parallel_control_flow_block are interpreted (flags, call-site arguments and emitted C text resolved per world): whenever some label stores into '
           'parallel_why the variable is declared and zeroed; whenever the error label is trapped the shared exception slots are declared and `case <error>` + '
           'restore_parallel_exception is emitted; whenever the error label and another storing label are trapped the `if (exc_type) why = <error>` fix-up is emitted; '
           'the `if (why < N)` guards of the prange body / else clause are emitted whenever a breaking exit is trapped. '
           'C37-TRIP (sa/rules/sC37.py): start/stop/step are stored under their own keys of the format dict with defaults 0/-/1; for the step absent, a literal or a run-time '
           'value in {+-1, +-2, +-3, +-5}, every path of generate_execution_code (Python-level special-casing on the step included) emits an nsteps computation which, '
           'with the `if (nsteps > 0)` guard, the emitted for header and the emitted index formula, runs exactly the iterations of range(start, stop, step) for every '
           'distance in [-3|step|-2, 3|step|+2] (all residues, empty and reversed ranges) - so reductions see every term and the lastprivate index ends at the last index. '
           'C37-SEQ (sa/rules/sC37.py): for both constructs x the 15 non-empty sets of exit kinds the C skeleton emitted by trap_parallel_exit is `goto J; (L_k: [fetch;] why = code_k; goto J;)* J:` '
           '- the normal path jumps over the label blocks, no block falls through into the next, every trapped label that must be propagated stores its own code (a prange `continue` is '
           'exempt: direct jump); the declaration/zeroing of the exit code is written through the insertion point captured in front of the parallel region, the prefer-error fix-up and '
           'the dispatch switch through the code writer after it, and the C condition around the switch is true for every stored code; each `if (why < N)` guard is written in front of '
           'the code it guards (insertion point taken, or emission made, before the body / else clause is generated). '
           'C37-FLOW (sa/rules/sC37.py): visit_InPlaceAssignmentNode passes node.operator to the operator parameter of mark_assignment; mark_assignment stores that parameter in the '
           'slot of <node>.assignments[entry] that analyse_sharing_attributes hands to the operator parameter of propagate_var_privatization; that parameter is what is stored in '
           'self.privates[entry] and what the recursive call to the enclosing construct receives; ParallelRangeNode.analyse_expressions registers the loop variable (operator None) '
           'before the sharing analysis; generate_loop, interpreted per (parallel-for / for-in-team) x (loop variable / assigned variable) x in-place operator, emits lastprivate(var) for the '
           'loop variable and for assigned C variables and reduction(op:var) for + - * & | ^ (C37-RED reads the set of reducing operators from the same table). '
           'C37-NODE (sa/rules/sC37.py): ParallelRangeNode.analyse_declarations binds 1/2/3 positional arguments as (stop) / (start, stop) / (start, stop, step) - the signature documented '
           'in docs/src/userguide/parallelism.rst; MarkParallelAssignments.visit_ParallelStatNode over node kind x parent kind: a prange inside `with parallel()` gets is_parallel False, '
           'top-level constructs and with-blocks True, node.parent is the innermost enclosing construct, the prange body is visited while the node is on the stack; '
           'ParallelRangeTransform.visit_ForInStatNode hands every child attribute shared by ForInStatNode and ParallelRangeNode (target, body, else_clause) to the replacing node; '
           'end_parallel_block over error_label_used x acquire_gil emits the put_ensure_gil / put_release_ensured_gil bracket whenever either holds; visit_ReturnStatNode marks returns '
           'inside a region and ReturnStatNode.generate_execution_code then stores the return value inside the `omp critical` block for every return-type class. '
           'C37-TEMPREG (sa/rules/s4C37.py): on every path of FunctionState.allocate_temp (type normalisation, free-list reuse, fresh name, zombie) taken while a collector is active, '
           'the name returned is registered in the innermost collector; start_collecting_temps pushes a fresh empty collector and stop_collecting_temps pops and returns exactly it. '
           'C37-TEMPPRIV (sa/rules/s4C37.py): ParallelWithBlockNode.generate_execution_code and ParallelRangeNode.generate_loop, per world is_parallel x is_nested_prange and every path '
           '(privatize_temps and the FunctionState collector methods interpreted in place): collectors pushed are popped; when an active (not `#if 0`) `#pragma omp parallel` line is '
           'opened, an object, a memoryview and two C temporaries allocated while self.body is generated are collected by a collector of this method and each is written into a '
           'private()/firstprivate() clause through an insertion point captured while an active `#pragma omp` line was open; object and memoryview temps are firstprivate.')
NOT_DECIDED = ('everything schedule-dependent: that reductions/lastprivate give sequential results for every thread count, schedule and chunk size; the nsteps/index '
               'arithmetic for strides beyond the enumerated moduli and for C integer overflow / the int-typed abs() on wide index types; absence of data races in user bodies; the OpenMP flush placement; privatisation of closure '
               'variables; that every temporary a region uses is obtained through FunctionState.allocate_temp while the region is generated (temps allocated before the region and '
               'still live inside it - start/stop/step, nsteps - are shared on purpose); collectors nested deeper than two (C37-TEMPREG evaluates an enclosing and an innermost collector); loops of '
               'allocate_temp beyond two iterations; which of several simultaneously raised exceptions wins.  The LIFO order of GIL vs free-threading lock is not required (only that the '
               'transfer is inside both).  The firstprivate clause of user variables, the shared() clause and the '
               'flush placement are not checked; C37-FLOW decides the presence of lastprivate/reduction clauses per variable class, not their position inside the pragma line.')
ASSUMPTIONS = ['CCodeWriter label accessors forward to FunctionState (checked, ANALYSIS-ERROR otherwise)',
               'OpenMP reduction identifiers: OpenMP 5.2 section 5.5.5, implicitly declared identifiers for C/C++ (frozen in sa/rules/pC37.py)',
               'C37-EMIT: an unknown iterable is taken to run its loop body zero times or once; helper methods that mention parallel_why/parallel_exc are interpreted '
               'in place when they have a single path, otherwise an unmet obligation is reported as ANALYSIS-ERROR, not as a violation',
               'C37-TRIP: the value of the format-dict entry %(x)s is the C value of prange argument x (checked through the zip() that fills it); a literal step has '
               'has_constant_result() true and constant_result = its value, a run-time step has has_constant_result() false',
               'C37-NODE: prange([start,] stop[, step]) as documented in docs/src/userguide/parallelism.rst (range() convention when the file is absent); a prange nested in a prange '
               'is compiled out (`#if 0`), so its is_parallel flag is not constrained',
               'C37-TEMPREG/TEMPPRIV: collectors form a LIFO stack (one per OpenMP region being generated); with-blocks always have is_parallel True (decided by C37-NODE); an '
               'un-interpreted call that receives the code writer may emit any number of complete lines; a text starting with `#` starts a line',
               'C37-FLOW: OpenMP 5.2: a list item assigned in a worksharing loop and read after it needs lastprivate; + - * & | ^ are the implicitly declared reduction identifiers '
               'whose combiner equals the Python in-place operator (table in sa/rules/pC37.py)']
EXEMPT = {}

# Single-edit variants tried on a scratch copy: (file, edit, rule/construct that reported it).  All 27 breaking edits were
# reported with exit 1; the behaviour-preserving ones stayed silent.
MUTATIONS = [
    ('Cython/Compiler/Nodes.py', 'trap_parallel_exit: `i + 1` -> `i + 2`', 'C37-WHY why:case:*'),
    ('Cython/Compiler/Nodes.py', 'end_parallel_control_flow_block: "case 2: " -> "case 3: "', 'C37-WHY why:case:break + why:case:dup:3'),
    ('Cython/Compiler/Nodes.py', 'end_parallel_control_flow_block: "%s = 4;" -> "%s = 3;"', 'C37-WHY why:prefer-error'),
    ('Cython/Compiler/Nodes.py', 'generate_loop: body guard "if (%s < 2)" -> "< 3"', 'C37-WHY why:guard:ParallelRangeNode.generate_loop'),
    ('Cython/Compiler/Nodes.py', 'generate_execution_code: else guard "< 2" -> "<= 2"', 'C37-WHY why:guard:ParallelRangeNode.generate_execution_code'),
    ('Cython/Compiler/Code.py', 'FunctionState.get_all_labels: swap continue_label/break_label in the returned tuple', 'C37-WHY why:case:continue, why:case:break, why:guard:*'),
    ('Cython/Compiler/Nodes.py', 'trap_parallel_exit: `if label == code.error_label` -> `code.return_label`', 'C37-WHY why:fetch-on-error + why:flag:error'),
    ('Cython/Compiler/Nodes.py', 'ParallelRangeNode: `return_=self.return_label_used` -> `self.breaking_label_used`', 'C37-WHY why:flag:return:ParallelRangeNode'),
    ('Cython/Compiler/Nodes.py', 'case 2: `put_goto(code.break_label)` -> `code.return_label`', 'C37-WHY why:case:return + why:flag:return:ParallelWithBlockNode'),
    ('Cython/Compiler/Nodes.py', 'case 4: delete `self.restore_parallel_exception(code)`', 'C37-WHY why:error:restore'),
    ('Cython/Compiler/Nodes.py', 'delete the `%s = 4;` prefer-error store', 'C37-WHY why:prefer-error'),
    ('Cython/Compiler/Nodes.py', 'generate_loop: delete the body guard emission', 'C37-WHY why:body-guard:ParallelRangeNode.generate_loop'),
    ('Cython/Compiler/Nodes.py', 'restore_labels: swap self.old_return_label / self.old_error_label', 'C37-LBL lbl:restore:return + lbl:restore:error'),
    ('Cython/Compiler/Nodes.py', 'ParallelRangeNode.generate_execution_code: delete `self.restore_labels(code)`', 'C37-LBL lbl:order:...:else-before-restore, end-before-restore, no-restore'),
    ('Cython/Compiler/Nodes.py', 'ParallelWithBlockNode: move restore_labels after end_parallel_control_flow_block', 'C37-LBL lbl:order:...:end-before-restore'),
    ('Cython/Compiler/Nodes.py', 'setup: `code.new_error_label()` -> `code.error_label`', 'C37-LBL lbl:fresh:error'),
    ('Cython/Compiler/Nodes.py', 'ParallelWithBlockNode: call trap_parallel_exit before body.generate_execution_code', 'C37-LBL lbl:body-before-trap:...'),
    ('Cython/Compiler/Code.py', 'FunctionState.set_all_labels: swap return_label/error_label targets', 'C37-LBL lbl:restore:return + lbl:restore:error'),
    ('Cython/Compiler/Nodes.py', 'fetch_parallel_exception: delete put_release_freethreading_lock()', 'C37-EXC exc:fetch_parallel_exception:unbalanced:lock'),
    ('Cython/Compiler/Nodes.py', 'restore_parallel_exception: zip(self.pos_info, self.parallel_pos_info) -> swapped', 'C37-EXC exc:restore_parallel_exception:posinfo'),
    ('Cython/Compiler/Nodes.py', 'fetch: move put_acquire_freethreading_lock() after the `if (!exc_type) {` test', 'C37-EXC exc:fetch_parallel_exception:guard-outside-lock'),
    ('Cython/Compiler/Nodes.py', 'restore: delete put_giveref(parallel_exc_type)', 'C37-EXC exc:refnanny'),
    ('Cython/Compiler/Nodes.py', 'fetch: "if (!%s) {" -> "if (%s) {"', 'C37-EXC exc:fetch_parallel_exception:unguarded-fetch'),
    ('Cython/Compiler/Nodes.py', 'restore: end_block() before put_release_ensured_gil()', 'C37-EXC exc:restore_parallel_exception:block-closed-early'),
    ('Cython/Compiler/TypeInference.py', 'visit_ParallelStatNode: pop after visiting the else clause', 'C37-STK stk:visit_ParallelStatNode:else'),
    ('Cython/Compiler/TypeInference.py', 'visit_ParallelStatNode: delete the pop in the non-prange branch', 'C37-STK stk:visit_ParallelStatNode'),
    ('Cython/Compiler/Nodes.py', 'generate_loop: reduction operators "+*-&^|" -> "+*-&^|/"', 'C37-RED red:/'),
]
MUTATIONS += [   # strengthening round (seeds C37a / C37b): all reported with exit 1
    ('Cython/Compiler/Nodes.py', 'seed C37a: constant negative step uses `(start - stop) / (-(step))`', 'C37-TRIP trip:literal'),
    ('Cython/Compiler/Nodes.py', 'generate_loop: `%(i)s < %(nsteps)s` -> `<=`', 'C37-TRIP trip:absent/literal/runtime'),
    ('Cython/Compiler/Nodes.py', 'generate_loop: index `start + step * i` -> `start + step * (i + 1)`', 'C37-TRIP trip:*'),
    ('Cython/Compiler/Nodes.py', 'nsteps formula without the rounding term: `(stop - start) / step`', 'C37-TRIP trip:literal, trip:runtime'),
    ('Cython/Compiler/Nodes.py', '`if (%(nsteps)s > 0)` -> `> 1`', 'C37-TRIP trip:*'),
    ('Cython/Compiler/Nodes.py', "self.names = 'stop', 'start', 'step'", 'C37-TRIP trip:operand:start, trip:operand:stop'),
    ('Cython/Compiler/Nodes.py', "defaults = '1', '0', '1'", 'C37-TRIP trip:operand:start'),
    ('Cython/Compiler/Nodes.py', 'seed C37b: prefer-error fix-up only `if continue_ or break_ or return_:`', 'C37-EMIT emit:prefer-error:ParallelRangeNode (U={break,error})'),
    ('Cython/Compiler/Nodes.py', 'end block: `any_label_used = self.breaking_label_used` -> `self.return_label_used`', 'C37-EMIT emit:decl:*, emit:exc-dispatch:*'),
    ('Cython/Compiler/Nodes.py', 'generate_loop: body guard emitted under `if self.return_label_used:`', 'C37-EMIT emit:guard:ParallelRangeNode.generate_loop'),
    ('Cython/Compiler/Nodes.py', 'generate_execution_code: else guard emitted under `if self.return_label_used:`', 'C37-EMIT emit:guard:ParallelRangeNode.generate_execution_code'),
    ('Cython/Compiler/Nodes.py', 'end block: exception slots + fix-up under `if self.error_label_used and return_:`', 'C37-EMIT emit:exc-decl:*, emit:prefer-error:*'),
    ('Cython/Compiler/Nodes.py', 'end block: restore_parallel_exception emitted before `case 4:`', 'C37-EMIT emit:exc-dispatch:* (and C37-WHY why:error:restore)'),
    ('Cython/Compiler/Nodes.py', 'trap: `label != code.continue_label` -> `label == code.break_label` (breaking flag)', 'C37-EMIT emit:decl, emit:exc-dispatch, emit:guard'),
]
SILENT_EDITS = [   # behaviour-preserving, all stayed silent (exit 0)
    '`i + 1` -> `1 + i`; `enumerate(all_labels, 1)` with `i = idx - 1`',
    'body guard "< 2" -> "<= 1"',
    '"%s = 4;" % Naming.parallel_why -> f-string',
    'swap the `if break_:` and `if return_:` case blocks',
    'restore_labels through a local (`saved_labels = ...; code.set_all_labels(saved_labels)`)',
    'reformat the parallel_exc tuple; swap its first two elements (both transfer calls use the same tuple)',
    'reorder the two label_used() reads in ParallelWithBlockNode',
    'rename local all_labels and parameter break_ (all sites); move restore_parallel_exception above fetch_parallel_exception',
    # strengthening round, C37-TRIP / C37-EMIT stayed silent on:
    'nsteps formula with reordered summands `(step - step/abs(step) + stop - start) / step`',
    '`if (nsteps > 0)` -> `>= 1`; for header `i++` -> `++i`; index emission as an f-string over fmt_dict[...] with the factors swapped',
    'correct special-casing of constant steps (`(stop-start+step-1)/step` for literal step > 0, `(start-stop-step-1)/(-(step))` for literal step < 0, general formula otherwise)',
    'nsteps computed by two emitted statements (`nsteps = stop - start + step; nsteps = (nsteps - step/abs(step)) / step;`)',
    '`if continue_: any = ... else: any = ...` -> conditional expression; `if self.error_label_used:` -> `if not (not self.error_label_used or False):`',
    'declaration of parallel_why via f-strings and a local holding Naming.parallel_why; else guard through a local flag and `<= 1`',
    'prefer-error fix-up moved into a helper method self._prefer_error(code) (C37-EMIT silent; the older C37-WHY why:prefer-error does fire on this one)',
]

MUTATIONS += [   # fourth round: brainstormed mutants, kept as patches under mutants/C37/ and replayed by the thorough tier (34 breaking, all reported)
    ('Cython/Compiler/Nodes.py', 'trap: continue not registered for parallel blocks / closing goto of a label block dropped / leading goto dropped / code stored only for non-error labels', 'C37-SEQ seq:store, seq:no-fallthrough, seq:skip'),
    ('Cython/Compiler/Nodes.py', 'end block: `why = 0` through `code` / prefer-error fix-up through `c` / dispatch under `if (!why)`; generate_loop: body guard through `code` after the body', 'C37-SEQ place:init, place:prefer-error, place:dispatch, place:guard'),
    ('Cython/Compiler/TypeInference.py', 'in-place operator not passed / stored as None; Nodes.py: privates[entry] = None, propagate(entry, op, pos), recursion with None, target not registered', 'C37-FLOW flow:*'),
    ('Cython/Compiler/Nodes.py', 'generate_loop: lastprivate clause dropped; reduction test `entry == self.target.entry`; "+*-&^|/"', 'C37-FLOW flow:clause:*, C37-RED red:/'),
    ('Cython/Compiler/Nodes.py', 'analyse_declarations: (stop, start) for two arguments, single argument as start, step unpacked into `_`', 'C37-NODE node:range-args:N'),
    ('Cython/Compiler/TypeInference.py', 'is_parallel = True for a prange in a with-block / False for a with-block; body not visited; in_parallel = False for returns', 'C37-NODE node:is-parallel, node:body-visited, node:return:marked'),
    ('Cython/Compiler/ParseTreeTransforms.py', 'visit_ForInStatNode: else_clause / body not copied', 'C37-NODE node:transfer:*'),
    ('Cython/Compiler/Nodes.py', 'end_parallel_block only `if self.acquire_gil:` / release dropped; return critical section only for non-refcounted types', 'C37-NODE node:threadstate, node:return:critical'),
]
SILENT_EDITS += [   # fourth round (15 rewrites, all silent after three rules were repaired: C37-WHY followed no extracted helper, C37-EXC no unrolled loop, C37-RED read the guard text)
    'per-label block of trap_parallel_exit extracted into a helper method; end block: any_label_used as conditional expression computed first',
    'fetch: tuple-unpacked slot names in f-strings, position info copied in a `for ... in zip(...)` loop',
    'generate_loop: reduction/private decision with `continue` and a local flag; sorted privates held in a local; guard insertion point renamed',
    '`int why = 0;` as one statement; dispatch under `if (why != 0) {`',
    'range arguments by indexing; part transfer by a setattr/getattr loop; is_parallel by if/else; stack handling with locals; operator passed by keyword; loop variables renamed',
]

MUTATIONS += [   # round 6 (seed C37h: recycled temps not registered in the collector) - patches under mutants/C37/, 15 breaking all reported
    ('Cython/Compiler/Code.py', 'allocate_temp: registration only in the fresh-name branch (seed) / only for manage_ref / early return of the free-list branch / only for zombies / (type, result) / '
     'collect_temps_stack[0]', 'C37-TEMPREG reg:FunctionState.allocate_temp'),
    ('Cython/Compiler/Code.py', 'stop_collecting_temps: pop(0)', 'C37-TEMPREG stack:stop'),
    ('Cython/Compiler/Nodes.py', 'generate_loop: start_collecting_temps after the body; ParallelWithBlockNode: privatize_temps before the body', 'C37-TEMPPRIV priv:<method>:<world>:collect'),
    ('Cython/Compiler/Nodes.py', 'privatize_temps: memoryview temps private; `elif firstprivates`; clauses only under breaking_label_used', 'C37-TEMPPRIV priv:...:firstprivate:<kind> / clause:<kind>'),
    ('Cython/Compiler/Nodes.py', 'privatize_temps writes through `code`; insertion point captured after the pragma line was terminated', 'C37-TEMPPRIV priv:...:place:<kind>'),
    ('Cython/Compiler/Nodes.py', 'generate_loop: collector pushed for a prange inside `with parallel()` and never popped; privatize_temps also for nested pranges', 'C37-TEMPPRIV priv:...:balance'),
]
SILENT_EDITS += [   # round 6 (8 rewrites, all silent; C37-LBL body-before-trap did not follow `b = self.body` and was repaired)
    'allocate_temp: registration through a helper method with an early return / duplicated into both branches with `len(stack) > 0` and a local for the collector',
    'start/stop_collecting_temps via `+= [set()]` and `del stack[-1]`',
    'privatize_temps: `if not self.is_parallel: return`, clause lists by comprehension, clauses in a loop with f-strings',
    'generate_loop: ownership condition in a local flag with if/else exchanged, funcstate in a local; pragma line + point capture moved into a helper method',
    'ParallelWithBlockNode: pragma text as f-string, point / funcstate / body held in locals',
]


def run(ctx):
    return [pC37.rule_why(ctx), pC37.rule_labels(ctx), pC37.rule_handoff(ctx), pC37.rule_stack(ctx), pC37.rule_reductions(ctx),
            sC37.rule_emit(ctx), sC37.rule_trip(ctx), sC37.rule_seq(ctx), sC37.rule_node(ctx), sC37.rule_flow(ctx),
            s4C37.rule_tempreg(ctx), s4C37.rule_temppriv(ctx)]
