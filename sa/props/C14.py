"""C14 — optimised loops iterate exactly like Python loops: structural necessary conditions on IterationTransform,
the loop statement nodes and the C container-iteration helpers."""
import ast, re

from ..core import Rule, AnalysisError, node_src
from ..engine import pyflow, tables
from ..engine.pyindex import walk_no_nested
from ..rules import gen, iface, typed
from ..rules import pC14 as P

ID = 'C14'
TECHNIQUE = ('typestate over clang\'s AST of the C iteration helpers per preprocessor configuration (size test must precede the raw table walk); '
             'complete-domain evaluation of small decision tables (_find_for_from_node_relations over its 4 inputs, the result dispatch of the emitted '
             'helper call over the helper\'s finite set of return constants); symbolic comparison of two expression trees (compile-time formula vs. '
             'constructed node tree); path-sensitive dataflow over generate_execution_code (label protocol) and over IterationTransform (guard dominance); '
             'interface rules I3/I5 restricted to the iteration helpers; '
             'partial evaluation of ForFromStatNode/_ForInStatNode.generate_execution_code (sa/rules/sC14.Emu: the method source interpreted over constants, unknowns named by access path and '
             'path assumptions) giving the emitted C skeleton of every path: the `for (init; cond; incr) {` header is parsed into linear forms over bound1/bound2/step and compared with the '
             'canonical loop of the relation pair, with an interval argument for unsigned counters; the emitted statement sequence is checked for where the target is assigned; '
             'interpretation of the *source* of the IterationTransform methods by the checker\'s own evaluator (sa/rules/sC21.MiniPy; nothing of the repository is imported or executed) on abstract '
             'for-in statements, the constructed loop tree simulated by the checker for container lengths 0, 1, 3 and compared with the Python loop; lexical dominator / guard analysis with truth '
             'tables of the exhaustion tests of the C cursor walks; key/value/item role agreement between PyDict_Next, the helper parameters and the emitted call; execution of the emitted list/tuple '
             'iteration skeleton of IteratorNode')
DECIDES = ('(S2) in the helpers loaded by DictIterationNextNode/SetIterationNextNode every path to PyDict_Next/_PySet_NextEntry on a container passes a comparison of the '
           'remembered length with the current size whose "changed" branch raises the exception type CPython raises (RuntimeError) and returns a negative code, in every '
           'preprocessor configuration of the function; '
           '(RET) the code emitted after `r = __Pyx_dict_iter_next/__Pyx_set_iter_next(...)` sends every negative return constant of the helper to the error label, '
           '0 to `break`, and positive constants into the body (decided by evaluating the emitted tests, in order, over the helper\'s return constants); '
           '(I3/I5) arity and categories of the typed (IterationTransform) and emitted (*IterationNextNode) calls to the iteration helpers; '
           '(G3/LOOP) every loop statement node installs its own break/continue labels before generating the body, places the continue label after the body while they are installed, '
           'restores the labels before generating the else clause, and places the break label after the else clause on every path; '
           '(REL) the relation pair chosen for (negative step, reversed) runs in the direction sign(step) xor reversed, includes the first bound and excludes the last for forward ranges and the '
           'converse for reversed ones (bounds are swapped when reversed), and ForFromStatNode.relation_table gives strict relations a one-step offset in the loop direction; '
           '(SIB) the compile-time formula for the first index of reversed(range(a, b, step)) and the node tree built by _build_range_step_calculation denote the same expression for both step signs, '
           'and each constructed node class is the class binop_node_classes assigns to its operator; '
           '(PIN) arithmetic nodes whose semantics are filled in late from a compiler directive (DivNode/ModNode.cdivision) and that are constructed by a transform with a literal operator pin that attribute; '
           '(REV) inside IterationTransform a rewriting method that cannot iterate backwards is reached only where `reversed` is known false, every other one receives the caller\'s `reversed`, '
           'and a method that accepts `reversed` reads it; '
           '(HDR) for each of the 8 same-direction relation pairs, with and without step, for unsigned and for other counter types: the C for-header ForFromStatNode emits makes the body see '
           'bound1+offset(relation1) first, advance by exactly one step in the direction of the relations per iteration, and continue while `value relation2 bound2` (whether the step is taken in '
           'the increment clause or at the top of the body), and an unsigned counter is decremented only where the preceding loop test bounds it from below by the step '
           '(so `i >= 0` / wrap-around below zero cannot keep the loop running); '
           '(LOOPVAR) ForFromStatNode in range() mode (from_range=True, as IterationTransform constructs it) and _ForInStatNode assign the loop target inside the loop before the body on every path, '
           'never after the loop has finished (final value = last item; an empty loop leaves the variable untouched/unbound), and the C counter of a range() loop is not re-read from the target; '
           '(TREE) for 71 abstract for-in statements - range() with one to three arguments, constant and run-time bounds, steps of both signs, reversed(); whole C arrays and pointer slices with '
           'absent / zero / constant / run-time bounds, forward, reversed, stepped forward; str, bytes, bytearray, memoryview forward and reversed; enumerate() with and without start; a dict, '
           '.keys(), .values(), .items() with a pair and a single target; a set - the loop IterationTransform builds visits the items Python visits, in the same order, binds the targets to the same '
           'values and runs the else clause on exhaustion; '
           '(CURSOR) the tuple / list cursor walks of __Pyx_dict_iter_next stop exactly at the size and store cursor + 1; (LEN) __Pyx_dict_iterator[_legacy] / __Pyx_set_iterator store the current '
           'size of a container they hand out for in-place iteration; (KV) the key / value / item outputs of PyDict_Next reach the targets of the same role through the helper parameters and the '
           'call DictIterationNextNode emits, item tuples of non-dict mappings are unpacked as (key, value); (ITER) the C loop IteratorNode emits for exact lists / tuples, forward and reversed(), '
           'reads the indices 0..len-1 (len-1..0) and nothing else.')
NOT_DECIDED = ('iteration counts outside the C14-TREE family (the constructed loops are simulated for container lengths 0, 1, 3 and the listed range / slice triples: their bounds are affine in the length and '
               'the stride is constant, other bound values are not evaluated); reversed() over a stepped C array slice is evaluated only by the pending part C14-TREE-REVSTEP (genuine defect FINDING_5 of '
               'session s4-G5: zero iterations); literal str / bytes iterables (byte-array path), C++ containers, async iteration; '
               'overflow of `bound + step` at the upper end of the counter type; Pyrex for-from loops with a Python target whose bounds force an unsigned counter; the C types chosen for the synthesised arithmetic '
               '(overflow of spanning types); that nothing between the size test and the table walk can run Python code; exception *messages* ("set changed size" vs CPython\'s "Set changed size"); '
               'str/bytes/C-array iteration bounds arithmetic; the enumerate() evaluation-order finding (21) belongs to C20; I6 (name-aligned order) is not armed: the emitted arguments carry no names '
               'that coincide with the C parameter names, so the mutual-swap rule would be vacuous here.')
ASSUMPTIONS = ['C14-TREE: type analysis of the constructed nodes keeps the operand trees (analyse_* / coerce_* / as_none_safe_node are the identity in the interpreted transforms); a C `break` emitted by '
               'a *IterationNextNode leaves the enclosing while loop normally (its else clause runs), a BreakStatNode skips it',
               'PyDict_Next and _PySet_NextEntry are the only raw table walkers (C-API reference); a comparison `param <op> f(container)` with an integer by-value parameter is the size test',
               'reversed ranges swap bound1/bound2 (checked: the swap statement must exist, otherwise ANALYSIS-ERROR)',
               'nodes built by Parsing.py carry user-written operators and legitimately follow the user\'s directives; every other literal-operator construction is synthesised']

EXEMPT = {}   # completed below from C20 (same rule, same confirmed-infeasible path)

MUTATIONS = [
    # (file, single edit on a scratch copy, rule that reported it)                                  -- all reported with exit 1 unless marked
    ('Cython/Utility/Optimize.c', '__Pyx_dict_iter_next_source_is_dict: delete the `if (unlikely(orig_length != PyDict_Size(iter_obj))) {...}` block', 'C14-S2'),
    ('Cython/Utility/Optimize.c', '__Pyx_set_iter_next: move the PySet_GET_SIZE test after the _PySet_NextEntry block', 'C14-S2'),
    ('Cython/Utility/Optimize.c', '__Pyx_dict_iter_next_source_is_dict: PyExc_RuntimeError -> PyExc_ValueError in the size test', 'C14-S2'),
    ('Cython/Utility/Optimize.c', '__Pyx_set_iter_next: `return -1;` -> `return 0;` in the size-changed branch', 'C14-S2'),
    ('Cython/Compiler/Nodes.py', 'DictIterationNextNode: error_goto_if("%s == -1") -> ("%s == 1")', 'C14-RET'),
    ('Cython/Compiler/Nodes.py', 'SetIterationNextNode: "if (unlikely(%s == 0)) break;" -> "(%s <= 0)"', 'C14-RET'),
    ('Cython/Compiler/Nodes.py', 'SetIterationNextNode: emitted "__Pyx_set_iter_next(%s, %s, &%s, %s)" (one argument less)', 'C14-I5'),
    ('Cython/Compiler/Nodes.py', 'DictIterationNextNode: drop temp_addresses[2] from the % tuple only', 'ANALYSIS-ERROR (exit 2: the template no longer resolves, C14-I5 below floor) - not silent, not a VIOLATION'),
    ('Cython/Compiler/Optimize.py', '_transform_set_iteration: args=[set_obj, is_set, set_len_temp_addr] (is_set_temp_addr dropped)', 'C14-I3'),
    ('Cython/Compiler/Optimize.py', 'PySet_Iterator_func_type: drop the declared p_is_set argument', 'MISSED by design: I3 compares passed arity with the C arity, a shorter declaration is information only (DESIGN section 7)'),
    ('Cython/Compiler/Optimize.py', '_transform_range_iteration: _find_for_from_node_relations(step_value < 0, False)', 'C14-REL'),
    ('Cython/Compiler/Optimize.py', "_try_optimise_iterator_function: delete `if reversed: return node` before _transform_enumerate_iteration", 'C14-REV'),
    ('Cython/Compiler/Nodes.py', 'WhileStatNode: move `code.set_loop_labels(old_loop_labels)` after the else clause', 'C14-LOOP'),
    ('Cython/Compiler/Nodes.py', 'ForFromStatNode: `code.put_label(break_label)` moved before the else clause', 'C14-LOOP'),
    ('Cython/Compiler/Nodes.py', '_ForInStatNode: delete `code.put_label(code.continue_label)`', 'C14-LOOP'),
    ('Cython/Compiler/Nodes.py', 'ForFromStatNode: delete `code.set_loop_labels(old_loop_labels)`', 'C14-G3 + C14-LOOP'),
    ('Cython/Compiler/Optimize.py', "_find_for_from_node_relations: reversed/positive `return '>', '>='` -> `'>=', '>'`", 'C14-REL'),
    ('Cython/Compiler/Nodes.py', "relation_table: '<' : (\"+1\", \"++\") -> (\"-1\", \"++\")", 'C14-REL'),
    ('Cython/Compiler/Optimize.py', "_build_range_step_calculation: operand2=IntNode.for_int(pos, 1) of the inner SubNode -> 2", 'C14-SIB'),
    ('Cython/Compiler/Optimize.py', "_build_range_step_calculation: swap begin_value/end_value in the negative-step branch", 'C14-SIB'),
    ('Cython/Compiler/Optimize.py', "_transform_range_iteration: compile-time `+ 1` -> `- 1` in the positive branch", 'C14-SIB'),
    ('Cython/Compiler/Optimize.py', "_build_range_step_calculation: DivNode(... operator='//') -> MulNode(... operator='//')", 'C14-SIB'),
    ('Cython/Compiler/Optimize.py', '_optimise_for_loop: delete `if reversed: return node` before _transform_set_iteration', 'C14-REV'),
    ('Cython/Compiler/Optimize.py', '_try_optimise_array_iteration: _transform_bytes_iteration(node, iterable) without reversed=', 'C14-REV'),
    ('Cython/Compiler/Optimize.py', '(after the fix) remove `cdivision=False` from the synthesised DivNode', 'C14-PIN  (fires on the unfixed tree today: finding 16)'),
    ('Cython/Compiler/Nodes.py', "SEED C14a: unsigned guard `self.relation2[0] == '>'` -> `self.relation2 == '>'`", 'C14-HDR header[>= >=,unsigned]:wrap + header[> >=,unsigned]:wrap'),
    ('Cython/Compiler/Nodes.py', 'guarded header: `+ step` dropped from the condition side only', 'C14-HDR header[> >,unsigned]:test ...'),
    ('Cython/Compiler/Nodes.py', 'unsigned guard: `not loopvar_type.signed` -> `loopvar_type.signed`', 'C14-HDR ...unsigned]:wrap (and signed counters: nothing, the guarded form is also canonical)'),
    ('Cython/Compiler/Nodes.py', 'plain header: condition uses self.relation1', 'C14-HDR header[< <=,*]:test ...'),
    ('Cython/Compiler/Nodes.py', 'plain header: offset replaced by ""', 'C14-HDR header[< <,*]:first, header[> >,*]:first'),
    ('Cython/Compiler/Nodes.py', 'incop = "%s=%s" % (incop[1], "1") (step ignored)', 'C14-HDR ...:stride'),
    ('Cython/Compiler/Nodes.py', 'SEED C21b: post-loop target assignment `if not from_range and self.py_loopvar_node` -> `if self.py_loopvar_node`', 'C14-LOOPVAR [from_range]:after-loop'),
    ('Cython/Compiler/Nodes.py', 'post-loop target assignment: `not from_range` -> `from_range`', 'C14-LOOPVAR [from_range]:after-loop'),
    ('Cython/Compiler/Nodes.py', 're-synchronisation of the counter: `if not from_range and self.py_loopvar_node` -> `if self.py_loopvar_node`', 'C14-LOOPVAR [from_range]:counter'),
    ('Cython/Compiler/Nodes.py', 'in-loop assignment: RawCNameExprNode only `if ... and not from_range`', 'C14-LOOPVAR [from_range]:in-loop'),
    ('Cython/Compiler/Nodes.py', '_ForInStatNode: target assignment moved behind code.putln("}")', 'C14-LOOPVAR _ForInStatNode:in-loop + after-loop'),
    # fourth round (session s4-G5): patches and verdicts in /verif/mutants/C14/*
    ('Cython/Compiler/Optimize.py', 'indexable iteration: counter starts at 0 / inclusive test / step direction / else clause dropped; unicode: bounds not swapped when reversed, strict/non-strict '
     'relations exchanged; C arrays: size - 1, implicit stop 0 for negative steps, bounds not swapped; enumerate: default start 1, increment before use; range: bounds not swapped, range(n) from 1, '
     'else clause dropped; dict: (key, value) targets exchanged, plain dict iterates values, .values() mapped to keys, position initialised to 1; set: else clause dropped', 'C14-TREE'),
    ('Cython/Compiler/Nodes.py', 'DictIterationNextNode: temp_addresses[1], temp_addresses[0] exchanged in the emitted call', 'C14-KV'),
    ('Cython/Utility/Optimize.c', '__Pyx_dict_iter_next: `pos > tuple_size`; `*ppos = pos + 1` dropped in the list branch; __Pyx_unpack_tuple2(next_item, pvalue, pkey, ...); '
     '__Pyx_dict_iterator: *p_orig_length = 0 for an exact dict', 'C14-CURSOR / C14-KV / C14-LEN'),
    ('Cython/Compiler/ExprNodes.py', 'IteratorNode: `--counter` after taking the length dropped; reversed stop test `<= 0`; size test `>`', 'C14-ITER'),
    # behaviour preserving, silent:
    ('Cython/Compiler/Nodes.py', "unsigned guard written as `self.relation2 in ('>=', '>')` / as `not (not is_int or signed or not self.relation2.startswith('>'))`", 'silent'),
    ('Cython/Compiler/Nodes.py', 'plain header as an f-string with renamed locals (counter, rel2)', 'silent'),
    ('Cython/Compiler/Nodes.py', 'post-loop assignment moved into a helper method called under `if not from_range:`; guard as `not (not pyrex_loop or self.py_loopvar_node is None)`; in-loop assignment restructured with if/else', 'silent'),
    ('Cython/Compiler/Nodes.py', 'rename local old_loop_labels -> saved_labels in WhileStatNode; reorder the rows of relation_table', 'silent'),
    ('Cython/Compiler/Optimize.py', '_build_range_step_calculation: MulNode operands swapped (abs_step * q -> q * abs_step), local step_calculation_node renamed', 'silent'),
    ('Cython/Utility/Optimize.c', 'size test rewritten as `if (likely(orig_length == PyDict_Size(iter_obj))) {} else { raise; return -1; }`', 'silent'),
    ('Cython/Compiler/Optimize.py', "_find_for_from_node_relations rewritten with `if not reversed:` first", 'silent'),
    ('Cython/Compiler/Optimize.py', "guards rewritten: `if not reversed: return self._transform_set_iteration(...)`; `if name == 'enumerate' and reversed: return node` followed by `if name == 'enumerate': return self._transform_enumerate_iteration(...)`", 'silent'),
    ('Cython/Compiler/Nodes.py', 'DictIterationNextNode: error test first as code.error_goto_if_neg(res, pos), then "if (!%s) break;"; temp renamed', 'silent'),
    ('Cython/Utility/Optimize.c', '__Pyx_set_iter_next: parameters iter_obj/orig_length renamed', 'silent'),
    ('Cython/Compiler/Optimize.py', 'compile-time formula split with a local `q = (begin_value - end_value - 1) // abs_step`', 'silent'),
]


def _cls(ix, mod, name):
    return ix.cls(mod, name)


def _method(c, name):
    fn = c.methods.get(name)
    if fn is None:
        raise AnalysisError('%s.%s vanished' % (c.qual, name))
    return fn


# ------------------------------------------------------------------------------------------------------------ RET
def rule_RET(ctx, next_classes, helper_funcs):
    r = Rule('C14-RET', 'the code emitted after a container-iteration helper call maps the helper\'s negative return constants to the error label, 0 to break, positive to the body', floor=5)
    by_name = {d.name: d for d in helper_funcs}
    for c in next_classes:
        fn = _method(c, 'generate_execution_code')
        helpers = [name for n, name, args, argph in iface.emitted_calls_fn(fn) if name in by_name]
        if not helpers:
            raise AnalysisError('%s no longer emits a call to an iteration helper' % c.qual)
        for helper in sorted(set(helpers)):
            var, dispatch = P.result_dispatch(fn, helper)
            if var is None:
                raise AnalysisError('%s: the emitted `X = %s(...)` assignment was not found' % (c.qual, helper))
            if any(pred is None for a, pred, t, l in dispatch):
                raise AnalysisError('%s: cannot interpret an emitted test on the result of %s: %r' % (c.qual, helper, [t for a, p, t, l in dispatch if p is None]))
            consts, unknown = P.return_constants(ctx, by_name[helper])
            if len(consts) < 3:
                raise AnalysisError('%s: only return constants %s found' % (helper, sorted(consts)))
            if unknown:
                r.info('%s: return expressions not resolved to constants: %s' % (helper, sorted(unknown)))
            for v in sorted(consts):
                want = 'error' if v < 0 else 'break' if v == 0 else 'continue'
                got = P.classify(dispatch, v)
                key = '%s:%s=%d' % (c.qual, helper, v)
                r.inst(key, sample='%s returns %d -> generated code does %s' % (helper, v, got))
                if got != want:
                    what = {'error': 'an exception is pending (e.g. RuntimeError after a resize, or a failed unpacking)', 'break': 'the container is exhausted',
                            'continue': 'a new item was stored'}[want]
                    r.violate('%s:%s=%d' % (c.qual, helper, v), c.module.rel, dispatch[0][3] if dispatch else fn.lineno,
                              '%s.generate_execution_code: when %s returns %d (%s) the emitted tests %s lead to `%s` instead of `%s`'
                              % (c.name, helper, v, what, [t.replace(iface.PLACEHOLDER, var) for a, p, t, l in dispatch], got, want))
    pc = ast.parse("def g(self, code):\n    t = code.funcstate.allocate_temp(1, False)\n    code.putln('%s = __Pyx_h(%s);' % (t, 1))\n"
                   "    code.putln('if (unlikely(%s <= 0)) break;' % t)\n    code.putln(code.error_goto_if('%s == -1' % t, self.pos))\n").body[0]
    var, dispatch = P.result_dispatch(pc, '__Pyx_h')
    r.positive_control(var == 't' and P.classify(dispatch, -1) == 'break', 'break test swallowing -1')
    return r


# ------------------------------------------------------------------------------------------------------------ iface
def rule_I3_iter(ctx, transform):
    full = typed.rule_I3(ctx, modules=(transform.module.short,), floor=0)
    r = Rule('C14-I3', 'typed helper calls built by IterationTransform: passed arity == C arity, declared argument/return categories agree with the C prototype', floor=6)
    prefix = '%s.%s.' % (transform.module.short, transform.name)
    for key in sorted(k for k in full.nontrivial if isinstance(k, str) and k.startswith(prefix)):
        r.inst(key, sample=key)
    for f in full.findings:
        if f.construct.startswith(prefix):
            r.findings.append(type(f)(r.id, f.construct, f.file, f.line, f.msg, f.detail))
    return r


# ------------------------------------------------------------------------------------------------------------ G3 / LOOP
def loop_classes(ix):
    base = ix.cls('Nodes', 'LoopNode')
    out = []
    for c in ix.subclasses(base):
        if 'generate_execution_code' in c.methods:
            out.append(c)
    if len(out) < 3:
        raise AnalysisError('only %d LoopNode subclasses define generate_execution_code' % len(out))
    return sorted(out, key=lambda c: c.name)


def rule_G3_loops(ctx, classes):
    r = Rule('C14-G3', 'break/continue label slots replaced by a loop statement node are restored from the saved values on every normal exit', floor=3)
    tr = gen._g3_transfer()
    for c in classes:
        fn = c.methods['generate_execution_code']
        key = '%s.generate_execution_code' % c.qual
        o = pyflow.Flow(tr).run(fn)
        r.inst(key, sample=key)
        bad = {f[1] for st in o.normal | o.returns for f in st if f[0] == 'L'}
        for k in sorted(bad):
            r.violate('%s:%s' % (key, k), c.module.rel, fn.lineno,
                      '%s.generate_execution_code leaves code.%s_label modified on some normal exit path: a later %s in the enclosing loop jumps into this (finished) loop'
                      % (c.name, k, k))
    pc = ast.parse("def f(self, code):\n    old = code.new_loop_labels()\n    self.body.generate_execution_code(code)\n").body[0]
    o = pyflow.Flow(tr).run(pc)
    r.positive_control(any(f[0] == 'L' for st in o.normal for f in st), 'labels never restored')
    return r


def rule_LOOP(ctx, classes):
    r = Rule('C14-LOOP', 'loop statement nodes: body generated under the loop\'s own labels, continue label placed after the body, labels restored before the else clause, break label placed after the else clause', floor=3)
    for c in classes:
        fn = c.methods['generate_execution_code']
        key = '%s.generate_execution_code' % c.qual
        r.inst(key, sample=key)
        for code, text in sorted(P.loop_protocol(fn).items()):
            r.violate('%s:%s' % (key, code), c.module.rel, fn.lineno, '%s.generate_execution_code %s' % (c.name, text))
    pc = ast.parse("def g(self, code):\n    old = code.new_loop_labels()\n    self.body.generate_execution_code(code)\n    code.put_label(code.continue_label)\n"
                   "    brk = code.break_label\n    if self.else_clause:\n        self.else_clause.generate_execution_code(code)\n    code.set_loop_labels(old)\n    code.put_label(brk)\n").body[0]
    r.positive_control('else-inside' in P.loop_protocol(pc), 'else clause generated before the labels are restored')
    return r


# ------------------------------------------------------------------------------------------------------------ REL
def _dir(rel):
    return '<' if rel.startswith('<') else '>' if rel.startswith('>') else None


def rule_REL(ctx, transform, forfrom):
    r = Rule('C14-REL', 'for-from relation tables: direction = sign(step) xor reversed, first bound inclusive/last exclusive (converse when reversed), strict first relation <=> one-step offset in loop direction', floor=8)
    fn = _method(transform, '_find_for_from_node_relations')
    rng = _method(transform, '_transform_range_iteration')
    pn = [a.arg for a in fn.args.args[1:]]
    if len(pn) != 2:
        raise AnalysisError('_find_for_from_node_relations no longer takes (negative step, reversed)')
    # the call site tells which parameter is which
    call = [n for n in walk_no_nested(rng) if isinstance(n, ast.Call) and isinstance(n.func, ast.Attribute) and n.func.attr == fn.name]
    if len(call) != 1 or len(call[0].args) != 2:
        raise AnalysisError('_transform_range_iteration no longer calls _find_for_from_node_relations(neg, reversed) exactly once')
    a0, a1 = call[0].args
    neg_first = isinstance(a0, ast.Compare) and isinstance(a0.ops[0], ast.Lt) and tables.literal(a0.comparators[0]) == 0
    if not neg_first:
        raise AnalysisError('unexpected first argument of _find_for_from_node_relations: %s' % node_src(call[0]))
    r.inst('Optimize.IterationTransform._transform_range_iteration:relations-call', sample=node_src(call[0]))
    if not (isinstance(a1, ast.Name) and a1.id == 'reversed'):
        r.violate('Optimize.IterationTransform._transform_range_iteration:relations-call', transform.module.rel, call[0].lineno,
                  '_transform_range_iteration selects the loop relations with reversed=%s instead of its own `reversed` flag although it swaps the bounds when reversed: '
                  'reversed(range(...)) loops get forward relations on swapped bounds' % node_src(a1))
    # bounds are swapped under `if reversed:`
    swapped = False
    for n in walk_no_nested(rng):
        if isinstance(n, ast.If) and isinstance(n.test, ast.Name) and n.test.id == 'reversed':
            for s in n.body:
                if isinstance(s, ast.Assign) and isinstance(s.targets[0], ast.Tuple) and isinstance(s.value, ast.Tuple):
                    t = [node_src(x) for x in s.targets[0].elts]
                    v = [node_src(x) for x in s.value.elts]
                    if len(t) == 2 and t == v[::-1] and t[0] != t[1]:
                        swapped = True
    if not swapped:
        # not an error of its own: what the bounds of the constructed loop have to be is decided by C14-TREE (the loop is simulated and compared with range());
        # the relation tables below are still checked under the model "bounds swapped for reversed ranges"
        r.info('_transform_range_iteration does not swap bound1/bound2 under `if reversed:` in the form this rule recognises; the bounds are decided by C14-TREE')
    rel_attr = forfrom.attrs.get('relation_table')
    table = tables.literal(rel_attr) if rel_attr is not None else None
    if not isinstance(table, dict) or len(table) < 4:
        raise AnalysisError('ForFromStatNode.relation_table is not a literal dict any more')

    def check_pair(neg, rev, pair):
        probs = []
        if not (isinstance(pair, tuple) and len(pair) == 2 and all(isinstance(x, str) for x in pair)):
            return ['returns %r, not a pair of relations' % (pair,)]
        r1, r2 = pair
        for x in pair:
            if x not in table:
                probs.append('relation %r is not a key of ForFromStatNode.relation_table' % x)
        if probs:
            return probs
        want_dir = '>' if (neg != rev) else '<'
        if _dir(r1) != want_dir or _dir(r2) != want_dir:
            probs.append('relations %r, %r run %s but the loop variable must %s' % (r1, r2, 'upwards' if _dir(r1) == '<' else 'downwards' if _dir(r1) == _dir(r2) else 'in two directions',
                                                                               'decrease' if want_dir == '>' else 'increase'))
        first_incl, last_incl = '=' in r1, '=' in r2
        if rev:
            if first_incl or not last_incl:
                probs.append('a reversed range starts below/above the (swapped) stop bound and ends AT the start bound: expected a strict first and a non-strict second relation, found %r, %r' % (r1, r2))
        else:
            if not first_incl or last_incl:
                probs.append('range() includes start and excludes stop: expected a non-strict first and a strict second relation, found %r, %r' % (r1, r2))
        return probs
    for neg in (False, True):
        for rev in (False, True):
            pair = P.eval_decision(fn, {pn[0]: neg, pn[1]: rev})
            key = 'Optimize.IterationTransform._find_for_from_node_relations:neg=%d,reversed=%d' % (neg, rev)
            r.inst(key, sample='negative step=%s reversed=%s -> %r' % (neg, rev, pair))
            for p in check_pair(neg, rev, pair):
                r.violate(key, transform.module.rel, fn.lineno, '_find_for_from_node_relations(%s=%s, %s=%s): %s — the C for loop visits a different index set than CPython\'s range'
                          % (pn[0], neg, pn[1], rev, p))
    for rel, val in sorted(table.items()):
        key = 'Nodes.ForFromStatNode.relation_table:%s' % rel
        r.inst(key, sample='%r -> %r' % (rel, val))
        if not (isinstance(val, tuple) and len(val) == 2 and _dir(rel) and isinstance(val[0], str) and isinstance(val[1], str) and val[1]):
            r.violate(key, forfrom.module.rel, rel_attr.lineno, 'relation_table[%r] = %r is not (offset, increment op)' % (rel, val))
            continue
        off, inc = val
        sign = '+' if _dir(rel) == '<' else '-'
        probs = []
        if set(inc) != {sign}:
            probs.append('increment operator %r does not move %s' % (inc, 'upwards' if sign == '+' else 'downwards'))
        if '=' in rel and off.strip() != '':
            probs.append('the inclusive relation starts AT the bound but the offset is %r' % off)
        if '=' not in rel and off.replace(' ', '') != sign + '1':
            probs.append('the strict relation must start one step past the bound (%s1) but the offset is %r' % (sign, off))
        for p in probs:
            r.violate(key, forfrom.module.rel, rel_attr.lineno, 'ForFromStatNode.relation_table[%r]: %s' % (rel, p))
    pcf = ast.parse("def f(self, neg, reversed):\n    if reversed:\n        return ('>=', '>')\n    return ('<=', '<')\n").body[0]
    r.positive_control(bool(check_pair(False, True, P.eval_decision(pcf, {'neg': False, 'reversed': True}))), 'reversed range with inclusive first bound')
    return r


# ------------------------------------------------------------------------------------------------------------ SIB
def _step_branches(stmt_if):
    """-> (negative-step statements, positive-step statements) of `if step_value < 0` / `> 0`."""
    t = stmt_if.test
    if isinstance(t, ast.Compare) and len(t.ops) == 1 and isinstance(t.left, ast.Name) and tables.literal(t.comparators[0]) == 0:
        if isinstance(t.ops[0], ast.Lt):
            return stmt_if.body, stmt_if.orelse
        if isinstance(t.ops[0], (ast.Gt, ast.GtE)):
            return stmt_if.orelse, stmt_if.body
    return None


def _assign_env(stmts):
    env = {}
    for s in stmts:
        if isinstance(s, ast.Assign) and len(s.targets) == 1 and isinstance(s.targets[0], ast.Name):
            env[s.targets[0].id] = s.value
    return env


def _has_floordiv(e):
    return any(isinstance(x, ast.BinOp) and isinstance(x.op, ast.FloorDiv) for x in ast.walk(e))


def sib_trees(transform_rng, builder, binops, problems):
    """-> {('compile'|'run', 'neg'|'pos'): tree}"""
    # ---- compile-time formula
    comp = None
    for n in walk_no_nested(transform_rng):
        if isinstance(n, ast.If):
            br = _step_branches(n)
            if br and all(any(isinstance(s, ast.Assign) and _has_floordiv(s.value) for s in b) for b in br):
                comp = br
    if comp is None:
        raise AnalysisError('_transform_range_iteration: the compile-time `if step_value < 0: ... // ...` formula was not found')
    single = {}
    counts = {}
    for n in walk_no_nested(transform_rng):
        if isinstance(n, ast.Assign) and len(n.targets) == 1 and isinstance(n.targets[0], ast.Name):
            counts[n.targets[0].id] = counts.get(n.targets[0].id, 0) + 1
            single[n.targets[0].id] = n.value
    base_env = {k: v for k, v in single.items() if counts[k] == 1}

    def leaf_c(e):
        if isinstance(e, ast.Attribute) and e.attr == 'constant_result' and isinstance(e.value, ast.Name):
            return ('sym', e.value.id)
        if isinstance(e, ast.Call) and isinstance(e.func, ast.Name) and e.func.id == 'abs' and len(e.args) == 1:
            return ('sym', '|step|')
        return None
    trees = {}
    envs = [_assign_env(stmts) for stmts in comp]
    both = set(envs[0]) & set(envs[1])
    inner = {x.id for env in envs for k in both for x in ast.walk(env[k]) if isinstance(x, ast.Name)}
    for tag, benv in zip(('neg', 'pos'), envs):
        env = dict(base_env)
        env.update(benv)
        cands = {}
        for k in sorted(both - inner):
            try:
                t = P.py_formula(benv[k], env, leaf_c)
            except AnalysisError:
                continue            # not an arithmetic formula
            if '//' in P.show(t):
                cands[k] = t
        if len(cands) != 1:
            raise AnalysisError('_transform_range_iteration: expected one constant-folded start index per step sign, found %s' % sorted(cands))
        trees[('compile', tag)] = list(cands.values())[0]
    # ---- run-time tree
    call = [n for n in walk_no_nested(transform_rng) if isinstance(n, ast.Call) and isinstance(n.func, ast.Attribute) and n.func.attr == builder.name]
    if len(call) != 1:
        raise AnalysisError('_transform_range_iteration calls %s %d times' % (builder.name, len(call)))
    params = [a.arg for a in builder.args.args[1:]]
    if len(call[0].args) != len(params):
        raise AnalysisError('call of %s does not pass all parameters positionally' % builder.name)
    argmap = dict(zip(params, call[0].args))

    def caller_sym(e):
        if isinstance(e, ast.Name):
            vals = [n.value for n in walk_no_nested(transform_rng) if isinstance(n, ast.Assign) and len(n.targets) == 1
                    and isinstance(n.targets[0], ast.Name) and n.targets[0].id == e.id
                    and not (isinstance(n.value, ast.Constant) and n.value.value is None)]
            v = vals[0] if len(vals) == 1 else None
            if isinstance(v, ast.Call) and (getattr(v.func, 'attr', None) or getattr(v.func, 'id', None)) in ('LetRefNode', 'ResultRefNode') \
                    and len(v.args) == 1 and isinstance(v.args[0], ast.Name):
                return ('sym', v.args[0].id)       # a reference to the temp that holds that bound
            return ('sym', e.id)
        return None

    def leaf_r(e):
        if isinstance(e, ast.Name) and e.id in argmap:
            return caller_sym(argmap[e.id])
        if isinstance(e, ast.Call) and isinstance(e.func, ast.Name) and e.func.id == 'abs' and len(e.args) == 1:
            return ('sym', '|step|')
        return None
    br = None
    for s in builder.body:
        if isinstance(s, ast.If) and _step_branches(s):
            br = _step_branches(s)
    if br is None:
        raise AnalysisError('%s: the `if step_value < 0` operand selection was not found' % builder.name)
    rets = [n for n in walk_no_nested(builder) if isinstance(n, ast.Return) and n.value is not None]
    if len(rets) != 1:
        raise AnalysisError('%s has %d return statements' % (builder.name, len(rets)))
    top_env = _assign_env(builder.body)
    for tag, stmts in zip(('neg', 'pos'), br):
        env = dict(top_env)
        env.update(_assign_env(stmts))
        trees[('run', tag)] = P.node_formula(rets[0].value, env, leaf_r, binops, problems)
    return trees


def rule_SIB(ctx, transform):
    r = Rule('C14-SIB', 'reversed(range()) start index: compile-time formula == run-time node tree built by _build_range_step_calculation (both step signs); node class matches operator', floor=2)
    rng = _method(transform, '_transform_range_iteration')
    builder = _method(transform, '_build_range_step_calculation')
    problems = []
    trees = sib_trees(rng, builder, P.binop_class_table(ctx.index), problems)
    for tag in ('neg', 'pos'):
        a, b = trees[('compile', tag)], trees[('run', tag)]
        key = 'Optimize.IterationTransform._build_range_step_calculation:%s-step' % ('negative' if tag == 'neg' else 'positive')
        r.inst(key, sample='%s step: compile-time %s | run-time %s' % (tag, P.show(a), P.show(b)))
        if P.canon(a) != P.canon(b):
            r.violate(key, transform.module.rel, builder.lineno,
                      'for a %s step the constant-folded first index of reversed(range(...)) is %s but the node tree evaluated at run time computes %s: '
                      'the loop starts at a different index when the bounds are not compile-time constants' % ('negative' if tag == 'neg' else 'positive', P.show(a), P.show(b)))
    for p in sorted(set(problems)):
        r.violate('Optimize.IterationTransform._build_range_step_calculation:class/%s' % re.sub(r'\W+', '_', p[:30]), transform.module.rel, builder.lineno,
                  '_build_range_step_calculation: ' + p)
    pa = P.py_formula(ast.parse('a + s * ((b - a - 1) // s) + 1', mode='eval').body, {}, lambda e: ('sym', e.id) if isinstance(e, ast.Name) else None)
    pb = P.py_formula(ast.parse('a + ((b - a - 2) // s) * s + 1', mode='eval').body, {}, lambda e: ('sym', e.id) if isinstance(e, ast.Name) else None)
    pc = P.py_formula(ast.parse('a + ((b - a - 1) // s) * s + 1', mode='eval').body, {}, lambda e: ('sym', e.id) if isinstance(e, ast.Name) else None)
    r.positive_control(P.canon(pa) != P.canon(pb) and P.canon(pa) == P.canon(pc), 'formula differing in one constant (and equal modulo commutativity)')
    return r


# ------------------------------------------------------------------------------------------------------------ PIN
def rule_PIN(ctx):
    ix = ctx.index
    r = Rule('C14-PIN', 'arithmetic nodes with late-bound directive semantics (cdivision) that a transform synthesises with a literal operator pin the attribute', floor=2)
    late = P.late_bound_directive_attrs(ix)
    if 'DivNode' not in late:
        raise AnalysisError('no late-bound directive attribute found on ExprNodes.DivNode (model: `if self.cdivision is None: self.cdivision = ...directives[...]`)')
    binops = P.binop_class_table(ix)
    sites, cone = P.synthesised_sites(ix, late, binops)
    for m, qn, fn, call, cname, op in sites:
        if op is None:
            continue            # operator copied from an existing node: the user's operation, not a synthesised one
        attrs = cone[cname]
        pinned = P.pinned_attrs(fn, call)
        key = '%s.%s:%s(%s)' % (m.short, qn, cname, op)
        r.inst(key, sample='%s builds %s %r pinning %s' % (m.short + '.' + qn, cname, op, sorted(pinned & set(attrs)) or 'nothing'))
        for a, d in sorted(attrs.items()):
            if a not in pinned and '**' not in pinned:
                r.violate(key, m.rel, call.lineno,
                          '%s synthesises a %s (%r) without fixing `%s`: the node then takes the user\'s `%s` directive, so arithmetic the user never wrote changes meaning '
                          '(with cdivision=True the floor division of the reversed-range start index truncates: reversed(range(-7, -7, 3)) yields [-7])' % (qn, cname, op, a, d))
    pcm = ast.parse("def f(self, pos, a, b):\n    return ExprNodes.DivNode(pos, operand1=a, operator='//', operand2=b)\n").body[0]
    pcc = [n for n in ast.walk(pcm) if isinstance(n, ast.Call)][0]
    r.positive_control('cdivision' not in P.pinned_attrs(pcm, pcc), 'DivNode without cdivision=')
    return r


# ------------------------------------------------------------------------------------------------------------ REV
def rule_REV(ctx, transform):
    r = Rule('C14-REV', 'IterationTransform: forward-only rewriting methods are reached only where `reversed` is false; the others receive the caller\'s `reversed`; accepted `reversed` parameters are read', floor=19)
    for mname, callee, kind, line, ok, text in P.reversed_discipline(ctx.index, transform):
        key = 'Optimize.%s.%s:%s' % (transform.name, mname, callee or 'reads-reversed')
        r.inst(key, sample='%s -> %s (%s)' % (mname, callee, kind))
        if not ok:
            r.violate(key, transform.module.rel, line, text)
    pc = ast.parse("class T:\n    def _optimise(self, node, it, reversed=False):\n        if it.is_set:\n            return self._transform_set(node, it)\n        return node\n"
                   "    def _transform_set(self, node, it):\n        return node\n")

    class _FakeIx:
        def mro(self, c):
            return [c]

    class _FakeCls:
        methods = {f.name: f for f in pc.body[0].body}
    res = P.reversed_discipline(_FakeIx(), _FakeCls())
    r.positive_control(any(not ok for _, callee, kind, _, ok, _ in res if kind == 'guarded'), 'forward-only transform reachable with reversed=True')
    return r


# ------------------------------------------------------------------------------------------------------------ run

def _let_exempt():
    from . import C20
    return {('C14-LET', c): why for (rid, c), why in C20.EXEMPT.items() if rid == 'LET-ORDER'}


EXEMPT.update(_let_exempt())


def run(ctx):
    ix = ctx.index
    transform = _cls(ix, 'Optimize', 'IterationTransform')
    next_classes = [_cls(ix, 'Nodes', 'DictIterationNextNode'), _cls(ix, 'Nodes', 'SetIterationNextNode')]
    forfrom = _cls(ix, 'Nodes', 'ForFromStatNode')
    sections = P.iteration_sections(ctx, next_classes)
    # sections loaded by the transform itself (dict_iter_legacy, set_iter, unicode_iter, ...)
    for fn in transform.methods.values():
        for n in walk_no_nested(fn):
            if isinstance(n, ast.Call) and isinstance(n.func, ast.Attribute) and n.func.attr == 'load_cached' and len(n.args) == 2:
                b = tables.literal(n.args[1])
                for a in sorted(iface.const_strs(n.args[0], iface.local_env(fn)) or ()):
                    if isinstance(b, str) and ctx.cat.has_section(b, a):
                        for f2, n2 in ctx.cat.closure(b, a):
                            if f2 == b and (f2, n2) not in sections:
                                sections.append((f2, n2))
    funcs = P.section_functions(ctx, sections)
    if len(funcs) < 5:
        raise AnalysisError('only %d C functions found in the iteration helper sections %s' % (len(funcs), sections))
    helper_names = {d.name for d in funcs}
    loops = loop_classes(ix)
    rules = [
        P.rule_S2(ctx, funcs),
        rule_RET(ctx, next_classes, funcs),
        iface.rule_I5(ctx, modules=tuple(sorted({c.module.short for c in next_classes})), floor=2, names=lambda n: n in helper_names, rid='C14-I5'),
        rule_I3_iter(ctx, transform),
        rule_G3_loops(ctx, loops),
        rule_LOOP(ctx, loops),
        rule_REL(ctx, transform, forfrom),
        rule_SIB(ctx, transform),
        rule_PIN(ctx),
        rule_REV(ctx, transform),
    ]
    from ..rules import pC20
    rules.append(pC20.rule_let_order(ctx, select=lambda qn: qn.startswith('IterationTransform.'), rid='C14-LET', floor=4))
    from ..rules import sC14, sC21
    rules.append(sC14.rule_header(ctx))
    rules.append(sC21.rule_loopvar(ctx, rid='C14-LOOPVAR'))
    rules.append(sC14.rule_tree(ctx, 'main', floor=60))
    rules.append(sC14.rule_cursor(ctx, funcs))
    rules.append(sC14.rule_len(ctx, funcs))
    rules.append(sC14.rule_kv(ctx, funcs))
    rules.append(sC14.rule_iter(ctx))
    rules.append(sC14.rule_tree(ctx, 'revstep', floor=3))     # armed after the repair 852bb60fe (steps other than +-1 are a compile error now, 3 decided scenarios)
    # (FINDING_5 of session s4-G5): sC14.rule_tree(ctx, 'revstep') -> C14-TREE-REVSTEP reports Optimize.IterationTransform:carray:reversed:step on the
    #   unmodified tree: `for x in reversed(c_array[0:9:3])` (and every other reversed stepped C array slice, also step 1 / -1) runs zero iterations.
    return rules
