"""Thorough tier, second half: liveness of the rules of one property.

After the property was decided on the tree under test, every *recorded* breaking change of that property — the executable mutation corpus of
tools/selftest.py, the independently seeded defects under seeded/, the brainstormed mutants under mutants/<id>/ and the reverted `fix:` commits under regress/ that this property's check is recorded to catch — is applied to a scratch
copy of the analysed sources (under a fresh temporary directory, removed afterwards) and the same rules are run on the copy.  A change is
`killed` when the run reports a finding the unmodified tree does not have, `stale` when its anchor text / patch no longer applies to this tree, and
`survived` otherwise.  The result goes into the evidence file (coverage.selfcheck) and one SELFCHECK line; it never changes the verdict about
the tree under test (a survivor means the *checker* lost a rule instance, which the floors are there to catch as well)."""
import importlib.util, json, os, shutil, subprocess, tempfile

from .core import Ctx, VERIF, AnalysisError, load_known
from . import exemptions

SOURCE_DIRS = ('Cython', 'pyximport', 'docs/src/userguide')
SKIP_EXT = ('.so', '.pyc', '.o')


def _copy_sources(repo, dst):
    for d in SOURCE_DIRS:
        src = os.path.join(repo, d)
        if os.path.isdir(src):
            shutil.copytree(src, os.path.join(dst, d), ignore=lambda p, names: [n for n in names if n.endswith(SKIP_EXT) or n == '__pycache__'])


def _corpus():
    p = os.path.join(VERIF, 'tools', 'selftest.py')
    spec = importlib.util.spec_from_file_location('_verif_selftest', p)
    m = importlib.util.module_from_spec(spec)
    spec.loader.exec_module(m)
    return m.CORPUS


def mutants_for(pid):
    out = []
    try:
        for prop, kind, rel, old, new, rule in _corpus():
            if prop == pid and kind == 'break':
                out.append(('edit', '%s: %s' % (rel.rsplit('/', 1)[1], ' '.join(old.split())[:50]), (rel, old, new), rule))
    except Exception as e:      # the corpus file is optional for a check run
        out.append(('note', 'selftest corpus not loadable: %s' % e, None, ''))
    sd = os.path.join(VERIF, 'seeded')
    for sid in sorted(os.listdir(sd)) if os.path.isdir(sd) else []:
        mp = os.path.join(sd, sid, 'meta.json')
        if not os.path.exists(mp):
            continue
        try:
            meta = json.load(open(mp))
        except ValueError:
            continue
        if pid in (meta.get('caught_by') or {}):
            patch = os.path.join(sd, sid, 'patch_ported.diff')
            if not os.path.exists(patch):
                patch = os.path.join(sd, sid, 'patch.diff')
            out.append(('patch', 'seed %s' % sid, patch, ''))
    md = os.path.join(VERIF, 'mutants', pid)
    for name in sorted(os.listdir(md)) if os.path.isdir(md) else []:
        mp = os.path.join(md, name, 'meta.json')
        if not os.path.exists(mp):
            continue
        try:
            meta = json.load(open(mp))
        except ValueError:
            continue
        if meta.get('breaking') and pid in (meta.get('caught_by') or {}):
            out.append(('patch', 'mutant %s' % name, os.path.join(md, name, 'patch.diff'), ''))
    rd = os.path.join(VERIF, 'regress')
    for sha in sorted(os.listdir(rd)) if os.path.isdir(rd) else []:
        mp = os.path.join(rd, sha, 'meta.json')
        if not os.path.exists(mp):
            continue
        try:
            meta = json.load(open(mp))
        except ValueError:
            continue
        if pid in (meta.get('caught_by') or {}):
            out.append(('patch', 'revert of fix %s' % sha, os.path.join(rd, sha, 'patch.diff'), ''))
    return out


def _finding_keys(pid, mod, repo):
    ctx = Ctx(repo=repo, tier='quick', seed=0)
    rules = mod.run(ctx)
    known = load_known()
    ex = dict(exemptions.EXEMPT)
    ex.update(getattr(mod, 'EXEMPT', {}))
    keys = set()
    for r in rules:
        if r.instances < r.floor:
            keys.add('%s:<floor>' % r.id)
        for f in r.findings:
            if (f.rule, f.construct) in ex or (pid, f.key) in known:
                continue
            keys.add(f.key)
    return keys


def _one(args):
    """Worker: apply one recorded change to a private scratch copy and run the property's rules on it."""
    pid, kind, label, payload, rule, repo, baseline_keys, tmp, n = args
    import importlib
    mod = importlib.import_module('sa.props.' + pid)
    scratch = os.path.join(tmp, 'm%d' % n)
    os.makedirs(scratch)
    outcome, new_keys = None, []
    try:
        _copy_sources(repo, scratch)
        if kind == 'edit':
            rel, old, new = payload
            p = os.path.join(scratch, rel)
            try:
                s = open(p, encoding='utf-8').read()
            except OSError:
                s = None
            if s is None or s.count(old) != 1:
                outcome = 'stale'
            else:
                open(p, 'w', encoding='utf-8').write(s.replace(old, new))
        else:
            pr = subprocess.run(['patch', '-p1', '--no-backup-if-mismatch', '-F3', '-s', '-i', payload], cwd=scratch,
                                stdout=subprocess.PIPE, stderr=subprocess.STDOUT, text=True)
            if pr.returncode != 0:
                outcome = 'stale'
        if outcome is None:
            try:
                keys = _finding_keys(pid, mod, scratch)
                new_keys = sorted(keys - set(baseline_keys))
                outcome = 'killed' if new_keys else 'survived'
            except AnalysisError as e:
                new_keys = ['<analysis-error: %s>' % str(e)[:120]]
                outcome = 'refused'
            except Exception as e:       # a crash of the checker on the mutated copy is a refusal, not a report
                new_keys = ['<checker error: %s: %s>' % (type(e).__name__, str(e)[:100])]
                outcome = 'refused'
    finally:
        shutil.rmtree(scratch, ignore_errors=True)
    return {'mutant': label, 'expected_rule': rule, 'outcome': outcome, 'first_new_finding': new_keys[0] if new_keys else None}


def run(pid, mod, repo, baseline_keys, jobs=None):
    res = {'mutants': 0, 'killed': 0, 'stale': 0, 'survived': [], 'details': []}
    muts = mutants_for(pid)
    if not muts:
        return res
    tmp = tempfile.mkdtemp(prefix='verif_selfcheck_%s_' % pid)
    try:
        work = []
        for kind, label, payload, rule in muts:
            if kind == 'note':
                res['details'].append({'mutant': label, 'outcome': 'note'})
                continue
            res['mutants'] += 1
            work.append((pid, kind, label, payload, rule, repo, sorted(baseline_keys), tmp, res['mutants']))
        jobs = jobs or int(os.environ.get('VERIF_JOBS', '0') or 0) or min(16, os.cpu_count() or 1)
        if jobs > 1 and len(work) > 1:
            import concurrent.futures as cf
            import multiprocessing as mp
            with cf.ProcessPoolExecutor(max_workers=min(jobs, len(work)), mp_context=mp.get_context('fork')) as ex:
                results = list(ex.map(_one, work))
        else:
            results = [_one(w) for w in work]
        for d in results:
            if d['outcome'] == 'killed':
                res['killed'] += 1
            elif d['outcome'] == 'stale':
                res['stale'] += 1
            else:
                res['survived'].append(d['mutant'] + ('' if d['outcome'] == 'survived' else ' (%s)' % d['outcome']))
            res['details'].append(d)
    finally:
        shutil.rmtree(tmp, ignore_errors=True)
    return res
