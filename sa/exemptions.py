"""One-symbol-wide exemptions: (rule id, construct key) -> reason.

Each entry names one construct on the unchanged tree that matches an exact rule although no
property is violated (DESIGN.md section 7).  Anything else matching the rule is still reported.
"""
_T1 = 'deliberately not a tree child: the owning class drives this attribute through the phases itself; '
EXEMPT = {
    ('V1', 'Dataclass.RemoveAssignmentsToNames.visit_CClassNode'):
        'no CClassNode class exists; class statements are rejected inside cdef class bodies by the parser and the generic handler does the same job',
    ('V1', 'Dataclass.RemoveAssignmentsToNames.visit_PyClassNode'):
        'no PyClassNode class exists; same as visit_CClassNode',
    ('T1', 'Nodes.PyArgDeclNode.entry'): _T1 + 'entry is a symbol-table Entry, not a node',
    ('T1', 'Nodes.ParallelStatNode.chunksize'): _T1 + 'chunksize is a child of the ParallelRangeNode subclass (its child_attrs adds it); the base class only touches it when set',
    ('T1', 'MatchCaseNodes.MatchNode.subject_clonenode'): _T1 + 'clone of the listed child `subject`',
    ('T1', 'Nodes.ForFromStatNode.py_loopvar_node'): _T1 + 'synthesised in analyse_expressions after all tree transforms that need it',
    ('T1', 'Nodes.CClassDefNode.type_init_args'): _T1 + 'synthesised tuple for metaclass call, created and consumed inside the class',
    ('T1', 'Nodes.CFuncDefNode.py_func'): _T1 + 'cpdef wrapper reached through the listed child py_func_stat',
    ('T1', 'Nodes.DefNode.py_wrapper'): _T1 + 'DefNodeWrapper is generated late and handled explicitly by DefNode',
    ('T1', 'Nodes.GeneratorDefNode.code_object'): _T1 + 'code object node shared with the function node, generated explicitly',
    ('T1', 'Nodes.GeneratorBodyDefNode.code_object'): _T1 + 'code object node shared with the generator def node',
    ('T1', 'Nodes.CppClassNode.body'): _T1 + 'CppClassNode wraps attributes into a body StatListNode at analyse time; transforms see `attributes`',
    ('T1', 'FusedNode.FusedCFuncDefNode.defaults_tuple'): _T1 + 'synthesised during analyse_expressions',
    ('T1', 'FusedNode.FusedCFuncDefNode.py_func'): _T1 + 'fused dispatcher function, reached through the listed child `stats`',
    ('T1', 'MatchCaseNodes.OrPatternNode.sequence_mapping_temp'): _T1 + 'temp node owned by the pattern',
    ('T1', 'MatchCaseNodes.OrPatternNode.which_alternative_temp'): _T1 + 'temp node owned by the pattern',
    ('T1', 'ExprNodes.PyCFunctionNode.code_object'): _T1 + 'code object node shared with the def node',
    ('T1', 'ExprNodes.DefaultLiteralArgNode.arg'): _T1 + 'wrapper evaluates an already analysed literal exactly once',
    ('T1', 'ExprNodes.TypeofNode.operand'): _T1 + 'typeof() never evaluates its operand; only its type is analysed',
    ('T1', 'ExprNodes.PyMethodCallNode.function_obj'): _T1 + 'alias of function.obj created during code generation',
    ('T1', 'UtilNodes.ResultRefNode.expression'): _T1 + 'ResultRefNode refers to an expression owned by the enclosing LetNode/EvalWithTempExprNode',
    ('V1h', 'Optimize.OptimizeBuiltinCalls._handle_simple_method_float___div__'):
        "'__div__' is the name the dispatcher uses for '/' without `from __future__ import division` (language_level 2); not a Python 3 method name but reachable",
    ('I4', 'Builtin:__Pyx_PyObject_Append:__Pyx_PyObject_Append(OO)->O:ret'):
        'legacy namespace entry for the internal name; not reachable from Python source except by spelling the internal helper name; the real list.append optimisation uses PyObject_Append_func_type (int return)',
}

_G1L = 'literal default value: a literal generates no code and owns nothing, so no disposal is needed; '
_G1R = 'reference to a value owned by the enclosing loop construct (ResultRefNode / temp handed in by the transform), disposed by its owner; '
EXEMPT.update({
    ('G1', 'Nodes.CArgDeclNode.calculate_default_value_code:self.default:class-D'): _G1L + 'guarded by `self.default.is_literal`',
    ('G1', 'Nodes.CArgDeclNode.calculate_default_value_code:self.default:class-F'): _G1L + 'guarded by `self.default.is_literal`',
    ('G1', 'ExprNodes.DefaultLiteralArgNode.generate_evaluation_code:self.arg:class-D'): _G1L + 'DefaultLiteralArgNode wraps literals only',
    ('G1', 'ExprNodes.DefaultLiteralArgNode.generate_evaluation_code:self.arg:class-F'): _G1L + 'DefaultLiteralArgNode wraps literals only',
    ('G1', 'Nodes.DictIterationNextNode.generate_execution_code:self.dict_obj:class-D'): _G1R + 'dict_obj is the dict temp of the surrounding optimised loop',
    ('G1', 'Nodes.DictIterationNextNode.generate_execution_code:self.dict_obj:class-F'): _G1R + 'dict_obj is the dict temp of the surrounding optimised loop',
    ('G1', 'Nodes.SetIterationNextNode.generate_execution_code:self.set_obj:class-D'): _G1R + 'set_obj is the set temp of the surrounding optimised loop',
    ('G1', 'Nodes.SetIterationNextNode.generate_execution_code:self.set_obj:class-F'): _G1R + 'set_obj is the set temp of the surrounding optimised loop',
    ('G1', 'Nodes.ReturnStatNode.generate_execution_code:value:DF'):
        'value is disposed with generate_post_assignment_code + free_temps under `if value:` after the branches that move it into the return variable; the early `return` is the error-already-reported path',
    ('G1', 'ExprNodes.PyMethodCallNode.generate_evaluate_function:self.function:DF'):
        'split protocol: when the function result stays in its temp, disposal is done by generate_dispose_function() under the same condition (result_in_temp() or nonlocally_immutable())',
    ('G1', 'ExprNodes.BoolBinopResultNode.generate_bool_evaluation_code:self.arg:D'):
        'disposal happens under the complementary conditions `uses_temp and (and_label and or_label)` / `not uses_temp or not (and_label and or_label)`: exactly once on every path',
    ('G1', 'UtilNodes.LetNodeMixin.setup_temp_expr:self.temp_expression:DF'):
        'split protocol: when the expression result is in a temp it is disposed in teardown_temp_expr() under the saved flag self._result_in_temp',
    ('G1', 'FusedNode.FusedCFuncDefNode.generate_execution_code:self.defaults_tuple:DF'):
        'defaults_tuple is evaluated and later disposed under the same `if self.py_func:` condition around the super() call',
    ('G5', 'Nodes.FuncDefNode.generate_function_definitions:put_ensure_gil'):
        'the function emits GIL acquire/release into separate C regions (body, error cleanup, return cleanup) under flags tracked in local state (gil_owned dict); not one syntactic bracket',
})
