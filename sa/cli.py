"""./check <Cxx>|all [--tier quick|thorough] [--repo DIR] [--replay FILE] [--no-evidence]

exit 0  every rule instance held (KNOWN-FINDING lines for listed findings)
exit 1  VIOLATION property=<id> replay=<path> for each unlisted violation
exit 2  ANALYSIS-ERROR (checker broken / anchors moved / floor not reached)
"""
import argparse, importlib, json, os, sys, time, traceback

from .core import Ctx, AnalysisError, load_known, VERIF
from . import exemptions


def load_prop(pid):
    try:
        return importlib.import_module('sa.props.' + pid)
    except ModuleNotFoundError as e:
        if e.name == 'sa.props.' + pid:
            raise AnalysisError('no check is built for property %s' % pid)
        raise


def run_property(pid, args):
    t0 = time.time()
    ctx = Ctx(repo=args.repo, tier=args.tier, seed=int(os.environ.get('VERIF_SEED', '0') or 0))
    mod = load_prop(pid)
    rules = mod.run(ctx)
    known = load_known()
    ex = dict(exemptions.EXEMPT)
    ex.update(getattr(mod, 'EXEMPT', {}))     # property-local exemptions: (rule id, construct) -> reason
    violations, knowns, exempted = [], [], []
    for r in rules:
        if r.instances < r.floor:
            raise AnalysisError('rule %s matched %d instances, below its floor %d — anchors moved or the '
                                'extractor is broken' % (r.id, r.instances, r.floor))
        for f in r.findings:
            if (f.rule, f.construct) in ex:
                exempted.append(f)
            elif (pid, f.key) in known:
                knowns.append(f)
            else:
                violations.append(f)
    selfcheck = None
    if args.tier == 'thorough' and not args.no_selfcheck:
        # liveness of this property's rules: recorded breaking changes applied to scratch copies must still be reported
        from . import selfcheck as _sc
        base_keys = {f.key for f in violations}
        for r in rules:
            if r.instances < r.floor:
                base_keys.add('%s:<floor>' % r.id)
        selfcheck = _sc.run(pid, mod, ctx.repo, base_keys)
    wall = time.time() - t0
    evdir = os.path.join(VERIF, 'evidence')
    os.makedirs(os.path.join(evdir, 'replay'), exist_ok=True)
    out = []
    for f in knowns:
        out.append('KNOWN-FINDING: property=%s %s [%s at %s:%s] %s' % (pid, known[(pid, f.key)], f.key, f.file, f.line, f.msg))
    # replay files only for the real repo run or when asked
    for i, f in enumerate(violations):
        rp = os.path.join(evdir, 'replay', '%s-%d.json' % (pid, i)) if not args.no_evidence else \
            os.path.join(args.scratch or '/tmp', 'replay-%s-%d-%d.json' % (pid, os.getpid(), i))
        with open(rp, 'w') as fh:
            json.dump(dict(property=pid, repo=ctx.repo, **f.as_dict()), fh, indent=1)
        out.append('VIOLATION property=%s replay=%s' % (pid, rp))
        out.append('  %r' % f)
    if not args.no_evidence:
        # stale replay files of earlier runs
        for fn in os.listdir(os.path.join(evdir, 'replay')):
            if fn.startswith(pid + '-'):
                try:
                    k = int(fn[len(pid) + 1:-5])
                except ValueError:
                    continue
                if k >= len(violations):
                    os.unlink(os.path.join(evdir, 'replay', fn))
        write_evidence(pid, mod, ctx, rules, violations, knowns, exempted, wall, evdir, selfcheck)
    if selfcheck is not None:
        out.append('SELFCHECK property=%s recorded breaking changes: %d applied, %d reported, %d stale on this tree%s' % (
            pid, selfcheck['mutants'] - selfcheck['stale'], selfcheck['killed'], selfcheck['stale'],
            (', NOT reported: ' + '; '.join(selfcheck['survived'])) if selfcheck['survived'] else ''))
    if not args.quiet:
        for r in rules:
            print('  rule %-10s instances=%-5d floor=%-5d nontrivial=%-5d violations=%d  %s' % (
                r.id, r.instances, r.floor, len(r.nontrivial), len(r.findings), r.desc[:90]))
            for m in r.infos[:5]:
                print('      info: ' + m)
    for line in out:
        print(line)
    print('%s %s: %d rules, %d instances, %d violations, %d known, %d exempted, %.2fs' % (
        pid, 'FAIL' if violations else 'ok', len(rules), sum(r.instances for r in rules),
        len(violations), len(knowns), len(exempted), wall))
    return 1 if violations else 0


def write_evidence(pid, mod, ctx, rules, violations, knowns, exempted, wall, evdir, selfcheck=None):
    samples = []
    for r in rules:
        for s in r.samples[:3]:
            samples.append({'rule': r.id, 'instance': s})
    nontrivial = sum(len(r.nontrivial) for r in rules)
    evaluations = sum(r.instances for r in rules)
    cov = {
        'explanation': 'Static analysis of the source under %s (nothing is imported or executed). DECIDES: %s '
                       'NOT DECIDED: %s' % (ctx.repo, ' '.join(mod.DECIDES.split()), ' '.join(mod.NOT_DECIDED.split())),
        'evaluations': evaluations,
        'distinct_nontrivial': nontrivial,
        'rule': 'evaluations = rule instances (call sites, classes, table rows, paths) extracted from the '
                'current source and evaluated; an instance is non-trivial when it carries a non-vacuous '
                'obligation (distinct by construct key). Per-rule details under "rules".',
        'samples': samples or ['(none)'],
        'obligations': evaluations,
        'discharged': evaluations - len(violations) - len(knowns),
        'rules': [dict(id=r.id, desc=r.desc, instances=r.instances, floor=r.floor,
                       nontrivial=len(r.nontrivial), violations=len(r.findings),
                       positive_control=r.selfcheck, infos=r.infos[:10]) for r in rules],
        'known_findings': [f.as_dict() for f in knowns],
        'exempted': [dict(f.as_dict(), reason=exemptions.EXEMPT.get((f.rule, f.construct)) or getattr(mod, 'EXEMPT', {}).get((f.rule, f.construct))) for f in exempted],
        'violations': [f.as_dict() for f in violations],
        'source_digest': ctx.digest(),
        'files_consulted': sorted(ctx.consulted),
        'exhaustive': True,
    }
    if selfcheck is not None:
        cov['selfcheck'] = selfcheck
        cov['explanation'] += (' THOROUGH TIER additionally applied %d recorded breaking changes of this property (mutation corpus + independently seeded '
                               'defects) to scratch copies of the analysed sources and re-ran the rules: %d reported, %d stale on this tree, %d not reported.' % (
                                   selfcheck['mutants'], selfcheck['killed'], selfcheck['stale'], len(selfcheck['survived'])))
    ev = {
        'property_id': pid, 'tier': ctx.tier, 'seed': ctx.seed, 'level': 'other',
        'coverage': cov,
        'assumptions': list(getattr(mod, 'ASSUMPTIONS', [])) + [
            'CPython 3.12 ast module parses the repository sources faithfully',
            'nominal (by-name) resolution of classes/methods is exact for this code base because the program '
            'itself dispatches by name'],
        'wall_s': round(wall, 3),
        'violations': len(violations),
    }
    with open(os.path.join(evdir, pid + '.json'), 'w') as fh:
        json.dump(ev, fh, indent=1, default=str)


def main(argv=None):
    ap = argparse.ArgumentParser()
    ap.add_argument('prop')
    ap.add_argument('--tier', default=os.environ.get('VERIF_TIER', 'quick'), choices=['quick', 'thorough'])
    ap.add_argument('--repo', default=os.environ.get('VERIF_REPO', '/repo'))
    ap.add_argument('--replay')
    ap.add_argument('--no-evidence', action='store_true')
    ap.add_argument('--scratch')
    ap.add_argument('--quiet', action='store_true')
    ap.add_argument('--no-selfcheck', action='store_true', help='thorough tier without the mutation liveness pass')
    args = ap.parse_args(argv)
    if args.replay:
        d = json.load(open(args.replay))
        args.prop = d['property']
        args.no_evidence = True
        print('replaying %s %s (%s:%s): re-evaluating the property on %s' % (d['rule'], d['construct'], d['file'], d['line'], args.repo))
    pids = [args.prop]
    if args.prop == 'all':
        pids = sorted(f[:-3] for f in os.listdir(os.path.join(VERIF, 'sa', 'props')) if f.startswith('C') and f.endswith('.py'))
    rc = 0
    for pid in pids:
        try:
            rc = max(rc, run_property(pid, args))
        except AnalysisError as e:
            print('ANALYSIS-ERROR property=%s %s' % (pid, e))
            rc = max(rc, 2)
        except Exception:
            print('ANALYSIS-ERROR property=%s internal error in the checker:' % pid)
            traceback.print_exc(file=sys.stdout)
            rc = max(rc, 2)
    return rc


if __name__ == '__main__':
    sys.exit(main())
