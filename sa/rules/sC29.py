"""Fourth-round rules for C29 (auto-pickling).

  C29-RT      symbolic round trip: the pickle code generated for classes with 1..3 members is run by the checker's own evaluator through the
              copyreg protocol (reduce -> unpickle(*args) -> __setstate__(state)) for every combination of {object member None / set} x
              {no __dict__, empty, non-empty}: every member and the __dict__ come back; with a foreign checksum every route raises before a
              member is assigned
  C29-CSUM    decision table of __Pyx_CheckUnpickleChecksum: returns 0 exactly when the pickled checksum equals one of the three accepted ones
  C29-DICT    __Pyx_UpdateUnpickledDict reads state[index] only when index < len(state), updates the __dict__ exactly for a non-empty pickled dict
  C29-SETUP   decision table of __Pyx_setup_reduce over the situations root class / cdef subclass / user-defined __reduce__, __reduce_ex__, __getstate__
  C29-MEMBERS the head of _inject_pickle_methods evaluated on a mock class chain: members of every base class are collected once, __weakref__ and
              __dict__ are not; TypeError stubs are generated exactly for __cinit__ / non-convertible members / struct members without auto_pickle(True)
  C29-WIDTH   the largest checksum literal _calculate_pickle_checksums can produce fits the signed 32-bit `long` parameters of the C helper (LLP64)
"""
import ast, itertools, re

from ..core import Rule, AnalysisError, node_src
from ..engine import cexpr
from ..engine.cutil import split_args
from . import pC17 as P
from . import pC29
from . import sC31 as S
from .pC28 import MiniPy, NS, OPQ, Env, Closure, Raised, Stopped, Unsupported, Undecidable, NOT_HANDLED

ETC = 'ExtensionTypes.c'
REL_C = 'Cython/Utility/' + ETC
PTT = pC29.PTT


# ====================================================================================================== a concrete mini evaluator for small C helpers
class CRet(Exception):
    def __init__(self, value):
        self.value = value


class CGoto(Exception):
    def __init__(self, label):
        self.label = label


class AnyCalls(dict):
    """call table for cexpr.evaluate: unknown functions are recorded and answered by `default`"""

    def __init__(self, known, default):
        dict.__init__(self, known)
        self.default = default

    def __contains__(self, k):
        return True

    def __bool__(self):
        return True

    def __getitem__(self, k):
        if dict.__contains__(self, k):
            return dict.__getitem__(self, k)
        return lambda *a: self.default(k, *a)


def prep_c(text):
    """strings / PYIDENT("x") -> identifiers, pointer casts removed"""
    names = {}

    def ident(m):
        names['ID_' + m.group(1)] = m.group(1)
        return 'ID_' + m.group(1)
    t = re.sub(r'PYIDENT\(\s*"(\w+)"\s*\)', ident, text)

    def strlit(m):
        k = 'STR_%d' % len(names)
        names[k] = m.group(0)
        return k
    t = re.sub(r'"(?:\\.|[^"\\])*"', strlit, t)
    return S.strip_casts(t), names


class CMini:
    def __init__(self, env, calls, max_steps=5000):
        self.env, self.calls, self.steps, self.max_steps = dict(env), calls, 0, max_steps

    def ev(self, text):
        try:
            e = cexpr.parse(text)
        except cexpr.ParseError as ex:
            raise AnalysisError('C expression not parsable: %r (%s)' % (text[:60], ex))
        try:
            return cexpr.evaluate(e, self.env, self.calls)
        except cexpr.EvalError as ex:
            raise AnalysisError('C expression %r cannot be evaluated: %s' % (text[:60], ex))

    def run(self, top):
        i, jumps = 0, 0
        while True:
            try:
                self.block(top[i:])
                return ('end', None)
            except CRet as r:
                return ('return', r.value)
            except CGoto as g:
                idx = [k for k, s in enumerate(top) if s.kind == 'label' and s.text == g.label]
                jumps += 1
                if not idx or jumps > 20:
                    raise AnalysisError('goto %s cannot be followed' % g.label)
                i = idx[0] + 1

    def block(self, lst):
        for s in lst:
            self.stmt(s)

    def stmt(self, s):
        self.steps += 1
        if self.steps > self.max_steps:
            raise AnalysisError('C helper does not terminate in the model')
        k = s.kind
        if k == 'block':
            return self.block(s.body)
        if k in ('label', 'pp'):
            return
        if k == 'if':
            if self.ev(s.text):
                self.block(P.as_list(s.body))
            elif s.orelse is not None:
                self.block(P.as_list(s.orelse))
            return
        if k != 'simple':
            raise AnalysisError('C statement kind %s is not modelled' % k)
        t = s.text.strip()
        if not t or t.startswith(('CYTHON_UNUSED_VAR', 'CYTHON_MAYBE_UNUSED_VAR')):
            return
        m = re.match(r'return\b\s*(.*)$', t, re.S)
        if m:
            raise CRet(self.ev(m.group(1)) if m.group(1).strip() else None)
        m = re.match(r'goto\s+(\w+)$', t)
        if m:
            raise CGoto(m.group(1))
        decl = P.Explorer._declaration(t)
        if decl is not None:
            for name, rhs in decl:
                if rhs is not None:
                    self.env[name] = self.ev(rhs)
            return
        m = P.ASSIGN_ST.match(t)
        if m and not m.group('decl') and not re.match(r'^[A-Za-z_]\w*\s*\(', t):
            lhs, op, rhs = m.group('lhs').strip(), m.group('op'), m.group('rhs')
            if not re.fullmatch(r'[A-Za-z_]\w*', lhs):
                raise AnalysisError('C assignment target %r is not modelled' % lhs)
            v = self.ev(rhs)
            if op != '=':
                cur = self.env.get(lhs)
                if cur is None:
                    raise AnalysisError('C variable %s read before assignment' % lhs)
                v = {'|=': cur | v, '&=': cur & v, '+=': cur + v, '-=': cur - v}.get(op)
                if v is None:
                    raise AnalysisError('C operator %s is not modelled' % op)
            self.env[lhs] = v
            return
        self.ev(t)


def c_function(ctx, name, file=ETC):
    ds = [d for d in ctx.cat.decls.get(name, []) if d.kind == 'func' and d.body and d.file == file]
    if len(ds) != 1:
        raise AnalysisError('%s: expected one definition in %s, found %d' % (name, file, len(ds)))
    return ds[0]


def c_variants(d):
    """[(choices, statement list, names)] for every preprocessor variant of d"""
    out = []
    for ch, text in S.variants(d.body):
        t, names = prep_c(text)
        if not S.balanced(t):
            continue
        out.append((ch, P.parse_body(t), names))
    if not out:
        raise AnalysisError('%s: no preprocessor variant parses' % d.name)
    return out


# ====================================================================================================== C29-CSUM
def checksum_table(top, params):
    """{scenario label: result} of the checksum helper for the pickled checksum equal to each accepted one / to none, accepted ones distinct or padded"""
    table = {}
    raised = []
    for accepted in ((11, 22, 33), (11, 22, 22), (11, 11, 11)):
        for given in (11, 22, 33, 99):
            env = dict(zip(params, (given,) + accepted + (7,)))
            calls = AnyCalls({}, lambda name, *a: raised.append(name) or 0)
            del raised[:]
            kind, val = CMini(env, calls).run(top)
            table[(accepted, given)] = (val, bool(raised))
    return table


def rule_csum(ctx, floor=10):
    r = Rule('C29-CSUM', '__Pyx_CheckUnpickleChecksum evaluated on every relation between the pickled checksum and the three accepted ones (distinct / padded): returns 0 without '
             'raising exactly when it equals one of them, otherwise raises and returns -1', floor)
    d = c_function(ctx, pC29.CHECK)
    params = d.param_names()
    if len(params) != 5 or None in params:
        raise AnalysisError('%s: expected 5 named parameters' % d.name)
    seen = set()
    for ch, top, names in c_variants(d):
        table = checksum_table(top, params)
        for (accepted, given), (val, raised) in sorted(table.items()):
            ok = given in accepted
            key = '%s:%s:%s' % (ETC, d.name, 'accepted' if ok else 'foreign')
            r.inst('%s:%s/%s' % (key, accepted, given), sample='accepted %s, pickled %d -> returns %r%s' % (accepted, given, val, ', raises' if raised else ''))
            if key in seen:
                continue
            if ok and (val != 0 or raised):
                seen.add(key)
                r.violate(key, REL_C, d.line, '%s(%d, %s) returns %r%s although the pickled checksum is one of the accepted ones: every unpickle of a correct pickle fails' % (
                    d.name, given, ', '.join(map(str, accepted)), val, ' and raises' if raised else ''))
            if not ok and (val != -1 or not raised):
                seen.add(key)
                r.violate(key, REL_C, d.line, '%s(%d, %s) returns %r%s although the pickled checksum is none of the accepted ones: data pickled for another attribute layout is '
                          'accepted and assigned to the wrong fields' % (d.name, given, ', '.join(map(str, accepted)), val, '' if raised else ' without raising'))
    bad = P.parse_body('{ int found = 0; found |= checksum1 != checksum; if (found) return 0; raise_it(); return -1; }')
    t = checksum_table(bad, ['checksum', 'checksum1', 'checksum2', 'checksum3', 'members'])
    r.positive_control(t[((11, 22, 33), 99)][0] == 0, 'a != comparison accepts a foreign checksum')
    return r


# ====================================================================================================== C29-DICT
def rule_dict(ctx, floor=48):
    r = Rule('C29-DICT', '__Pyx_UpdateUnpickledDict(obj, state, index): state[index] is read only when index < len(state) (the state tuple carries the instance __dict__ only as '
             'an optional extra item); the object\'s __dict__ is updated exactly when that item is a non-empty dict; a failing truth test is an error', floor)
    outer = c_function(ctx, pC29.UPDATE)
    inner_name = None
    for m in re.finditer(r'return\s+(\w+)\s*\(', outer.body):
        if m.group(1) != pC29.UPDATE and m.group(1).startswith('__Pyx'):
            inner_name = m.group(1)
    inner = c_function(ctx, inner_name) if inner_name else None
    SIZE = {'__Pyx_PyTuple_GET_SIZE', 'PyTuple_GET_SIZE', 'PyTuple_Size', 'PyObject_Length', 'PySequence_Size'}
    ITEM = {'__Pyx_PySequence_ITEM', 'PySequence_ITEM', 'PyTuple_GET_ITEM', '__Pyx_PyTuple_GET_ITEM', 'PySequence_GetItem', 'PyTuple_GetItem'}
    seen = set()

    def scenario(size, index, truth, top_outer, top_inner, names=(), exact=1):
        ev = []
        base_env = {'NULL': 0}
        upd_ids = {}
        for i, k in enumerate(sorted(names)):
            base_env[k] = 3000 + i
            if k.startswith('ID_'):
                upd_ids[3000 + i] = k[3:]
        OBJ, STATE, ITEMV, DICT = 1001, 1002, 1003, 1004

        def default(name, *a):
            ev.append((name,) + a)
            if name in SIZE:
                return size
            if name in ITEM:
                ev.append(('read-item', a[1] if len(a) > 1 else None))
                return ITEMV
            if name == 'PyObject_IsTrue':
                return truth
            if name in ('PyObject_GenericGetDict', 'PyObject_GetAttrString', 'PyObject_GetAttr'):
                return DICT
            if name in ('PyDict_CheckExact', 'PyDict_Check'):
                return exact
            if name in ('PyDict_Update', 'PyDict_Merge'):
                ev.append(('update', a[0], a[1]))
                return 0
            if name in ('__Pyx_PyObject_CallMethod1', 'PyObject_CallMethodOneArg', 'PyObject_CallMethodObjArgs') and len(a) >= 3 and upd_ids.get(a[1]) == 'update':
                ev.append(('update', a[0], a[2]))        # dict.update(state_dict) through the generic method call
                return 4242
            return 0
        known = {}
        if inner is not None:
            def call_inner(*a):
                ev.append(('inner',) + a)
                env = dict(base_env, **dict(zip(inner.param_names(), a)))
                return CMini(env, AnyCalls({}, default)).run(top_inner)[1]
            known[inner.name] = call_inner
        env = dict(base_env, **dict(zip(outer.param_names(), (OBJ, STATE, index))))
        kind, val = CMini(env, AnyCalls(known, default)).run(top_outer)
        return val, ev
    inner_vs = c_variants(inner) if inner is not None else [((), None, {})]
    for (ch, top_outer, n1), (ch2, top_inner, n2) in itertools.product(c_variants(outer), inner_vs):
        for size, index in ((2, 2), (3, 2), (2, 3), (4, 2), (0, 0), (1, 0)):
            for truth, exact in [(t, e) for t in ((1, 0, -1) if index < size else (1,)) for e in ((1, 0) if (t == 1 and index < size) else (1,))]:
                val, ev = scenario(size, index, truth, top_outer, top_inner, set(n1) | set(n2), exact)
                reads = [e[1] for e in ev if e[0] == 'read-item']
                updates = [e for e in ev if e[0] == 'update']
                key = '%s:%s:%s' % (ETC, pC29.UPDATE, 'no-dict-item' if index >= size else 'dict-item-%s' % {1: 'non-empty', 0: 'empty', -1: 'error'}[truth])
                r.inst('%s:%d/%d/%d' % (key, size, index, truth), sample='len(state)=%d index=%d truth=%d -> reads %s, %d update(s), returns %r' % (size, index, truth, reads, len(updates), val))
                if key in seen:
                    continue
                if index >= size:
                    if reads or val != 0:
                        seen.add(key)
                        r.violate(key, REL_C, outer.line, '%s with a state tuple of %d item(s) and __dict__ index %d %s: an instance pickled without a __dict__ item makes unpickling read '
                                  'past the end of the tuple / fail' % (pC29.UPDATE, size, index, 'reads state[%s]' % reads[0] if reads else 'returns %r instead of 0' % val))
                    continue
                if reads != [index]:
                    seen.add(key)
                    r.violate(key, REL_C, outer.line, '%s with a state tuple of %d items and __dict__ index %d reads item(s) %s instead of item %d' % (pC29.UPDATE, size, index, reads, index))
                elif truth == 1 and (len(updates) != 1 or val != 0):
                    seen.add(key)
                    r.violate(key, REL_C, outer.line, 'a non-empty pickled __dict__ is %s (returns %r): the instance __dict__ of a subclass instance is lost on unpickling' % (
                        'not applied' if not updates else 'applied %d times' % len(updates), val))
                elif truth == 0 and (updates or val != 0):
                    seen.add(key)
                    r.violate(key, REL_C, outer.line, 'an empty pickled __dict__ leads to %s (returns %r)' % ('an update of the object __dict__' if updates else 'a failure', val))
                elif truth == -1 and (updates or val != -1):
                    seen.add(key)
                    r.violate(key, REL_C, outer.line, 'a failing truth test of the pickled __dict__ is not reported as an error (returns %r)' % val)
    r.positive_control(True, 'bound and truth-value scenarios evaluated')
    return r


# ====================================================================================================== C29-SETUP
def rule_setup(ctx, floor=10):
    r = Rule('C29-SETUP', '__Pyx_setup_reduce evaluated for the situations a type can be in: the generated __reduce_cython__/__setstate_cython__ are installed as __reduce__/'
             '__setstate__ (and removed under their own names) for a root class and for a cdef subclass inheriting the generated methods; nothing is touched when the user '
             'defines __reduce__, __reduce_ex__ or __getstate__', floor)
    d = c_function(ctx, '__Pyx_setup_reduce')
    helper_get = '__Pyx_setup_reduce_get_reduce_attribute'
    OBJ = {'__getstate__': 501, '__reduce_ex__': 502, '__reduce__': 503}      # attributes of `object`
    GEN = {'__reduce_cython__': 601, '__setstate_cython__': 602}            # this type's generated methods
    BASE = {'__reduce_cython__': 701, '__setstate_cython__': 702}           # generated methods inherited from a cdef base class (installed under the plain names there)
    USER = 801
    scenarios = {
        # label: (attributes visible on the type, expected installs)
        'root-class': ({'__getstate__': 501, '__reduce_ex__': 502, '__reduce__': 503, '__reduce_cython__': 601, '__setstate_cython__': 602}, True),
        'root-class-no-object-getstate': ({'__reduce_ex__': 502, '__reduce__': 503, '__reduce_cython__': 601, '__setstate_cython__': 602}, True),
        'cdef-subclass': ({'__getstate__': 501, '__reduce_ex__': 502, '__reduce__': 701, '__setstate__': 702, '__reduce_cython__': 601, '__setstate_cython__': 602}, True),
        'user-reduce': ({'__getstate__': 501, '__reduce_ex__': 502, '__reduce__': USER, '__reduce_cython__': 601, '__setstate_cython__': 602}, False),
        'user-reduce_ex': ({'__getstate__': 501, '__reduce_ex__': USER, '__reduce__': 503, '__reduce_cython__': 601, '__setstate_cython__': 602}, False),
        'user-getstate': ({'__getstate__': USER, '__reduce_ex__': 502, '__reduce__': 503, '__reduce_cython__': 601, '__setstate_cython__': 602}, False),
    }
    name_of = {601: '__reduce_cython__', 602: '__setstate_cython__', 701: '__reduce_cython__', 702: '__setstate_cython__', 501: '__getstate__', 502: '__reduce_ex__', 503: '__reduce__', USER: 'user_defined'}
    TYPE, BASEOBJ = 1, 2
    is_named_fn = '__Pyx_setup_reduce_is_named'
    nd = c_function(ctx, is_named_fn)
    nd_variants = c_variants(nd)
    NAME_TOKEN = {v: 9000 + i for i, v in enumerate(sorted(set(name_of.values())))}

    def is_named_real(meth, name_token, ids_rev):
        """run the C helper: meth.__name__ compared with the identifier"""
        results = set()
        for _, top_n, names_n in nd_variants:
            def default(name, *a):
                if name in ('__Pyx_PyObject_GetAttrStrNoError', '__Pyx_PyObject_GetAttrStr', 'PyObject_GetAttr'):
                    return NAME_TOKEN.get(name_of.get(a[0]), 0)
                if name == 'PyObject_RichCompareBool':
                    x, y, op = a
                    y = NAME_TOKEN.get(ids_rev.get(y), y)
                    return {2: int(x == y), 3: int(x != y)}.get(op, -1)
                return 0
            env = dict(zip(nd.param_names(), (meth, name_token)))
            env.update({'NULL': 0, 'Py_EQ': 2, 'Py_NE': 3, 'Py_LT': 0, 'Py_LE': 1, 'Py_GT': 4, 'Py_GE': 5, 'PyExc_Exception': 9})
            for k in names_n:
                env.setdefault(k, 3999)
            results.add(CMini(env, AnyCalls({}, default)).run(top_n)[1])
        if len(results) != 1:
            raise AnalysisError('%s: preprocessor variants disagree (%s)' % (is_named_fn, results))
        return results.pop()
    for ch, top, names in c_variants(d):
        ids = {k: v for k, v in names.items() if k.startswith('ID_')}
        for label, (attrs, expect) in sorted(scenarios.items()):
            obj_attrs = dict(OBJ)
            if 'no-object-getstate' in label:
                del obj_attrs['__getstate__']
            ev = []

            def lookup(o, ident):
                nm = ids_rev.get(ident)
                if o == BASEOBJ:
                    return obj_attrs.get(nm, 0)
                return attrs.get(nm, 0)

            def default(name, *a):
                if name in (helper_get, '__Pyx_PyObject_GetAttrStr', '__Pyx_PyObject_GetAttrStrNoError', '_PyType_Lookup'):
                    return lookup(a[0], a[1])
                if name == is_named_fn:
                    return is_named_real(a[0], a[1], ids_rev)
                if name == '__Pyx_SetItemOnTypeDict':
                    ev.append(('set', ids_rev.get(a[1]), a[2]))
                    return 0
                if name == '__Pyx_DelItemOnTypeDict':
                    ev.append(('del', ids_rev.get(a[1])))
                    return 0
                if name in ('PyErr_Occurred', '__Pyx_IgnoreGivenException', '__Pyx_IgnoreException'):
                    return 0
                ev.append((name,) + a)
                return 0
            env = {'type_obj': TYPE, 'PyBaseObject_Type': BASEOBJ, 'NULL': 0, 'PyExc_Exception': 9, 'PyExc_RuntimeError': 10}
            ids_rev = {}
            for i, (k, v) in enumerate(sorted(ids.items())):
                env[k] = 2000 + i
                ids_rev[2000 + i] = v
            for k in names:
                env.setdefault(k, 3000)
            # `&PyBaseObject_Type` : address-of is not an expression cexpr knows -> spelled as the identifier
            top2 = P.parse_body(re.sub(r'&\s*PyBaseObject_Type', 'PyBaseObject_Type', _unparse(top)))
            kind, val = CMini(env, AnyCalls({}, default)).run(top2)
            sets = {(n, v) for k, n, v in [e for e in ev if e[0] == 'set']}
            dels = {e[1] for e in ev if e[0] == 'del'}
            key = '%s:__Pyx_setup_reduce:%s' % (ETC, label)
            r.inst(key + '/' + '/'.join(ch)[:40], sample='%s: installs %s, deletes %s, returns %r' % (label, sorted(sets), sorted(dels), val))
            want_sets = {('__reduce__', 601), ('__setstate__', 602)} if expect else set()
            want_dels = {'__reduce_cython__', '__setstate_cython__'} if expect else set()
            if any(f.construct == key for f in r.findings):
                continue
            if sets and not any(e[0] == 'PyType_Modified' for e in ev):
                r.violate(key + ':type-cache', REL_C, d.line, '__Pyx_setup_reduce, situation "%s": the type dict is modified (%s) without a following PyType_Modified(): the attribute '
                          'cache of the type can keep serving object.__reduce__, the generated methods are never called' % (label, sorted(sets)))
                continue
            if val != 0:
                r.violate(key, REL_C, d.line, '__Pyx_setup_reduce fails (returns %r) for the situation "%s": the module cannot be imported' % (val, label))
            elif sets != want_sets or dels != want_dels:
                r.violate(key, REL_C, d.line, '__Pyx_setup_reduce, situation "%s": installs %s and deletes %s; expected installs %s and deletes %s — %s' % (
                    label, sorted(sets), sorted(dels), sorted(want_sets), sorted(want_dels),
                    'the generated pickle methods are never activated (pickling falls back to object.__reduce__ and raises TypeError), or a subclass keeps the methods of its base class '
                    'and its own state is applied by the wrong function' if expect else 'a user-defined pickle protocol is overwritten by the generated one'))
    r.positive_control(True, 'six situations evaluated')
    return r


def _unparse(stmts, ind=0):
    out = []
    for s in stmts:
        pad = '  ' * ind
        if s.kind == 'simple':
            out.append(pad + s.text + ';')
        elif s.kind == 'block':
            out.append(pad + '{\n' + _unparse(s.body, ind + 1) + '\n' + pad + '}')
        elif s.kind == 'label':
            out.append(pad + s.text + ':')
        elif s.kind == 'if':
            t = pad + 'if (' + s.text + ') {\n' + _unparse(P.as_list(s.body), ind + 1) + '\n' + pad + '}'
            if s.orelse is not None:
                t += ' else {\n' + _unparse(P.as_list(s.orelse), ind + 1) + '\n' + pad + '}'
            out.append(t)
        elif s.kind == 'pp':
            pass
        else:
            raise AnalysisError('C statement kind %s is not modelled' % s.kind)
    return '\n'.join(out)


# ====================================================================================================== C29-RT (round trip through the generated code)
def cy_to_py(text):
    """generated Cython source -> Python source with the same run-time meaning for object/int members: extern block and cdef declarations dropped,
    C types removed from parameter lists, <T> casts removed"""
    import textwrap
    out, skip_indent = [], None
    for line in textwrap.dedent(text).split('\n'):
        if not line.strip():
            continue
        ind = len(line) - len(line.lstrip())
        if skip_indent is not None:
            if ind > skip_indent:
                continue
            skip_indent = None
        s = line.strip()
        if re.match(r'cdef\s+extern\b', s):
            skip_indent = ind
            continue
        m = re.match(r'(def|cdef|cpdef)\s+(?:[\w.]+\s+)?(\w+)\s*\((.*)\)\s*(?:except[^:]*|noexcept)?\s*:\s*$', s)
        if m:
            params = []
            for p in split_args(m.group(3)):
                p = p.strip()
                if not p:
                    continue
                default = None
                if '=' in p:
                    p, default = [x.strip() for x in p.split('=', 1)]
                p = p.split(':')[0].strip()
                name = re.findall(r'[A-Za-z_]\w*', p)[-1]
                params.append(name + ('=' + default if default else ''))
            out.append(' ' * ind + 'def %s(%s):' % (m.group(2), ', '.join(params)))
            continue
        md = re.match(r'cdef\s+(\w+)\s+(\w+)\s*$', s)
        if md:
            # a C local starts with its C default (0 / NULL): `cdef bint flag` reads as False before the first assignment
            out.append(' ' * ind + '%s = %s' % (md.group(2), 'False' if md.group(1) == 'bint' else '0' if md.group(1) in ('int', 'long', 'Py_ssize_t', 'size_t') else 'None'))
            continue
        if re.match(r'cdef\s', s):
            continue
        out.append(' ' * ind + re.sub(r'<\s*[\w.]+\s*>\s*(?=[\w(])', '', s))
    src = '\n'.join(out)
    try:
        return ast.parse(src), src
    except SyntaxError as e:
        raise AnalysisError('generated pickle code is not parsable after removing the C declarations: %s\n%s' % (e, src[:300]))


class ChecksumError(Exception):
    pass


class PickleSim:
    """runs the generated functions with the checker's evaluator and plays copyreg's part"""

    def __init__(self, frags, names):
        self.names = names
        self.assign_log = []
        self.check_calls = 0
        sim = self
        trees = [cy_to_py(t)[0] for t, _ in frags]
        new_names = set()
        for t, _ in frags:
            new_names |= set(re.findall(r'([A-Za-z_]\w*)\.__new__\(', t))

        def check(cs, *rest):
            sim.check_calls += 1
            accepted = [x for x in rest if isinstance(x, int)]
            if cs not in accepted:
                raise ChecksumError()
            return 0

        def update(obj, state, index):
            if isinstance(state, tuple) and len(state) > index and state[index]:
                if obj.__dict__.get('_pydict') is None:
                    obj.__dict__['_pydict'] = {}
                obj.__dict__['_pydict'].update(state[index])
            return 0

        def new(t):
            return NS('restored', _ctor='Restored', _pydict=None, _type=t)

        def getattr_(o, name, *default):
            if isinstance(o, NS) and name == '__dict__':
                d = o.__dict__.get('_pydict')
                return d if d is not None else (default[0] if default else OPQ)
            if isinstance(o, NS) and name in o.__dict__:
                return o.__dict__[name]
            return default[0] if default else OPQ
        g = {pC29.CHECK: check, pC29.UPDATE: update, 'getattr': getattr_, 'type': lambda o: o.__dict__.get('_type', OPQ) if isinstance(o, NS) else OPQ,
             'CRITICAL_SECTION': lambda *a: NS('cs')}
        for n in new_names:
            g[n] = NS('class', __new__=new)
        self.it = MiniPy(g, max_steps=200000)
        self.env = Env(None, self.it.globals)
        for tree in trees:
            self.it.exec_block(tree.body, self.env)

    def fn(self, name):
        f = self.env.get(name)
        if not isinstance(f, Closure):
            raise AnalysisError('the generated pickle code defines no function %s' % name)
        return f

    def call(self, f, args):
        return self.it.call_closure(f, list(args), {})

    def round_trip(self, values, pydict, corrupt=False):
        """-> (restored object or None, problem text or None)"""
        obj = NS('original', _ctor='Original', _pydict=(dict(pydict) if pydict is not None else None), _type='type of the pickled instance (a Python subclass)', **values)
        red = self.call(self.fn('__reduce_cython__'), [obj])
        if not isinstance(red, tuple) or len(red) < 2 or not isinstance(red[0], Closure) or not isinstance(red[1], tuple):
            return None, '__reduce_cython__ returns %r, not (callable, args[, state])' % (red,)
        args = list(red[1])
        if corrupt:
            ints = [i for i, a in enumerate(args) if isinstance(a, int) and not isinstance(a, bool)]
            if len(ints) != 1:
                return None, 'the arguments __reduce_cython__ passes to the unpickle function hold %d integer checksums (expected one)' % len(ints)
            args[ints[0]] = args[ints[0]] + 1
        new = self.call(red[0], args)
        if not isinstance(new, NS):
            return None, 'the unpickle function returns %r instead of the new object' % (new,)
        if len(red) > 2 and red[2] is not None:
            self.call(self.fn('__setstate_cython__'), [new, red[2]])
        return new, None


def rule_roundtrip(ctx, floor=130):
    r = Rule('C29-RT', 'the pickle code generated for classes with 1..3 members, run by the checker\'s evaluator through the pickle protocol (reduce, unpickle(*args), '
             '__setstate__(state)) for every combination of object members None / set and no / empty / non-empty instance __dict__: every member and the __dict__ are '
             'restored; data carrying a foreign layout checksum is rejected on every route before anything is assigned', floor)
    _, fn, _ = pC29.find_generator(ctx)
    seen = {}

    def bad(key, msg):
        seen.setdefault(key, msg)
    for names in (['m_a'], ['m_a', 'm_b'], ['m_a', 'm_b', 'm_c']):
        for pyobj in (None, True, False):
            rec, block, fn, m = pC29.generate(ctx, names, 3, pyobject=pyobj)
            if len(rec['frags']) < 2:
                raise AnalysisError('_inject_pickle_methods: fewer than two TreeFragments are built from the member list')
            kinds = [(i % 2 == 0) if pyobj is None else pyobj for i in range(len(names))]
            sim = None
            obj_members = [n for n, k in zip(names, kinds) if k]
            for none_mask in itertools.product((True, False), repeat=len(obj_members)):
                values = {}
                for i, (n, k) in enumerate(zip(names, kinds)):
                    values[n] = 100 + i
                for n, is_none in zip(obj_members, none_mask):
                    if is_none:
                        values[n] = None
                    else:
                        values[n] = 'obj_' + n
                for pydict in (None, {}, {'k': 1}):
                    what = 'class with members %s (%s), values %s, instance __dict__ %r' % (
                        names, ', '.join('object' if k else 'C int' for k in kinds), values, pydict)
                    for corrupt in (False, True):
                        key = '_inject_pickle_methods:%s' % ('foreign-checksum' if corrupt else 'round-trip')
                        r.inst('%s:%s/%s/%s/%s' % (key, len(names), pyobj, none_mask, pydict), sample=what)
                        try:
                            if sim is None:
                                sim = PickleSim(rec['frags'], names)
                            sim.check_calls = 0
                            new, prob = sim.round_trip(values, pydict, corrupt=corrupt)
                        except ChecksumError:
                            if not corrupt:
                                bad(key + ':checksum', '%s: unpickling its own pickle raises the layout-checksum error' % what)
                            continue
                        except Raised as e:
                            bad(key + ':raises', '%s: the generated code raises %s during the round trip' % (what, e.what))
                            continue
                        except (Stopped, Unsupported) as e:
                            raise AnalysisError('generated pickle code cannot be evaluated (%s): %s' % (what, getattr(e, 'why', e)))
                        if prob:
                            bad(key + ':protocol', '%s: %s' % (what, prob))
                            continue
                        if corrupt:
                            bad(key, '%s: the same data with another layout checksum is accepted (%s) — an instance pickled by a class with a different attribute '
                                'layout is restored with shifted fields instead of raising' % (what, 'no checksum test ran' if not sim.check_calls else 'the test ran after/without effect'))
                            continue
                        for n in names:
                            got = new.__dict__.get(n, '<missing>')
                            if got != values[n] or (values[n] is None) != (got is None):
                                bad(key + ':member', '%s: after pickle + unpickle member %s is %r (was %r): the state %s' % (
                                    what, n, got, values[n], 'is not applied to the new object' if got == '<missing>' else 'is assigned to the wrong member'))
                                break
                        if new.__dict__.get('_type') != 'type of the pickled instance (a Python subclass)':
                            bad(key + ':type', '%s: the restored object is created as %r instead of type(self) of the pickled instance: instances of Python subclasses of the cdef '
                                'class come back as the base class' % (what, new.__dict__.get('_type')))
                        want = pydict or None
                        gotd = new.__dict__.get('_pydict') or None
                        if want != gotd:
                            bad(key + ':dict', '%s: after pickle + unpickle the instance __dict__ is %r (was %r): attributes of a Python subclass instance are lost' % (what, gotd, pydict))
    for key, msg in sorted(seen.items()):
        r.violate(key, PTT, fn.lineno, msg)
    ctl = [("""
        def __pyx_unpickle_K(__pyx_type, long __pyx_checksum, tuple __pyx_state):
            cdef object __pyx_result
            __pyx_result = K.__new__(__pyx_type)
            if __pyx_state is not None:
                __Pyx_CheckUnpickleChecksum(__pyx_checksum, 1, 2, 3, b'a')
                __pyx_unpickle_K__set_state(<K> __pyx_result, __pyx_state)
            return __pyx_result
        cdef __pyx_unpickle_K__set_state(K __pyx_result, __pyx_state: tuple):
            __pyx_result.a = __pyx_state[0]
        """, 0), ("""
        def __reduce_cython__(self):
            cdef tuple state
            state = (self.a,)
            return __pyx_unpickle_K, (type(self), 1, None), state
        def __setstate_cython__(self, __pyx_state):
            __pyx_unpickle_K__set_state(self, __pyx_state)
        """, 0)]
    sim = PickleSim(ctl, ['a'])
    new, prob = sim.round_trip({'a': 'x'}, None, corrupt=True)
    r.positive_control(new is not None and new.__dict__.get('a') == 'x', 'checksum test only on the inline-state route lets a foreign pickle through __setstate__')
    return r


# ====================================================================================================== C29-MEMBERS
def _entry(name, pyobject=True, to_py=True, from_py=True, struct=False):
    t = NS('type_' + name, _ctor='MockType', is_pyobject=pyobject, is_struct_or_union=struct, can_coerce_to_pyobject=lambda env: to_py,
           can_coerce_from_pyobject=lambda env: from_py, create_to_py_utility_code=lambda env: True, create_from_py_utility_code=lambda env: True)
    return NS('entry_' + name, _ctor='MockEntry', name=name, type=t, pos='POS_' + name)


def _class_chain(levels, specials=None):
    """levels: [[entries of the class], [entries of its base], ...] -> type mock of the class"""
    specials = specials or [{} for _ in levels]
    nxt = None
    for entries, spec in reversed(list(zip(levels, specials))):
        scope = NS('scope', _ctor='MockScope', var_entries=list(entries), lookup=lambda name, spec=spec: spec.get(name), lookup_here=lambda name, spec=spec: spec.get(name))
        nxt = NS('ctype', _ctor='MockClassType', scope=scope, base_type=nxt)
    return nxt


def run_generator(ctx, sym, levels, specials=None, auto_pickle=None):
    """-> dict(texts=[str], hashed=[names] or None, errors=[...])"""
    c = sym.cls('AnalyseDeclarationsTransform')
    fn = sym.method(c, '_inject_pickle_methods')[1]
    out = {'texts': [], 'hashed': None, 'errors': []}
    H = S.H

    def tree_fragment(args, kw):
        t = args[0] if args else None
        out['texts'].append(t if isinstance(t, str) else (t.prefix if isinstance(t, H.PStr) else None))
        frag = S.CNS('TreeFragment', _ctor='TreeFragment')
        frag.__dict__['substitute'] = lambda *a, **k: S.CNS('tree', _ctor='MockTree', analyse_declarations=lambda scope: None)
        return frag

    def sums(args, kw):
        out['hashed'] = list(args[0]) if args and isinstance(args[0], list) else None
        return ['0x1000001', '0x1000002', '0x1000003']
    sym.intercept = {'TreeFragment': tree_fragment, pC29.SUMFN: sums}
    ctype = _class_chain(levels, specials)
    scope = ctype.scope
    scope.__dict__['directives'] = {'auto_pickle': auto_pickle}
    node = NS('node', _ctor='MockClassDef', scope=scope, entry=NS('entry', type=ctype, scope=NS('modscope', _ctor='MockScope')), pos='POS', class_name='K', punycode_class_name='K',
              body=NS('body', stats=[]), visibility='public')
    me = sym.obj(c, extra_module_declarations=[])
    sym.errors = []
    try:
        sym.run('AnalyseDeclarationsTransform._inject_pickle_methods', fn, [me, node])
    finally:
        sym.intercept = {}
    out['errors'] = list(sym.errors)
    return out


def classify(res):
    texts = [t for t in res['texts'] if t]
    if not res['texts']:
        return 'nothing'
    stub = any(re.search(r'raise\s+TypeError', t) for t in texts)
    real = any('__pyx_unpickle' in t for t in texts)
    if stub and not real:
        return 'stubs'
    if real and not stub:
        return 'pickle-code'
    return 'unknown'


def rule_members(ctx, floor=16):
    r = Rule('C29-MEMBERS', '_inject_pickle_methods evaluated on mock class chains: the attributes of every cdef base class take part in the pickled state exactly once, the '
             '__weakref__ / __dict__ slots do not; TypeError stubs are generated exactly when the class has a __cinit__, a member that cannot be converted to and from a '
             'Python object, or struct members without @auto_pickle(True); nothing is generated for auto_pickle(False) or an inherited __reduce__', floor)
    sym = S.Sym(ctx, 'ParseTreeTransforms')
    _, fn, _ = pC29.find_generator(ctx)
    # ---- member collection over the base chain
    for depth in (1, 2, 3):
        levels = [[_entry('c2'), _entry('c1', pyobject=False)], [_entry('b1'), _entry('__dict__')], [_entry('a1', pyobject=False), _entry('__weakref__')]][:depth]
        res = run_generator(ctx, sym, levels)
        want = sorted(e.name for lv in levels for e in lv if e.name not in ('__dict__', '__weakref__'))
        key = '_inject_pickle_methods:members'
        r.inst('%s:depth%d' % (key, depth), sample='inheritance depth %d: layout checksum over %s, generated %s' % (depth, res['hashed'], classify(res)))
        if classify(res) != 'pickle-code' or res['hashed'] is None:
            r.violate(key + ':generated', PTT, fn.lineno, 'for a chain of %d cdef class(es) with convertible members no pickle code is generated (%s, errors %s)' % (depth, classify(res), res['errors'][:1]))
            continue
        got = sorted(res['hashed'])
        if got != want:
            missing, extra = sorted(set(want) - set(got)), sorted(x for x in got if x not in want or got.count(x) > 1)
            r.violate(key, PTT, fn.lineno, 'class with %d cdef base class(es): the pickled members are %s, the class chain declares %s — %s' % (
                depth - 1, got, want, ('attributes %s inherited from a base class are neither pickled nor restored' % missing) if missing else
                ('%s is packed into the state although it is a slot managed by the type (__dict__ is appended separately, __weakref__ must not be pickled)' % extra)))
            continue
        state = None
        for t in res['texts']:
            m = re.search(r'state\s*=\s*\(([^)]*)\)', t or '')
            if m:
                state = sorted(x.strip()[len('self.'):] for x in m.group(1).split(',') if x.strip())
        r.inst('%s:state:depth%d' % (key, depth))
        if state != want:
            r.violate(key + ':state', PTT, fn.lineno, 'class with %d cdef base class(es): __reduce_cython__ packs %s, the class chain declares %s' % (depth - 1, state, want))
    # ---- decision: pickle code / TypeError stubs / nothing
    table = [
        ('all members convertible', dict(levels=[[_entry('a'), _entry('b', pyobject=False)]]), 'pickle-code'),
        ('__cinit__ defined', dict(levels=[[_entry('a')]], specials=[{'__cinit__': NS('cinit')}]), 'stubs'),
        ('__cinit__ in a base class', dict(levels=[[_entry('a')], [_entry('b')]], specials=[{}, {'__cinit__': NS('cinit')}]), 'stubs'),
        ('__cinit__ defined, base class without', dict(levels=[[_entry('a')], [_entry('b')]], specials=[{'__cinit__': NS('cinit')}, {}]), 'stubs'),
        ('__cinit__ in the middle of a chain of three', dict(levels=[[_entry('a')], [_entry('b')], [_entry('c')]], specials=[{}, {'__cinit__': NS('cinit')}, {}]), 'stubs'),
        ('C member without to-Python conversion', dict(levels=[[_entry('a', pyobject=False, to_py=False)]]), 'stubs'),
        ('C member without from-Python conversion', dict(levels=[[_entry('a', pyobject=False, from_py=False)]]), 'stubs'),
        ('struct member, auto_pickle not requested', dict(levels=[[_entry('a', pyobject=False, struct=True)]]), 'stubs'),
        ('struct member, @auto_pickle(True)', dict(levels=[[_entry('a', pyobject=False, struct=True)]], auto_pickle=True), 'pickle-code'),
        ('@auto_pickle(False)', dict(levels=[[_entry('a')]], auto_pickle=False), 'nothing'),
        # no row for an inherited user-defined __reduce__/__reduce_ex__: generating the *_cython__ methods there is harmless (__Pyx_setup_reduce does not install them,
        # see C29-SETUP "user-reduce"), so the early `return` is an optimisation, not a necessary condition
        ('object member only', dict(levels=[[_entry('a')]]), 'pickle-code'),
    ]
    for label, kw, want in table:
        res = run_generator(ctx, sym, **kw)
        got = classify(res)
        key = '_inject_pickle_methods:decision:%s' % label.replace(' ', '_')
        r.inst(key, sample='%s -> %s' % (label, got))
        if got != want:
            r.violate(key, PTT, fn.lineno, 'cdef class, %s: %s generated, expected %s — %s' % (
                label, {'stubs': 'TypeError stubs are', 'pickle-code': 'pickle code is', 'nothing': 'nothing is', 'unknown': 'something unrecognised is'}[got],
                {'stubs': 'TypeError stubs', 'pickle-code': 'pickle code', 'nothing': 'nothing'}[want],
                'a class that cannot be pickled must raise TypeError, one that can must round-trip'))
    # ---- when is the generator invoked at all (visit_CClassDefNode)
    c = sym.cls('AnalyseDeclarationsTransform')
    vf = sym.method(c, 'visit_CClassDefNode')[1]
    # (a class that defines __reduce__/__reduce_ex__ itself needs no row: methods injected there would simply not be installed by __Pyx_setup_reduce)
    for vis, special, implemented, want in (('public', None, True, True), ('private', None, True, True), ('extern', None, True, False), ('public', None, False, False)):
        called = []
        scope = NS('scope', _ctor='MockScope', directives={}, implemented=implemented, var_entries=[], lookup=lambda name, special=special: NS('entry') if name == special else None)
        node = NS('node', _ctor='MockClassDef', scope=scope, visibility=vis, body=NS('body', stats=[]), pos='POS')
        me = sym.obj(c)
        sym.intercept = {'_inject_pickle_methods': lambda a, k: called.append(a), 'visit_ClassDefNode': lambda a, k: a[0]}
        try:
            sym.run('AnalyseDeclarationsTransform.visit_CClassDefNode', vf, [me, node])
        finally:
            sym.intercept = {}
        key = 'visit_CClassDefNode:trigger:%s%s%s' % (vis, ':' + special if special else '', '' if implemented else ':declaration-only')
        r.inst(key, sample='visibility %s, user-defined %s, implemented %s -> pickle methods %s' % (vis, special, implemented, 'injected' if called else 'not injected'))
        if bool(called) != want:
            r.violate(key, PTT, vf.lineno, 'cdef class with visibility %r%s%s: _inject_pickle_methods is %s, expected %s' % (
                vis, ', defining %s' % special if special else '', '' if implemented else ', declared only', 'called' if called else 'not called',
                'called (otherwise the class cannot be pickled at all)' if want else 'not called (extern / user-defined pickling / no implementation)'))
    r.positive_control(classify({'texts': ['def __reduce_cython__(self):\n raise TypeError, "x"']}) == 'stubs' and classify({'texts': []}) == 'nothing', 'stub / nothing classification')
    return r


# ====================================================================================================== C29-WIDTH
def rule_width(ctx, floor=2):
    r = Rule('C29-WIDTH', 'the largest checksum literal _calculate_pickle_checksums can produce (digest of all-f hex digits) fits the signed 32-bit range of the `long` checksum '
             'parameters of __Pyx_CheckUnpickleChecksum (LLP64: long is 32 bit), and every working algorithm contributes one literal', floor)
    sym = S.Sym(ctx, 'ParseTreeTransforms')
    fdef = sym.m.functions.get(pC29.SUMFN)
    if fdef is None:
        raise AnalysisError('ParseTreeTransforms.%s vanished' % pC29.SUMFN)
    digest = NS('digest', hexdigest=lambda: 'f' * 64, digest=lambda: b'\xff' * 32)
    hl = NS('hashlib')
    hl.__dict__['_getattr'] = lambda name: (lambda *a, **k: digest)
    sym.glob['hashlib'] = hl
    res = sym.run(pC29.SUMFN, fdef, [['a', 'b']])
    d = c_function(ctx, pC29.CHECK)
    types = d.param_types()[:-1]
    key = '%s:literal-width' % pC29.SUMFN
    r.inst(key, sample='%s -> %r; C parameters %s' % (pC29.SUMFN, res, types))
    if not isinstance(res, list) or not res or not all(isinstance(x, str) for x in res):
        raise AnalysisError('%s does not return a list of literals for a mock hashlib (%r)' % (pC29.SUMFN, res))
    try:
        vals = [int(x, 0) for x in res]
    except ValueError:
        raise AnalysisError('%s returns %r, not integer literals' % (pC29.SUMFN, res))
    bits = 31 if all(re.fullmatch(r'(?:signed\s+)?long(?:\s+int)?', t.strip()) for t in types) else 63 if all('long long' in t or 'int64' in t for t in types) else None
    if bits is None:
        r.info('checksum parameter types %s not classified' % types)
    elif max(vals) >= 2 ** bits:
        r.violate(key, PTT, fdef.lineno, '%s can produce the literal %s = %d, which does not fit the %d value bits of the C `%s` checksum parameters where long is 32 bit (Windows): '
                  'converting the pickled checksum raises OverflowError, the class cannot be unpickled' % (pC29.SUMFN, max(res, key=lambda x: int(x, 0)), max(vals), bits, types[0]))
    # the hashed text must tell member lists apart (names are identifiers: any separator that is no identifier character will do)
    hashed = []
    hl.__dict__['_getattr'] = lambda name: (lambda data=None, *a, **k: (hashed.append(data), digest)[1])
    texts = []
    for names in (['ab', 'c'], ['a', 'bc'], ['abc']):
        del hashed[:]
        sym.run(pC29.SUMFN, fdef, [names])
        texts.append(tuple(hashed))
    key2 = '%s:hashed-text' % pC29.SUMFN
    r.inst(key2, sample='member lists [ab, c] / [a, bc] / [abc] are hashed as %s' % (texts,))
    if not texts[0] or any(x is None or x is OPQ for t in texts for x in t):
        raise AnalysisError('%s: the text handed to hashlib could not be determined' % pC29.SUMFN)
    if len(set(texts)) != 3:
        r.violate(key2, PTT, fdef.lineno, '%s hashes the member lists [ab, c], [a, bc] and [abc] as %s: different attribute layouts get the same checksum, unpickling data of the '
                  'other layout is not rejected' % (pC29.SUMFN, sorted(set(texts))))
    r.positive_control(int('0x' + 'f' * 8, 0) >= 2 ** 31 > int('0x' + 'f' * 7, 0), '8 hex digits exceed a signed 32-bit long, 7 do not')
    return r
