"""C38 strengthening: the integer emulation of the shadow module stays in the integers, and pure-mode C functions keep propagating exceptions.

C38-EXACT  every module-level function of Shadow.py whose signature is all-`int` (the emulations of C integer operators: cdiv, cmod) computes its
           return value with integer-exact operations only.  A type/taint abstract interpretation over {exact integer, bool, float-derived, unknown}:
           true division, float(), math.* and negative/unknown powers produce a float-derived value, and int()/round()/floor() of such a value stays
           float-derived (the conversion does not give back the bits a C double lost).  A C `long long` has 63 value bits, a double 53, so any
           float-derived return value differs from the compiled result for some operands in range.
C38-EXC    decision table of AdjustDefByDirectives.visit_DefNode over the complete domain {cfunc, ccall} x {@exceptval given, absent} x {@returns given,
           absent} x {annotation_typing on, off} x {return annotation present, absent}: whenever a C return type is handed to as_cfunction() without an
           explicit @exceptval, the exception clause handed over has check=True (`except *` / `except? -1`), and an explicit @exceptval is passed through
           unchanged and flagged as explicit.  Interpreted pure-mode functions always propagate exceptions; a compiled C function without an
           exception check prints "Exception ignored" and returns 0.
C38-TRUNC  the bodies of Shadow.cdiv / cmod, interpreted by the checker (IntEval), equal the C99 truncating quotient / remainder on every sign x residue class
           of the dividend for the divisors +-{1,2,3,5,7}.
C38-EXIT   no __exit__ of a Shadow class returns a true value while an exception is in flight (three-valued ExitEval).
C38-KIND   the builtin at the end of the typedef() chain of each Shadow C-type name is the Python type the compiler converts that C type to.
C38-PRANGE Shadow prange() returns range(start, stop, step) with the positional arguments in the slots ParallelRangeNode.analyse_declarations uses.
C38-COP    cdiv / cmod / cast are compiled to binop `/` / `%` with cdivision=True on (arg0, arg1) / TypecastNode(type of arg0, operand arg1); ccall -> overridable=True,
           cfunc -> overridable=False; as_cfunction unpacks the exceptval pair in the order its writers build it.
C38-SHAPE  every directive spelling the compiler accepts (world evaluation of try_to_parse_directives / try_to_parse_directive / visit_WithStatNode per directive type x
           argument shape) binds to the shadow object and gives the decorated object / a context manager back (abstract call evaluator ShEval).
           rule_shape_all_forms (every accepted spelling, not only one) reports on the unmodified tree: pending finding, not registered.
"""
import ast

from ..core import Rule, AnalysisError, node_src
from ..engine.pyindex import walk_no_nested, is_self_attr
from .sC37 import Mini, State, Sym, UNK

SHADOW = 'Cython/Shadow.py'

# ================================================================================================ C38-EXACT
INT, BOOL, TAINT, UNKT = 'int', 'bool', 'float-derived', 'unknown'
EXACT_BINOPS = (ast.Add, ast.Sub, ast.Mult, ast.FloorDiv, ast.Mod, ast.LShift, ast.RShift, ast.BitAnd, ast.BitOr, ast.BitXor)
ROUNDERS = {'int', 'round', 'floor', 'ceil', 'trunc', 'abs', 'min', 'max', 'divmod', 'sum', 'pow'}
FLOATERS = {'float', 'fmod', 'sqrt', 'log', 'log2', 'log10', 'exp', 'copysign', 'fabs', 'ldexp', 'frexp', 'modf', 'hypot', 'fsum', 'remainder', 'truediv'}


def join(*ts):
    ts = [t for t in ts if t is not None]
    if TAINT in ts:
        return TAINT
    if UNKT in ts:
        return UNKT
    return INT if INT in ts or not ts else BOOL


class Exact:
    def __init__(self, fn):
        self.fn = fn
        self.env = {}
        self.why = {}           # variable -> source text of the float-producing subexpression
        a = fn.args
        for p in a.posonlyargs + a.args + a.kwonlyargs:
            self.env[p.arg] = INT
        self.origin = None
        self.locals = {t.id for n in walk_no_nested(fn) for t in ast.walk(n) if isinstance(t, ast.Name) and isinstance(t.ctx, ast.Store)}

    def note(self, n):
        if self.origin is None:
            self.origin = n

    def ty(self, n):
        if isinstance(n, ast.Constant):
            if isinstance(n.value, bool):
                return BOOL
            if isinstance(n.value, int):
                return INT
            if isinstance(n.value, float) or isinstance(n.value, complex):
                self.note(n)
                return TAINT
            return UNKT
        if isinstance(n, ast.Name):
            t = self.env.get(n.id, None if n.id in self.locals else UNKT)      # None = local not bound yet (bottom)
            if t == TAINT and n.id in self.why and self.origin is None:
                self.origin = self.why[n.id]
            return t
        if isinstance(n, ast.BinOp):
            l, r = self.ty(n.left), self.ty(n.right)
            if isinstance(n.op, ast.Div):
                self.note(n)
                return TAINT
            if isinstance(n.op, ast.Pow):
                if isinstance(n.right, ast.Constant) and isinstance(n.right.value, int) and n.right.value >= 0:
                    return join(l, INT)
                self.note(n)
                return TAINT
            if isinstance(n.op, EXACT_BINOPS):
                return None if l is None and r is None else join(l, r)
            return UNKT
        if isinstance(n, ast.UnaryOp):
            t = self.ty(n.operand)
            return BOOL if isinstance(n.op, ast.Not) else t
        if isinstance(n, ast.Compare):
            self.ty(n.left)
            for c in n.comparators:
                self.ty(c)
            return BOOL
        if isinstance(n, ast.BoolOp):
            return join(*[self.ty(v) for v in n.values])
        if isinstance(n, ast.IfExp):
            return join(self.ty(n.body), self.ty(n.orelse))
        if isinstance(n, (ast.Tuple, ast.List)):
            return join(*[self.ty(e) for e in n.elts])
        if isinstance(n, ast.Subscript):
            return self.ty(n.value)
        if isinstance(n, ast.Call):
            name = n.func.id if isinstance(n.func, ast.Name) else n.func.attr if isinstance(n.func, ast.Attribute) else None
            args = [self.ty(a) for a in n.args]
            if name in FLOATERS:
                self.note(n)
                return TAINT
            if name in ROUNDERS:
                return join(*args) if args else UNKT
            if name == 'bool':
                return BOOL
            return UNKT
        return UNKT

    def bind(self, t, ty, origin):
        if isinstance(t, ast.Name):
            old = self.env.get(t.id)
            new = join(old, ty) if old is not None else ty
            if new != old:
                self.env[t.id] = new
                if new == TAINT and origin is not None:
                    self.why.setdefault(t.id, origin)
                return True
        elif isinstance(t, (ast.Tuple, ast.List)):
            return any([self.bind(e, ty, origin) for e in t.elts])
        return False

    def solve(self):
        changed, rounds = True, 0
        while changed and rounds < 10:
            changed, rounds = False, rounds + 1
            for n in walk_no_nested(self.fn):
                self.origin = None
                if isinstance(n, ast.Assign):
                    ty = self.ty(n.value)
                    for t in n.targets:
                        changed |= self.bind(t, ty, self.origin)
                elif isinstance(n, ast.AugAssign):
                    ty = self.ty(ast.BinOp(left=ast.Name(id=n.target.id, ctx=ast.Load()), op=n.op, right=n.value)) if isinstance(n.target, ast.Name) else UNKT
                    changed |= self.bind(n.target, ty, self.origin)
                elif isinstance(n, ast.AnnAssign) and n.value is not None:
                    changed |= self.bind(n.target, self.ty(n.value), self.origin)
                elif isinstance(n, (ast.For, ast.comprehension)):
                    changed |= self.bind(n.target, UNKT, None)
                elif isinstance(n, ast.NamedExpr):
                    changed |= self.bind(n.target, self.ty(n.value), self.origin)
        out = []
        for n in walk_no_nested(self.fn):
            if isinstance(n, ast.Return) and n.value is not None:
                self.origin = None
                out.append((n, self.ty(n.value) or UNKT, self.origin))
        return out


def int_contract_functions(tree):
    """Module-level functions (the last definition of each name) whose parameters and return are all annotated `int`."""
    last = {}

    def scan(stmts):
        for s in stmts:
            if isinstance(s, ast.FunctionDef):
                last[s.name] = s
            elif isinstance(s, ast.If):
                scan(s.body)
                scan(s.orelse)
            elif isinstance(s, ast.Try):
                scan(s.body)
    scan(tree.body)
    out = []
    for name, fn in sorted(last.items()):
        a = fn.args
        ps = a.posonlyargs + a.args + a.kwonlyargs
        if not ps or a.vararg or a.kwarg:
            continue
        if all(isinstance(p.annotation, ast.Name) and p.annotation.id == 'int' for p in ps) and isinstance(fn.returns, ast.Name) and fn.returns.id == 'int':
            out.append(fn)
    return out


def exact_problems(fn):
    res = []
    for ret, ty, origin in Exact(fn).solve():
        res.append((ret, ty, origin))
    return res


def rule_exact(ctx):
    r = Rule('C38-EXACT', 'the shadow emulations of C integer operators (all-int signature: cdiv, cmod) compute their result with integer-exact operations only '
             '(no value derived from a float reaches the return value)', floor=2)
    tree = ctx.parse(SHADOW)
    fns = int_contract_functions(tree)
    for fn in fns:
        rets = exact_problems(fn)
        if not rets:
            raise AnalysisError('Shadow.%s has no return statement' % fn.name)
        key = 'Shadow.%s:return' % fn.name
        r.inst(key, sample='Shadow.%s: %d return(s), types %s' % (fn.name, len(rets), sorted({t for _, t, _ in rets})))
        bad = [(n, o) for n, t, o in rets if t == TAINT]
        unk = [n for n, t, o in rets if t == UNKT]
        if bad:
            n, o = bad[0]
            r.violate(key, SHADOW, n.lineno,
                      'Shadow.%s(%s) -> int returns `%s`, which is computed through a float (`%s`): a C double keeps 53 bits, so for operands of a 64-bit C '
                      'integer beyond 2**53 (2**53 + 1 is already not representable) the interpreted result is rounded while the compiled module computes the exact C result'
                      % (fn.name, ', '.join(a.arg for a in fn.args.args), node_src(n.value, 60), node_src(o, 60) if o is not None else '?'))
        elif unk:
            r.info('Shadow.%s: return value `%s` goes through a call or operator that is not modelled; exactness not decided' % (fn.name, node_src(unk[0].value, 60)))
    pc_bad = ast.parse("def f(a: int, b: int) -> int:\n    q = a / b\n    if q < 0:\n        return -int(-q)\n    return int(q)\n").body[0]
    pc_ok = ast.parse("def f(a: int, b: int) -> int:\n    q, r = divmod(a, b)\n    if r and (a < 0) != (b < 0):\n        q += 1\n    return q if a / b else q\n").body[0]
    r.positive_control(all(t == TAINT for _, t, _ in exact_problems(pc_bad)) and all(t == INT for _, t, _ in exact_problems(pc_ok))
                       and len(int_contract_functions(ast.Module(body=[pc_bad], type_ignores=[]))) == 1,
                       'quotient computed by true division and converted back with int()')
    return r


# ================================================================================================ C38-EXC
PTT = 'Cython/Compiler/ParseTreeTransforms.py'


def _method(ctx, rel, cls, name):
    for n in ctx.parse(rel).body:
        if isinstance(n, ast.ClassDef) and n.name == cls:
            for f in n.body:
                if isinstance(f, ast.FunctionDef) and f.name == name:
                    return f
    raise AnalysisError('%s: %s.%s vanished' % (rel, cls, name))


def exc_worlds():
    for kind in ('cfunc', 'ccall'):
        for ev in (False, True):
            for ret in (False, True):
                for at in (True, False):
                    for ann in (False, True):
                        yield dict(kind=kind, exceptval=ev, returns=ret, annotation_typing=at, annotation=ann)


def world_name(w):
    return '@%s%s%s, annotation_typing=%s%s' % (w['kind'], ' @exceptval(E)' if w['exceptval'] else '', ' @returns(R)' if w['returns'] else '',
                                                w['annotation_typing'], ', `-> A` annotation' if w['annotation'] else '')


def as_cfunction_default(ctx):
    """What DefNode.as_cfunction does with except_val=None: the literal tuple in `except_val or (<value>, <check>)`."""
    fn = _method(ctx, 'Cython/Compiler/Nodes.py', 'DefNode', 'as_cfunction')
    params = [a.arg for a in fn.args.args[1:]]
    default = None
    for n in walk_no_nested(fn):
        if isinstance(n, ast.BoolOp) and isinstance(n.op, ast.Or) and len(n.values) == 2 and isinstance(n.values[0], ast.Name) and n.values[0].id == 'except_val' \
                and isinstance(n.values[1], ast.Tuple) and len(n.values[1].elts) == 2:
            try:
                default = ast.literal_eval(n.values[1])
            except ValueError:
                default = None
    return params, default


def exc_table(ctx, fn, params, cls_name='AdjustDefByDirectives'):
    """-> [(world, [(returns, except_val, explicit flag, call node)] one per path that reaches as_cfunction)]"""
    memo_key = ('C38-exc-table', id(fn), tuple(params), cls_name)
    if memo_key in ctx._cache:
        return ctx._cache[memo_key]
    E, R, A = Sym('exceptval-directive-value'), Sym('returns-directive-type'), Sym('return-annotation')
    out = []
    ctx._cache[memo_key] = out
    for w in exc_worlds():
        table = {'exceptval': E if w['exceptval'] else None, 'returns': R if w['returns'] else None, 'annotation_typing': w['annotation_typing']}
        present = {'cfunc': w['kind'] == 'cfunc', 'ccall': w['kind'] == 'ccall', 'exceptval': w['exceptval'], 'returns': w['returns'], 'annotation_typing': True}
        node = Sym('def-node', dict(return_type_annotation=A if w['annotation'] else None))

        def is_directives(x):
            return is_self_attr(x) and x.attr == 'directives'

        def oracle(n, st, mini):
            if isinstance(n, ast.Call) and isinstance(n.func, ast.Attribute) and n.func.attr == 'get' and is_directives(n.func.value) and n.args \
                    and isinstance(n.args[0], ast.Constant):
                k = n.args[0].value
                if k in table:
                    v = table[k]
                    if v is None and len(n.args) > 1:
                        return mini.ev(n.args[1], st)
                    return v
                return UNK
            if isinstance(n, ast.Subscript) and is_directives(n.value) and isinstance(n.slice, ast.Constant):
                return table.get(n.slice.value, UNK)
            if isinstance(n, ast.Compare) and len(n.ops) == 1 and isinstance(n.ops[0], (ast.In, ast.NotIn)) and is_directives(n.comparators[0]) \
                    and isinstance(n.left, ast.Constant):
                if n.left.value in present:
                    return present[n.left.value] == isinstance(n.ops[0], ast.In)
                return UNK
            return NotImplemented

        def rec(n, st, mini, args, kwargs):
            f = n.func
            if isinstance(f, ast.Attribute) and f.attr == 'as_cfunction':
                kw = dict(zip(params, args))
                kw.update(kwargs)
                st.trace.append(('as_cfunction', kw, n))
                return Sym('cfunc-node', dict(return_type_annotation=None))
            return NotImplemented
        m = Mini(oracle, rec, what='%s.%s' % (cls_name, fn.name))
        pname = fn.args.args[1].arg if len(fn.args.args) > 1 else 'node'
        rows = []
        for st, flow, val in m.run(fn, State(), {pname: node}):
            calls = [e for e in st.trace if e[0] == 'as_cfunction']
            if flow == 'raise' or not calls:
                continue
            if len(calls) > 1:
                raise AnalysisError('%s.%s calls as_cfunction more than once on a path' % (cls_name, fn.name))
            kw = calls[0][1]
            rows.append((kw.get('returns'), kw.get('except_val'), kw.get('has_explicit_exc_clause', False), calls[0][2], kw))
        out.append((w, rows, (E, R, A)))
    return out


def exc_problems(ctx, fn, params, default):
    for w, rows, (E, R, A) in exc_table(ctx, fn, params):
        name = world_name(w)
        key = 'exc:%s:%s%s%s%s' % (w['kind'], 'E' if w['exceptval'] else '-', 'R' if w['returns'] else '-', 'T' if w['annotation_typing'] else '-', 'A' if w['annotation'] else '-')
        if not rows:
            raise AnalysisError('AdjustDefByDirectives.%s: no path reaches as_cfunction for %s' % (fn.name, name))
        for returns, ev, explicit, call, _kw in rows:
            if returns is UNK or ev is UNK or explicit is UNK:
                raise AnalysisError('AdjustDefByDirectives.%s: cannot evaluate the arguments of as_cfunction for %s (returns=%r except_val=%r explicit=%r)'
                                    % (fn.name, name, returns, ev, explicit))
            msg = what = None
            if w['exceptval']:
                what = 'explicit-value' if ev is not E else 'explicit-flag'
                if ev is not E:
                    msg = 'the value of the explicit @exceptval directive is not what is passed as except_val (%r)' % (ev,)
                elif explicit is not True:
                    msg = 'an explicit @exceptval is passed with has_explicit_exc_clause=%r: with legacy_implicit_noexcept the declared exception check is dropped' % (explicit,)
            elif returns is not None:
                eff = default if ev is None else ev
                if eff is None:
                    raise AnalysisError('cannot see what DefNode.as_cfunction does with except_val=None')
                if not (isinstance(eff, tuple) and len(eff) == 2):
                    raise AnalysisError('AdjustDefByDirectives.%s: except_val passed for %s is not a (value, check) pair: %r' % (fn.name, name, eff))
                what = 'implicit-check'
                if eff[1] is not True and eff[0] is None:
                    src = 'the `-> A` return annotation' if returns is A else 'the @returns(R) declaration' if returns is R else repr(returns)
                    msg = ('the C return type from %s is passed to as_cfunction with except_val=%r, i.e. without an exception check (noexcept): an exception '
                           'raised in the function propagates when the module is interpreted, but the compiled function prints "Exception ignored" and returns 0'
                           % (src, eff))
            yield (key, name, msg, call.lineno, (returns, ev, explicit), '%s:%s' % (w['kind'], what))


def rule_exc(ctx):
    r = Rule('C38-EXC', 'decision table of AdjustDefByDirectives.visit_DefNode over {cfunc,ccall} x exceptval x returns x annotation_typing x return annotation: a C return type '
             'without explicit @exceptval gets an exception check; an explicit @exceptval is passed through and flagged explicit', floor=30)
    m = (None, _method(ctx, PTT, 'AdjustDefByDirectives', 'visit_DefNode'))
    params, default = as_cfunction_default(ctx)
    failing, seen = {}, set()
    for key, name, msg, line, row, what in exc_problems(ctx, m[1], params, default):
        if key not in seen:
            seen.add(key)
            r.inst(key, sample='%s -> returns=%r except_val=%r explicit=%r' % ((name,) + row))
        if msg:
            failing.setdefault('exc:' + what, []).append((key, name, msg, line))
    for vkey, lst in sorted(failing.items()):
        worlds = sorted({k for k, _, _, _ in lst})
        r.violate(vkey, PTT, lst[0][3], 'AdjustDefByDirectives.visit_DefNode, %s: %s (%d of 32 decorator combinations fail: %s)'
                  % (lst[0][1], lst[0][2], len(worlds), ' '.join(k.split(':', 2)[2] for k in worlds)))
    pc = ast.parse(
        "class X:\n"
        "  def visit_DefNode(self, node):\n"
        "    except_val = self.directives.get('exceptval')\n"
        "    explicit = except_val is not None\n"
        "    rt = self.directives.get('returns')\n"
        "    if except_val is None:\n      except_val = (None, True if rt else False)\n"
        "    if rt is None and self.directives['annotation_typing']:\n"
        "      rt = node.return_type_annotation\n"
        "      if rt is not None and except_val is None:\n        except_val = (None, True)\n"
        "    if 'ccall' in self.directives:\n      return node.as_cfunction(overridable=True, returns=rt, except_val=except_val, has_explicit_exc_clause=explicit)\n"
        "    if 'cfunc' in self.directives:\n      return node.as_cfunction(overridable=False, returns=rt, except_val=except_val, has_explicit_exc_clause=explicit)\n"
        "    return node\n").body[0].body[0]
    bad = sorted({k for k, _, msg, _, _, _ in exc_problems(ctx, pc, params, default) if msg})
    r.positive_control(bad == ['exc:ccall:--TA', 'exc:cfunc:--TA'], 'default computed before the annotation is looked at')
    return r


# ================================================================================================ C38-TRUNC
# Value clause of the integer emulations: the BODY of Shadow.cdiv / Shadow.cmod is interpreted by the evaluator below (Python integer semantics, it
# belongs to the checker; nothing of the repository is executed) on the complete set of sign combinations x residue classes of the dividend modulo
# |divisor| for five small divisors, and compared with the C99 definition (6.5.5: the quotient is truncated toward zero, (a/b)*b + a%b == a).
# What makes the finite evaluation representative is established syntactically first (`outside_fragment`): the function looks at its operands only
# through + - * // % abs divmod and comparisons, so its behaviour is piecewise determined by the signs of the operands and the residue of a modulo |b|.
# A counterexample is always a genuine one; the transfer of a *pass* to large operands is not decided (NOT_DECIDED).
C_MEANING = {'cdiv': '/', 'cmod': '%'}     # fixed by the meaning of the names: the C operators `/` and `%` on signed integers
TRUNC_DIVISORS = (1, 2, 3, 5, 7)
FRAGMENT_OPS = (ast.Add, ast.Sub, ast.Mult, ast.FloorDiv, ast.Mod)
FRAGMENT_CALLS = {'abs', 'divmod', 'int', 'bool'}


class _Unsupported(Exception):
    def __init__(self, node, why=''):
        Exception.__init__(self, '%s%s' % (node_src(node, 50) if isinstance(node, ast.AST) else node, why and ' (%s)' % why))


class _Raises(Exception):
    """The interpreted function raises (ZeroDivisionError, failed assert, explicit raise)."""


class IntEval:
    """Concrete interpreter for straight-line / branching arithmetic functions over Python numbers."""
    BIN = {ast.Add: lambda a, b: a + b, ast.Sub: lambda a, b: a - b, ast.Mult: lambda a, b: a * b, ast.FloorDiv: lambda a, b: a // b,
           ast.Mod: lambda a, b: a % b, ast.Div: lambda a, b: a / b, ast.Pow: lambda a, b: a ** b, ast.LShift: lambda a, b: a << b,
           ast.RShift: lambda a, b: a >> b, ast.BitAnd: lambda a, b: a & b, ast.BitOr: lambda a, b: a | b, ast.BitXor: lambda a, b: a ^ b}
    CMP = {ast.Lt: lambda a, b: a < b, ast.LtE: lambda a, b: a <= b, ast.Gt: lambda a, b: a > b, ast.GtE: lambda a, b: a >= b,
           ast.Eq: lambda a, b: a == b, ast.NotEq: lambda a, b: a != b, ast.Is: lambda a, b: a is b, ast.IsNot: lambda a, b: a is not b}
    NUM = (int, float, bool)

    def __init__(self, fn, budget=400):
        self.fn, self.budget = fn, budget

    def call(self, *args):
        a = self.fn.args
        if a.vararg or a.kwarg or a.kwonlyargs:
            raise _Unsupported(self.fn.name, 'star parameters')
        params = [p.arg for p in a.posonlyargs + a.args]
        if len(params) != len(args):
            raise _Unsupported(self.fn.name, 'takes %d parameters' % len(params))
        env = dict(zip(params, args))
        self.steps = 0
        flow, val = self.block(self.fn.body, env)
        return val if flow == 'return' else None

    def tick(self, n):
        self.steps += 1
        if self.steps > self.budget:
            raise _Unsupported(n, 'step budget exhausted')

    def block(self, stmts, env):
        for s in stmts:
            flow, val = self.stmt(s, env)
            if flow != 'next':
                return flow, val
        return 'next', None

    def store(self, t, v, env):
        if isinstance(t, ast.Name):
            env[t.id] = v
        elif isinstance(t, (ast.Tuple, ast.List)) and isinstance(v, tuple) and len(v) == len(t.elts) and not any(isinstance(e, ast.Starred) for e in t.elts):
            for e, x in zip(t.elts, v):
                self.store(e, x, env)
        else:
            raise _Unsupported(t, 'assignment target')

    def stmt(self, s, env):
        self.tick(s)
        if isinstance(s, ast.Assign):
            v = self.ev(s.value, env)
            for t in s.targets:
                self.store(t, v, env)
        elif isinstance(s, ast.AnnAssign):
            if s.value is not None:
                self.store(s.target, self.ev(s.value, env), env)
        elif isinstance(s, ast.AugAssign):
            if not isinstance(s.target, ast.Name):
                raise _Unsupported(s, 'augmented assignment target')
            env[s.target.id] = self.binop(s.op, self.ev(ast.Name(id=s.target.id, ctx=ast.Load()), env), self.ev(s.value, env), s)
        elif isinstance(s, ast.If):
            return self.block(s.body if self.ev(s.test, env) else s.orelse, env)
        elif isinstance(s, ast.While):
            while self.ev(s.test, env):
                self.tick(s)
                flow, val = self.block(s.body, env)
                if flow == 'break':
                    break
                if flow == 'return':
                    return flow, val
            else:
                return self.block(s.orelse, env)
        elif isinstance(s, ast.Return):
            return 'return', (self.ev(s.value, env) if s.value is not None else None)
        elif isinstance(s, ast.Expr):
            if not isinstance(s.value, ast.Constant):
                self.ev(s.value, env)
        elif isinstance(s, ast.Assert):
            if not self.ev(s.test, env):
                raise _Raises('assert %s' % node_src(s.test, 40))
        elif isinstance(s, ast.Raise):
            raise _Raises(node_src(s, 40))
        elif isinstance(s, ast.Break):
            return 'break', None
        elif isinstance(s, ast.Continue):
            return 'continue', None
        elif isinstance(s, ast.Pass):
            pass
        else:
            raise _Unsupported(s, 'statement')
        return 'next', None

    def binop(self, op, a, b, n):
        f = self.BIN.get(type(op))
        if f is None or not isinstance(a, self.NUM) or not isinstance(b, self.NUM):
            raise _Unsupported(n, 'operator')
        if isinstance(op, (ast.Pow, ast.LShift)) and (abs(b) > 64 or abs(a) > 10 ** 6):
            raise _Unsupported(n, 'operand too large')
        try:
            return f(a, b)
        except ZeroDivisionError:
            raise _Raises('ZeroDivisionError in %s' % node_src(n, 40))
        except (TypeError, ValueError, OverflowError):
            raise _Unsupported(n, 'operator on these operand types')

    def ev(self, n, env):
        self.tick(n)
        if isinstance(n, ast.Constant):
            if isinstance(n.value, self.NUM) or n.value is None:
                return n.value
            raise _Unsupported(n, 'constant')
        if isinstance(n, ast.Name):
            if n.id in env:
                return env[n.id]
            raise _Unsupported(n, 'free name')
        if isinstance(n, ast.BinOp):
            return self.binop(n.op, self.ev(n.left, env), self.ev(n.right, env), n)
        if isinstance(n, ast.UnaryOp):
            v = self.ev(n.operand, env)
            if isinstance(n.op, ast.Not):
                return not v
            if not isinstance(v, self.NUM):
                raise _Unsupported(n, 'operand')
            if isinstance(n.op, ast.USub):
                return -v
            if isinstance(n.op, ast.UAdd):
                return +v
            if isinstance(n.op, ast.Invert) and isinstance(v, int):
                return ~v
            raise _Unsupported(n, 'operator')
        if isinstance(n, ast.Compare):
            left = self.ev(n.left, env)
            for op, c in zip(n.ops, n.comparators):
                right = self.ev(c, env)
                f = self.CMP.get(type(op))
                if f is None:
                    raise _Unsupported(n, 'comparison')
                try:
                    if not f(left, right):
                        return False
                except TypeError:
                    raise _Unsupported(n, 'comparison of these operand types')
                left = right
            return True
        if isinstance(n, ast.BoolOp):
            v = None
            for x in n.values:
                v = self.ev(x, env)
                if bool(v) != isinstance(n.op, ast.And):
                    return v
            return v
        if isinstance(n, ast.IfExp):
            return self.ev(n.body if self.ev(n.test, env) else n.orelse, env)
        if isinstance(n, ast.Tuple):
            return tuple(self.ev(e, env) for e in n.elts)
        if isinstance(n, ast.NamedExpr) and isinstance(n.target, ast.Name):
            env[n.target.id] = self.ev(n.value, env)
            return env[n.target.id]
        if isinstance(n, ast.Subscript):
            b, i = self.ev(n.value, env), self.ev(n.slice, env)
            if isinstance(b, tuple) and isinstance(i, int) and -len(b) <= i < len(b):
                return b[i]
            raise _Unsupported(n, 'subscript')
        if isinstance(n, ast.Call) and not n.keywords:
            name = n.func.id if isinstance(n.func, ast.Name) and n.func.id not in env else \
                n.func.attr if isinstance(n.func, ast.Attribute) and isinstance(n.func.value, ast.Name) and n.func.value.id == 'math' else None
            args = [self.ev(a, env) for a in n.args]
            if not all(isinstance(a, self.NUM) for a in args):
                raise _Unsupported(n, 'call argument')
            try:
                if isinstance(n.func, ast.Name):
                    if name in ('abs', 'int', 'bool', 'float', 'round') and len(args) == 1:
                        return {'abs': abs, 'int': int, 'bool': bool, 'float': float, 'round': round}[name](args[0])
                    if name == 'divmod' and len(args) == 2:
                        return divmod(args[0], args[1])
                    if name in ('min', 'max') and len(args) >= 2:
                        return (min if name == 'min' else max)(args)
                elif name in ('floor', 'ceil', 'trunc', 'fmod', 'copysign', 'fabs'):
                    import math
                    return getattr(math, name)(*args)
            except ZeroDivisionError:
                raise _Raises('ZeroDivisionError in %s' % node_src(n, 40))
            except (TypeError, ValueError, OverflowError):
                raise _Unsupported(n, 'call on these operand types')
            raise _Unsupported(n, 'call')
        raise _Unsupported(n, 'expression')


def c99(op, a, b):
    """C99 6.5.5 on mathematical integers (no wrap-around: operands stay in range)."""
    q = abs(a) // abs(b)
    if (a < 0) != (b < 0):
        q = -q
    return q if op == '/' else a - q * b


def outside_fragment(fn):
    """Constructs of fn outside the sign/residue fragment (operands inspected only through + - * // % unary minus abs divmod and comparisons,
    no loops): for these the finite evaluation is still a sound counterexample search but not representative."""
    out = []
    for n in walk_no_nested(fn):
        if isinstance(n, ast.BinOp) and not isinstance(n.op, FRAGMENT_OPS):
            out.append('operator %s' % type(n.op).__name__)
        elif isinstance(n, ast.UnaryOp) and isinstance(n.op, ast.Invert):
            out.append('operator ~')
        elif isinstance(n, ast.Call) and not (isinstance(n.func, ast.Name) and n.func.id in FRAGMENT_CALLS):
            out.append('call %s' % node_src(n.func, 30))
        elif isinstance(n, (ast.While, ast.For, ast.Try, ast.With, ast.Lambda, ast.ListComp, ast.GeneratorExp)):
            out.append(type(n).__name__)
        elif isinstance(n, ast.Constant) and isinstance(n.value, float):
            out.append('float constant')
    return sorted(set(out))


def trunc_domain():
    for m in TRUNC_DIVISORS:
        for b in (m, -m):
            for a in range(-(3 * m + 2), 3 * m + 3):
                yield a, b


def trunc_problems(fn, op):
    """-> (number of points evaluated, [(a, b, got, want)], unsupported reason or None)"""
    ev = IntEval(fn)
    bad, n = [], 0
    for a, b in trunc_domain():
        want = c99(op, a, b)
        try:
            got = ev.call(a, b)
        except _Raises as e:
            got = 'raises %s' % e
        except _Unsupported as e:
            return n, bad, str(e)
        except RecursionError:
            return n, bad, 'expression too deep'
        n += 1
        if isinstance(got, bool) or not isinstance(got, (int, float)) or got != want:
            bad.append((a, b, got, want))
    return n, bad, None


def module_functions(tree):
    last = {}

    def scan(stmts):
        for s in stmts:
            if isinstance(s, ast.FunctionDef):
                last[s.name] = s
            elif isinstance(s, ast.If):
                if not (isinstance(s.test, ast.Name) and s.test.id == 'TYPE_CHECKING'):
                    scan(s.body)
                scan(s.orelse)
            elif isinstance(s, ast.Try):
                scan(s.body)
    scan(tree.body)
    return last


def rule_trunc(ctx):
    r = Rule('C38-TRUNC', 'Shadow.cdiv / Shadow.cmod compute the C99 truncating quotient / remainder: the function body is evaluated by the checker on every sign '
             'combination x residue class of the dividend for the divisors +-{1,2,3,5,7} and compared with the C definition', floor=2)
    fns = module_functions(ctx.parse(SHADOW))
    contract = {f.name for f in int_contract_functions(ctx.parse(SHADOW))}
    for name, op in sorted(C_MEANING.items()):
        key = 'Shadow.%s:value' % name
        fn = fns.get(name)
        if fn is None:
            r.inst(key, sample='Shadow.%s missing' % name)
            r.violate(key, SHADOW, 1, 'Shadow.py defines no function %s: `cython.%s(a, b)` (compiled to the C operator `%s`) raises AttributeError when run uncompiled' % (name, name, op))
            continue
        npts, bad, unsupported = trunc_problems(fn, op)
        r.inst(key, sample='Shadow.%s vs C `%s`: %d operand pairs evaluated, %d differ' % (name, op, npts, len(bad)))
        out = outside_fragment(fn)
        if unsupported is not None:
            r.info('Shadow.%s: the checker cannot interpret `%s`; the value clause is not decided for this function (C38-EXACT still applies)' % (name, unsupported))
            continue
        if out:
            r.info('Shadow.%s uses %s: outside the sign/residue fragment, the finite evaluation is a counterexample search only' % (name, ', '.join(out)))
        if name not in contract:
            r.info('Shadow.%s no longer has an all-int signature (not an instance of C38-EXACT)' % name)
        if bad:
            a, b, got, want = bad[0]
            r.violate(key, SHADOW, fn.lineno,
                      'Shadow.%s(%d, %d) evaluates to %s, the compiled module computes the C operation %d %s %d = %d (C99: the quotient is truncated toward zero '
                      'and the remainder has the sign of the dividend); %d of %d sign/residue cases differ, e.g. %s: a pure-mode module using cython.%s gives '
                      'different results interpreted and compiled'
                      % (name, a, b, got, a, op, b, want, len(bad), npts, ', '.join('%s(%d, %d) = %s not %d' % (name, x, y, g, w) for x, y, g, w in bad[1:4]) or 'this one', name))
    floor_div = ast.parse("def cdiv(a: int, b: int) -> int:\n    return a // b\n").body[0]
    good_mod = ast.parse("def cmod(a, b):\n    q, r = divmod(abs(a), abs(b))\n    return -r if a < 0 else r\n").body[0]
    r.positive_control(len(trunc_problems(floor_div, '/')[1]) > 0 and trunc_problems(good_mod, '%')[1:] == ([], None) and c99('/', -7, 2) == -3 and c99('%', -7, 2) == -1
                       and c99('%', 7, -2) == 1, 'a cdiv that floors (Python //) instead of truncating')
    return r


# ================================================================================================ C38-EXIT
# No context manager of the shadow module swallows exceptions: the compiled `with nogil:` / `with cython.critical_section(o):` / `with cython.boundscheck(False):`
# blocks are plain C blocks, an exception raised inside propagates.  `__exit__` is evaluated in the world "an exception is in flight": its three arguments are
# objects that are not None and true.  Three-valued: a return value whose truth is known and true is the violation; unknown (delegation to another object's
# __exit__, isinstance tests on the exception) is reported as info.
class _Live:
    """An argument of __exit__ while an exception propagates: not None, true."""
    def __repr__(self):
        return '<exception info>'


T_UNKNOWN = 'unknown'


def shadow_classes(tree):
    """Every ClassDef that is executed at run time (module level, nested in classes / functions / non-TYPE_CHECKING branches) with its dotted name."""
    out = []

    def scan(stmts, prefix):
        for s in stmts:
            if isinstance(s, ast.ClassDef):
                out.append((prefix + s.name, s))
                scan(s.body, prefix + s.name + '.')
            elif isinstance(s, (ast.FunctionDef, ast.AsyncFunctionDef)):
                scan(s.body, prefix + s.name + '.')
            elif isinstance(s, ast.If):
                if not (isinstance(s.test, ast.Name) and s.test.id == 'TYPE_CHECKING'):
                    scan(s.body, prefix)
                scan(s.orelse, prefix)
            elif isinstance(s, (ast.Try, ast.With, ast.For, ast.While)):
                for part in ('body', 'orelse', 'finalbody'):
                    scan(getattr(s, part, []) or [], prefix)
                for h in getattr(s, 'handlers', []):
                    scan(h.body, prefix)
    scan(tree.body, '')
    return out


class ExitEval:
    """Paths of an __exit__ method while an exception is in flight -> [(truth of the returned value: True/False/T_UNKNOWN, node)]"""

    def __init__(self, fn):
        self.fn = fn
        a = fn.args
        params = [p.arg for p in a.posonlyargs + a.args]
        self.env = {p: _Live() for p in params[1:]}
        self.self_name = params[0] if params else None
        if a.vararg:
            self.env[a.vararg.arg] = T_UNKNOWN if len(params) >= 4 else (_Live(),) * (4 - len(params))
        self.results = []

    def run(self):
        for env in self.block(self.fn.body, [dict(self.env)]):
            self.results.append((False, self.fn))          # falls off the end: returns None
        return self.results

    def val(self, n, env):
        """-> python value (None/bool/int/str/_Live/tuple) or T_UNKNOWN"""
        if isinstance(n, ast.Constant):
            return n.value if isinstance(n.value, (bool, int, str, type(None))) else T_UNKNOWN
        if isinstance(n, ast.Name):
            return env.get(n.id, T_UNKNOWN)
        if isinstance(n, ast.Tuple):
            return tuple(self.val(e, env) for e in n.elts)
        if isinstance(n, ast.Subscript):
            b, i = self.val(n.value, env), self.val(n.slice, env)
            if isinstance(b, tuple) and isinstance(i, int) and not isinstance(i, bool) and -len(b) <= i < len(b):
                return b[i]
            return T_UNKNOWN
        if isinstance(n, ast.IfExp):
            t = self.truth(n.test, env)
            if t is T_UNKNOWN:
                a, b = self.val(n.body, env), self.val(n.orelse, env)
                ta, tb = self.truth_of(a), self.truth_of(b)
                return ta if ta == tb and ta is not T_UNKNOWN else T_UNKNOWN
            return self.val(n.body if t else n.orelse, env)
        if isinstance(n, ast.BoolOp):
            v = T_UNKNOWN
            for x in n.values:
                v = self.val(x, env)
                t = self.truth_of(v)
                if t is T_UNKNOWN:
                    whole = self.truth(n, env)
                    return whole
                if t != isinstance(n.op, ast.And):
                    return v
            return v
        if isinstance(n, (ast.UnaryOp, ast.Compare)):
            return self.truth(n, env)
        if isinstance(n, ast.Call) and isinstance(n.func, ast.Name) and n.func.id == 'bool' and len(n.args) == 1 and not n.keywords:
            return self.truth(n.args[0], env)
        if isinstance(n, ast.NamedExpr) and isinstance(n.target, ast.Name):
            env[n.target.id] = self.val(n.value, env)
            return env[n.target.id]
        return T_UNKNOWN

    @staticmethod
    def truth_of(v):
        if v is T_UNKNOWN:
            return T_UNKNOWN
        if isinstance(v, _Live):
            return True
        if isinstance(v, tuple):
            return len(v) > 0
        return bool(v)

    def truth(self, n, env):
        if isinstance(n, ast.UnaryOp) and isinstance(n.op, ast.Not):
            t = self.truth(n.operand, env)
            return T_UNKNOWN if t is T_UNKNOWN else (not t)
        if isinstance(n, ast.BoolOp):
            ts = [self.truth(v, env) for v in n.values]
            if isinstance(n.op, ast.And):
                return False if any(t is False for t in ts) else True if all(t is True for t in ts) else T_UNKNOWN
            return True if any(t is True for t in ts) else False if all(t is False for t in ts) else T_UNKNOWN
        if isinstance(n, ast.Compare):
            left = self.val(n.left, env)
            res = True
            for op, c in zip(n.ops, n.comparators):
                right = self.val(c, env)
                t = self.compare(op, left, right)
                if t is T_UNKNOWN:
                    return T_UNKNOWN
                if not t:
                    res = False
                left = right
            return res
        return self.truth_of(self.val(n, env))

    @staticmethod
    def compare(op, a, b):
        if a is T_UNKNOWN or b is T_UNKNOWN:
            return T_UNKNOWN
        live = isinstance(a, _Live) or isinstance(b, _Live)
        if isinstance(op, (ast.Is, ast.IsNot, ast.Eq, ast.NotEq)):
            if live:
                if isinstance(a, _Live) and isinstance(b, _Live):
                    return T_UNKNOWN
                same = False                         # an exception class / instance / traceback is no constant
            elif isinstance(op, (ast.Is, ast.IsNot)):
                if not (a is None or b is None or isinstance(a, bool) or isinstance(b, bool)):
                    return T_UNKNOWN
                same = a is b
            else:
                same = a == b
            return same if isinstance(op, (ast.Is, ast.Eq)) else not same
        if live or isinstance(a, tuple) or isinstance(b, tuple) or a is None or b is None or isinstance(a, str) != isinstance(b, str):
            return T_UNKNOWN
        return {ast.Lt: a < b, ast.LtE: a <= b, ast.Gt: a > b, ast.GtE: a >= b}.get(type(op), T_UNKNOWN)

    def assign(self, t, v, env):
        if isinstance(t, ast.Name):
            env[t.id] = v
        elif isinstance(t, (ast.Tuple, ast.List)):
            for i, e in enumerate(t.elts):
                self.assign(e, v[i] if isinstance(v, tuple) and len(v) == len(t.elts) else T_UNKNOWN, env)

    def block(self, stmts, envs):
        for s in stmts:
            nxt = []
            for env in envs:
                nxt.extend(self.stmt(s, env))
            envs = nxt
            if len(envs) > 256:
                raise AnalysisError('Shadow %s: too many paths' % self.fn.name)
        return envs

    def stmt(self, s, env):
        if isinstance(s, ast.Return):
            self.results.append((False if s.value is None else self.truth(s.value, env), s))
            return []
        if isinstance(s, ast.Raise):
            return []                                     # raising inside __exit__ certainly does not swallow
        if isinstance(s, ast.If):
            t = self.truth(s.test, env)
            if t is T_UNKNOWN:
                return self.block(s.body, [dict(env)]) + self.block(s.orelse, [dict(env)])
            return self.block(s.body if t else s.orelse, [env])
        if isinstance(s, ast.Assign):
            v = self.val(s.value, env)
            for t in s.targets:
                self.assign(t, v, env)
            return [env]
        if isinstance(s, ast.AnnAssign):
            if s.value is not None:
                self.assign(s.target, self.val(s.value, env), env)
            return [env]
        if isinstance(s, ast.AugAssign):
            self.assign(s.target, T_UNKNOWN, env)
            return [env]
        if isinstance(s, (ast.Expr, ast.Pass, ast.Import, ast.ImportFrom, ast.Assert, ast.Global, ast.Nonlocal, ast.Delete)):
            return [env]
        if isinstance(s, (ast.With, ast.Try, ast.For, ast.While)):
            # not interpreted: every binding made inside becomes unknown, every return inside has an unknown value
            for x in ast.walk(s):
                if isinstance(x, ast.Name) and isinstance(x.ctx, ast.Store):
                    env[x.id] = T_UNKNOWN
                elif isinstance(x, ast.Return):
                    self.results.append((T_UNKNOWN if x.value is not None else False, x))
            return [env]
        self.results.append((T_UNKNOWN, s))
        return [env]


def exit_problems(cdef, functions=None):
    """-> (FunctionDef of __exit__ or None, [(truth, node)]); `__exit__ = lambda ...` / `__exit__ = <module function>` in the class body count."""
    fn = None
    for s in cdef.body:
        if isinstance(s, ast.FunctionDef) and s.name == '__exit__':
            fn = s
        elif isinstance(s, (ast.Assign, ast.AnnAssign)) and s.value is not None and \
                any(isinstance(t, ast.Name) and t.id == '__exit__' for t in (s.targets if isinstance(s, ast.Assign) else [s.target])):
            v = s.value
            if isinstance(v, ast.Lambda):
                fn = ast.copy_location(ast.FunctionDef(name='__exit__', args=v.args, body=[ast.copy_location(ast.Return(value=v.body), v)], decorator_list=[]), v)
            elif isinstance(v, ast.Name) and functions and v.id in functions:
                fn = functions[v.id]
            else:
                return s, [(T_UNKNOWN, v)]
    if fn is None:
        return None, []
    return fn, ExitEval(fn).run()


def rule_exit(ctx):
    r = Rule('C38-EXIT', 'no context manager class of Shadow.py swallows exceptions: every return of an __exit__ method is false (or unknown) when an exception is in flight', floor=3)
    tree = ctx.parse(SHADOW)
    users = {}
    for s in tree.body:
        if isinstance(s, ast.Assign) and isinstance(s.value, ast.Call) and isinstance(s.value.func, ast.Name):
            for t in s.targets:
                if isinstance(t, ast.Name):
                    users.setdefault(s.value.func.id, []).append(t.id)
    for qual, cdef in shadow_classes(tree):
        fn, results = exit_problems(cdef, module_functions(tree))
        if fn is None:
            continue
        key = 'Shadow.%s.__exit__' % qual
        r.inst(key, sample='%s: %d path(s): %s' % (key, len(results), sorted({str(t) for t, _ in results})))
        spell = ' / '.join('cython.' + u for u in users.get(cdef.name, [])[:3]) or 'cython.%s(...)' % qual
        bad = [(t, n) for t, n in results if t is True]
        if bad:
            n = bad[0][1]
            r.violate(key, SHADOW, n.lineno,
                      '%s returns a true value (`%s`) while an exception is in flight: an exception raised inside `with %s:` is swallowed when the module is run uncompiled; '
                      'the compiled module has no context manager there (GIL / critical-section / directive blocks are plain C blocks) and propagates it'
                      % (key, node_src(n.value, 50) if isinstance(n, ast.Return) and n.value is not None else node_src(n, 50), spell))
        for t, n in results:
            if t is T_UNKNOWN:
                r.info('%s: the truth of `%s` with an exception in flight is not decided (delegation / test on the exception kind)' % (key, node_src(n, 60)))
    pc = ast.parse(
        "class A:\n    def __exit__(self, t, v, tb):\n        return True\n"
        "class B:\n    def __exit__(self, t, v, tb):\n        if t is None:\n            return False\n        return t is not None\n"
        "class C:\n    def __exit__(self, *exc):\n        ok = exc[0] is None\n        return not exc[0] or ok\n"
        "class D:\n    def __exit__(self, t, v, tb):\n        return self._l.__exit__(t, v, tb)\n"
        "class E:\n    def __exit__(self, t, v, tb):\n        suppress = bool(t)\n        return suppress and 1\n")
    got = {c.name: sorted({str(t) for t, _ in exit_problems(c)[1]}) for c in pc.body}
    r.positive_control(got == {'A': ['True'], 'B': ['True'], 'C': ['False'], 'D': [T_UNKNOWN], 'E': ['True']}, '__exit__ returning True / `exc_type is not None`')
    return r


# ================================================================================================ C38-KIND
# cython.cast(cython.double, 7) / cython.double(7) / cython.declare(cython.double, 7) call the Python type at the end of the typedef() chain of the shadow
# name; the compiled module converts through the C type and back with the type's to-Python conversion.  Necessary condition: the builtin at the end of the
# chain is the Python type the compiler converts that C type to (int / float / complex / bool).
PYREX = 'Cython/Compiler/PyrexTypes.py'
BUILTIN_KINDS = ('int', 'float', 'complex', 'bool', 'str', 'bytes')


def _class_graph(tree):
    return {c.name: c for c in tree.body if isinstance(c, ast.ClassDef)}


def _class_attr(classes, cname, attr, seen=None):
    """Nearest class-level `attr = <node>` along the bases (depth first, left to right) -> value node or None."""
    seen = seen if seen is not None else set()
    if cname in seen or cname not in classes:
        return None
    seen.add(cname)
    c = classes[cname]
    for s in c.body:
        if isinstance(s, ast.Assign) and any(isinstance(t, ast.Name) and t.id == attr for t in s.targets):
            return s.value
        if isinstance(s, ast.AnnAssign) and isinstance(s.target, ast.Name) and s.target.id == attr and s.value is not None:
            return s.value
    for b in c.bases:
        if isinstance(b, ast.Name):
            v = _class_attr(classes, b.id, attr, seen)
            if v is not None:
                return v
    return None


def compiler_type_kinds(tree):
    """C type name N that `cython.N` resolves by table lookup (rows (1, 0, N) of modifiers_and_name_to_type, keys of fixed_sign_int_types)
    -> (python kind or None, class name of the type object, line)."""
    assigns, rows = {}, {}
    for n in tree.body:
        if isinstance(n, ast.Assign) and len(n.targets) == 1 and isinstance(n.targets[0], ast.Name):
            assigns[n.targets[0].id] = n.value
    fx, mods = assigns.get('fixed_sign_int_types'), assigns.get('modifiers_and_name_to_type')
    if not isinstance(fx, ast.Dict) or not isinstance(mods, ast.Dict):
        raise AnalysisError('PyrexTypes.fixed_sign_int_types / modifiers_and_name_to_type not found as dict literals')
    for k, v in zip(mods.keys, mods.values):
        try:
            t = ast.literal_eval(k)
        except Exception:
            continue
        if isinstance(t, tuple) and len(t) == 3 and t[0] == 1 and t[1] == 0 and isinstance(t[2], str):
            rows[t[2]] = v
    for k, v in zip(fx.keys, fx.values):
        if isinstance(k, ast.Constant) and isinstance(k.value, str) and isinstance(v, ast.Tuple) and len(v.elts) == 2:
            rows[k.value] = v.elts[1]
    classes = _class_graph(tree)
    out = {}
    for name, v in rows.items():
        ctor = None
        hops = 0
        while isinstance(v, ast.Name) and v.id in assigns and hops < 5:
            v, hops = assigns[v.id], hops + 1
        if isinstance(v, ast.Call) and isinstance(v.func, ast.Name) and v.func.id in classes:
            ctor = v.func.id
        if ctor is None:
            out[name] = (None, None, getattr(v, 'lineno', 1), 'type object not built by a direct constructor call')
            continue

        def flag(a):
            x = _class_attr(classes, ctor, a)
            return isinstance(x, ast.Constant) and bool(x.value)
        conv = _class_attr(classes, ctor, 'to_py_function')
        conv = conv.value if isinstance(conv, ast.Constant) and isinstance(conv.value, str) else ''
        if 'PyBool' in conv:
            kind, why = 'bool', 'to_py_function %s' % conv
        elif 'PyUnicode' in conv:
            kind, why = None, 'character type: converted with %s (a str of length 1), documented as int-or-str in pure mode' % conv
        elif flag('is_complex'):
            kind, why = 'complex', 'is_complex'
        elif flag('is_float'):
            kind, why = 'float', 'is_float'
        elif flag('is_int'):
            kind, why = 'int', 'is_int'
        else:
            kind, why = None, 'not a numeric type'
        out[name] = (kind, ctor, v.lineno, why)
    return out


def shadow_type_bases(tree, model_cls):
    """Statement-order pass over the module body of Shadow.py: name -> (builtin at the end of the chain of typedef() calls | None, line, detail).
    Handles `N = typedef(B, ...)`, plain aliases `N = M`, and `gs[<key>] = typedef(B, ...)` inside for loops over literal lists (keys evaluated over the
    finite sets the loop variables range over, by ShadowModel.scalars); any other value bound to a name makes it unknown."""
    sm = model_cls(ast.Module(body=[], type_ignores=[]))
    kinds, galias, consts = {}, set(), {}

    def base_of(call):
        """typedef(<B>, ...) -> resolved kind of B at this point of the module, else None"""
        if not (isinstance(call, ast.Call) and isinstance(call.func, ast.Name) and call.func.id == 'typedef' and call.args):
            return None
        b = call.args[0]
        if isinstance(b, ast.Name):
            if b.id in kinds:
                return kinds[b.id][0]
            if b.id in BUILTIN_KINDS:
                return b.id
        return None

    def bind(name, value, line):
        if isinstance(value, ast.Call) and isinstance(value.func, ast.Name) and value.func.id == 'typedef':
            k = base_of(value)
            kinds[name] = (k, line, node_src(value, 60))
        elif isinstance(value, ast.Name) and value.id in kinds:
            kinds[name] = kinds[value.id]
        elif isinstance(value, ast.Name) and value.id in BUILTIN_KINDS:
            kinds[name] = (value.id, line, 'alias of the builtin %s' % value.id)
        else:
            kinds[name] = (None, line, 'bound to `%s`, not a direct typedef(<name>, ...) call' % (node_src(value, 40) if value is not None else '?'))

    def block(stmts, env):
        for s in stmts:
            if isinstance(s, (ast.Assign, ast.AnnAssign)):
                value = s.value
                if value is None:
                    continue
                targets = s.targets if isinstance(s, ast.Assign) else [s.target]
                for t in targets:
                    if isinstance(t, ast.Name):
                        if isinstance(value, ast.Call) and isinstance(value.func, ast.Name) and value.func.id == 'globals' and not value.args:
                            galias.add(t.id)
                        try:
                            lit = ast.literal_eval(value)
                        except Exception:
                            lit = None
                        if isinstance(lit, (list, tuple)) and all(isinstance(x, (str, int)) for x in lit):
                            consts[t.id] = tuple(lit)
                        else:
                            consts.pop(t.id, None)
                        bind(t.id, value, s.lineno)
                    elif isinstance(t, ast.Subscript) and isinstance(t.value, ast.Name) and t.value.id in galias:
                        keys = sm.scalars(t.slice, env)
                        if keys is None:
                            continue
                        for k in keys:
                            if isinstance(k, str):
                                bind(k, value, s.lineno)
            elif isinstance(s, (ast.FunctionDef, ast.ClassDef)):
                kinds[s.name] = (None, s.lineno, 'a %s' % type(s).__name__)
            elif isinstance(s, ast.If):
                if isinstance(s.test, ast.Name) and s.test.id == 'TYPE_CHECKING':
                    block(s.orelse, env)
                else:
                    block(s.body, env)
                    block(s.orelse, env)
            elif isinstance(s, ast.For):
                sm.consts = consts
                vals = sm.sequence(s.iter, env)
                env2 = dict(env)
                for x in ast.walk(s.target):
                    if isinstance(x, ast.Name):
                        env2.pop(x.id, None)
                if isinstance(s.target, ast.Name) and vals is not None:
                    env2[s.target.id] = vals
                block(s.body, env2)
            elif isinstance(s, (ast.With, ast.Try, ast.While)):
                block(s.body, env)
    block(tree.body, {})
    return kinds


def kind_problems(ptree, stree, model_cls):
    comp = compiler_type_kinds(ptree)
    shadow = shadow_type_bases(stree, model_cls)
    for name in sorted(comp):
        kind, ctor, line, why = comp[name]
        yield name, kind, ctor, why, shadow.get(name)


def rule_kind(ctx):
    from .pC38 import ShadowModel
    r = Rule('C38-KIND', 'the Python type at the end of the typedef() chain of each Shadow C-type name (what cast / declare / the type call apply to the value uncompiled) is the '
             'type the compiler converts that C type to: int / float / complex / bool', floor=12)
    for name, kind, ctor, why, sh in kind_problems(ctx.parse(PYREX), ctx.parse(SHADOW), ShadowModel):
        key = 'kind:' + name
        if kind is None:
            r.info('%s: not compared (%s)' % (key, why))
            continue
        if sh is None:
            r.info('%s: no typedef binding found in Shadow.py (existence is decided by C38-TYPES)' % key)
            continue
        base, line, detail = sh
        r.inst(key, sample='cython.%s: compiler %s (%s, %s) / Shadow %s' % (name, kind, ctor, why, base))
        if base is None:
            r.info('%s: the base type of the Shadow binding is not decidable (%s)' % (key, detail))
        elif base != kind:
            r.violate(key, SHADOW, line,
                      'Shadow binds cython.%s to a typedef whose base Python type is `%s` (%s), but the compiler treats %s as a C %s type (%s: %s): '
                      'cython.cast(cython.%s, v) / cython.%s(v) / cython.declare(cython.%s, v) yield %s(v) when run uncompiled and a Python %s when compiled'
                      % (name, base, detail, name, kind, ctor, why, name, name, name, base, kind))
    pc_p = ast.parse("class CType: pass\nclass CNumericType(CType):\n    is_numeric = 1\nclass CIntType(CNumericType):\n    is_int = 1\n"
                     "class CBIntType(CIntType):\n    to_py_function = '__Pyx_PyBool_FromLong'\nclass CFloatType(CNumericType):\n    is_float = 1\n"
                     "c_int_type = CIntType(2)\nc_double_type = CFloatType(6)\nc_bint_type = CBIntType(2)\n"
                     "fixed_sign_int_types = {'bint': (1, c_bint_type)}\nmodifiers_and_name_to_type = {(1, 0, 'int'): c_int_type, (1, 0, 'double'): c_double_type, (0, 0, 'int'): c_int_type}\n")
    pc_s = ast.parse("py_int = typedef(int, 'int')\npy_float = typedef(float)\ngs = globals()\nfor name in ['int', 'double']:\n    gs[name] = typedef(py_int, name)\n"
                     "bint = typedef(int, 'bint')\n")
    got = {n: (k, sh[0] if sh else None) for n, k, c, w, sh in kind_problems(pc_p, pc_s, ShadowModel)}
    r.positive_control(got == {'int': ('int', 'int'), 'double': ('float', 'int'), 'bint': ('bool', 'int')}, 'double / bint bound to an int-based typedef')
    return r


# ================================================================================================ C38-PRANGE
# cython.parallel.prange follows the range() argument convention: prange(stop) / prange(start, stop) / prange(start, stop, step).  Both sides are
# interpreted by the world evaluator (Mini) with the positional arguments as opaque symbols: the compiler's ParallelRangeNode.analyse_declarations
# (which slot of start/stop/step each positional argument is stored in) and the shadow prange() (which range(...) call it returns).
NODES = 'Cython/Compiler/Nodes.py'


class _RangeCall:
    def __init__(self, args, node):
        self.args, self.node = tuple(args), node

    def triple(self):
        a = self.args
        if len(a) == 1:
            return (0, a[0], 1)
        if len(a) == 2:
            return (a[0], a[1], 1)
        return a if len(a) == 3 else None

    def __repr__(self):
        return 'range(%s)' % ', '.join(map(repr, self.args))


def _class_consts(cdef):
    """class-level `a = b = <constant>` bindings (defaults of instance attributes)."""
    out = {}
    for s in cdef.body:
        if isinstance(s, ast.Assign) and isinstance(s.value, ast.Constant):
            for t in s.targets:
                if isinstance(t, ast.Name):
                    out[t.id] = s.value.value
    return out


def prange_compiler_slots(ctx, arity, syms):
    """(start, stop, step) after ParallelRangeNode.analyse_declarations for `arity` positional arguments; None slot = not given."""
    cdef = None
    for n in ctx.parse(NODES).body:
        if isinstance(n, ast.ClassDef) and n.name == 'ParallelRangeNode':
            cdef = n
    if cdef is None:
        raise AnalysisError('Nodes.ParallelRangeNode vanished')
    fn = [f for f in cdef.body if isinstance(f, ast.FunctionDef) and f.name == 'analyse_declarations']
    if not fn:
        raise AnalysisError('ParallelRangeNode.analyse_declarations vanished')
    attrs = _class_consts(cdef)
    attrs.update(args=tuple(syms[:arity]), target=Sym('target'), else_clause=None)
    m = Mini(what='ParallelRangeNode.analyse_declarations')
    rows = set()
    for st, flow, val in m.run(fn[0], State(attrs=attrs), {}):
        if flow == 'raise':
            continue
        rows.add((st.attrs.get('start', UNK), st.attrs.get('stop', UNK), st.attrs.get('step', UNK)))
    return rows


def prange_shadow_calls(fn, arity, syms):
    """Every value the shadow prange() may return for `arity` positional arguments -> list of _RangeCall / other values."""
    def rec(n, st, mini, args, kwargs):
        f = n.func
        if isinstance(f, ast.Name) and f.id == 'range' and not kwargs and not any(isinstance(a, ast.Starred) for a in n.args):
            return _RangeCall(args, n)
        if isinstance(f, ast.Name) and f.id in ('iter', 'list', 'tuple') and len(args) == 1 and isinstance(args[0], _RangeCall):
            return args[0]
        return NotImplemented
    a = fn.args
    params = [x.arg for x in a.posonlyargs + a.args]
    if a.vararg is not None or len(params) - 1 < arity:
        return None
    m = Mini(on_call=rec, what='Shadow prange')
    out = []
    for st, flow, val in m.run(fn, State(), dict(zip(params[1:], syms[:arity]))):
        out.append((flow, val))
    return out


def prange_problems(ctx, fn):
    """-> [(arity, expected triple, source of the expectation, got list, problem or None)]"""
    syms = [Sym('arg%d' % i) for i in range(3)]
    documented = {1: (None, syms[0], None), 2: (syms[0], syms[1], None), 3: (syms[0], syms[1], syms[2])}
    res = []
    for arity in (1, 2, 3):
        src = 'ParallelRangeNode.analyse_declarations'
        try:
            rows = prange_compiler_slots(ctx, arity, syms) if ctx is not None else set()
        except AnalysisError:
            rows = set()
        if len(rows) != 1 or any(x is UNK for x in next(iter(rows))):
            rows, src = {documented[arity]}, 'the documented signature prange([start,] stop[, step]) (the compiler side could not be evaluated)'
        start, stop, step = next(iter(rows))
        want = (0 if start is None else start, stop, 1 if step is None else step)
        got = prange_shadow_calls(fn, arity, syms)
        problem = None
        if got is None:
            problem = 'cannot be called with %d positional argument(s)' % arity
        else:
            for flow, val in got:
                if flow == 'raise':
                    problem = 'raises'
                elif not isinstance(val, _RangeCall):
                    problem = UNK if val is UNK or val is None and flow != 'return' else 'returns %r, not a range' % (val,)
                elif val.triple() is None or any(x is UNK for x in val.triple()):
                    problem = UNK
                elif val.triple() != want:
                    problem = 'returns %r, i.e. start=%r stop=%r step=%r' % ((val,) + val.triple())
                if problem is not None:
                    break
        d = documented[arity]
        if problem and problem is not UNK and got and all(isinstance(v, _RangeCall) and v.triple() == (0 if d[0] is None else d[0], d[1], 1 if d[2] is None else d[2]) for f, v in got):
            src = 'COMPILER:' + src          # the shadow side follows the documented range() convention, the compiler side does not
        res.append((arity, want, src, got, problem))
    return res


def rule_prange(ctx):
    from .pC38 import ShadowModel, Obj
    r = Rule('C38-PRANGE', 'the prange() of the object registered as cython.parallel returns range(start, stop, step) with the positional arguments in the slots '
             'ParallelRangeNode.analyse_declarations stores them in (1 -> stop; 2 -> start, stop; 3 -> start, stop, step)', floor=3)
    sh = ShadowModel(ctx.parse(SHADOW), SHADOW)
    fn = None
    if 'cython.parallel' in sh.sysmods:
        o = sh.getattr(sh.sysmods['cython.parallel'][0], 'prange')
        if isinstance(o, Obj) and isinstance(o.node, ast.FunctionDef):
            fn = o.node
    if fn is None:
        r.info('no prange method on the object registered as cython.parallel (reported by C38-PAR / C38-SUBMOD)')
        for arity in (1, 2, 3):
            r.inst('prange:arity%d' % arity)
    else:
        for arity, want, src, got, problem in prange_problems(ctx, fn):
            key = 'prange:arity%d' % arity
            call = 'prange(%s)' % ', '.join('arg%d' % i for i in range(arity))
            r.inst(key, sample='%s -> %s (expected start=%r stop=%r step=%r from %s)' % (call, got, want[0], want[1], want[2], src.replace('COMPILER:', '').split(' (')[0]))
            if problem is UNK:
                r.info('%s: the value returned by the shadow prange is not decidable' % key)
            elif problem:
                blame = (NODES, 1) if src.startswith('COMPILER:') else (SHADOW, fn.lineno)
                src = src.replace('COMPILER:', '')
                r.violate(key, blame[0], blame[1],
                          'Shadow %s.%s: %s %s; the compiled loop iterates start=%r, stop=%r, step=%r (%s; an omitted start is 0, an omitted step 1): '
                          '`for i in prange(...)` visits different indices when the module is run uncompiled'
                          % ('cython.parallel', fn.name, call, problem, want[0], want[1], want[2], src))
    pc = ast.parse("class P:\n    def prange(self, start=0, stop=None, step=1, nogil=False):\n        if stop is None:\n            stop = start\n        return range(start, stop, step)\n"
                   "    def ok(self, first, second=None, third=None):\n        if second is None:\n            return iter(range(first))\n        if third is None:\n            third = 1\n"
                   "        return range(first, second, third)\n").body[0]
    bad = [a for a, w, s, g, p in prange_problems(None, pc.body[0]) if p and p is not UNK]
    good = [a for a, w, s, g, p in prange_problems(None, pc.body[1]) if p]
    r.positive_control(bad == [1] and good == [], 'prange(n) that forgets start = 0')
    return r


# ================================================================================================ C38-COP
# The compiler maps cython.cdiv / cython.cmod / cython.cast to the C operation their shadow emulation stands for.  TransformBuiltinMethods.visit_SimpleCallNode
# / visit_GeneralCallNode are interpreted by the world evaluator in the worlds function = 'cdiv' | 'cmod' | 'cast' with two opaque operands; every node
# construction (a call of a function / class of ExprNodes) and every later attribute store on the constructed node is recorded per path.
EXPRNODES = 'Cython/Compiler/ExprNodes.py'


class Built(Sym):
    """A node constructed on the interpreted path: Built.kind = callee name, Built.bound = arguments bound by name."""
    def __init__(self, kind, bound, node):
        Sym.__init__(self, 'built:' + kind)
        self.kind, self.bound, self.node = kind, bound, node


class Mini2(Mini):
    """Mini + (a) attribute stores on non-self objects recorded in the trace as ('store', object, attr, value, node) and visible to later loads on the same
    path, (b) '%'-formatting of constant strings, (c) tuples as the model of list literals: `x = []`, `x.append(v)`, `x.extend(t)` rebind the name."""
    lists = False

    def ev(self, n, st):
        if isinstance(n, ast.Attribute) and not is_self_attr(n):
            b = self.ev(n.value, st)
            if isinstance(b, Sym):
                for e in reversed(st.trace):
                    if e[0] == 'store' and e[1] is b and e[2] == n.attr:
                        return e[3]
            if self.oracle is not None:
                v = self.oracle(n, st, self)
                if v is not NotImplemented:
                    return v
            if isinstance(b, Sym):
                return b.attrs.get(n.attr, UNK)
            return UNK
        if isinstance(n, ast.BinOp) and isinstance(n.op, ast.Mod):
            a, b = self.ev(n.left, st), self.ev(n.right, st)
            if isinstance(a, str) and (isinstance(b, str) or isinstance(b, tuple) and all(isinstance(x, str) for x in b)):
                try:
                    return a % b
                except (TypeError, ValueError):
                    return UNK
            return UNK
        if self.lists and isinstance(n, ast.List):
            if self.oracle is not None:
                v = self.oracle(n, st, self)
                if v is not NotImplemented:
                    return v
            if any(isinstance(e, ast.Starred) for e in n.elts):
                return UNK
            return tuple(self.ev(e, st) for e in n.elts)
        return Mini.ev(self, n, st)

    def call(self, n, st):
        f = n.func
        if self.lists and isinstance(f, ast.Attribute) and isinstance(f.value, ast.Name) and f.attr in ('append', 'extend') and len(n.args) == 1 and not n.keywords \
                and isinstance(st.env.get(f.value.id, UNK), tuple):
            v = self.ev(n.args[0], st)
            cur = st.env[f.value.id]
            if f.attr == 'append':
                st.env[f.value.id] = cur + (v,)
            else:
                st.env[f.value.id] = cur + v if isinstance(v, tuple) else UNK
            return None
        return Mini.call(self, n, st)

    def assign(self, t, v, st):
        if isinstance(t, ast.Attribute) and not is_self_attr(t):
            b = self.ev(t.value, st)
            if isinstance(b, Sym):
                st.trace.append(('store', b, t.attr, v, t))
            return
        Mini.assign(self, t, v, st)


def _callee_name(f):
    return f.attr if isinstance(f, ast.Attribute) else f.id if isinstance(f, ast.Name) else None


def _signature(fn, skip_self=False):
    a = fn.args
    params = [x.arg for x in a.posonlyargs + a.args]
    return params[1:] if skip_self else params


def exprnodes_constructors(ctx):
    """name -> positional parameter names, for the module-level functions and classes of ExprNodes (a class takes `pos` positionally, the rest by keyword).
    Only the `def` / `class` header lines are parsed (ExprNodes.py has 15000 lines)."""
    def build():
        import re
        text = ctx.read(EXPRNODES)
        out = {}
        for m in re.finditer(r'^class (\w+)\b', text, re.M):
            out[m.group(1)] = ['pos']
        for m in re.finditer(r'^def (\w+)\(', text, re.M):
            end = re.compile(r'\)\s*(->[^:]+)?:\s*(#.*)?$', re.M).search(text, m.end() - 1)
            if end is None:
                continue
            try:
                fn = ast.parse(text[m.start():end.end()] + '\n    pass\n').body[0]
            except SyntaxError:
                continue
            out[m.group(1)] = _signature(fn)
        return out
    return ctx.memo('C38-exprnodes-ctors', build)


def cop_paths(ctx, fn, function, ctors, icd, general=False):
    """Interpret visit_SimpleCallNode / visit_GeneralCallNode for `cython.<function>(A0, A1)` -> (A0, A1, T0, T1, [(error?, [Built], [stores], flow, value)])"""
    A = [Sym('operand-expression-%d' % i) for i in range(2)]
    T = [Sym('type-named-by-argument-%d' % i) for i in range(2)]
    for i in range(2):
        A[i].methods['analyse_as_type'] = (lambda i: (lambda *a, **k: T[i]))(i)
        A[i].attrs['pos'] = Sym('pos')
    fnode = Sym('function-node', dict(pos=Sym('pos'), is_name=False))
    args = (A[0], A[1])
    node = Sym('call-node', dict(function=fnode, args=args, pos=Sym('pos'), positional_args=Sym('positional-args', dict(args=args)),
                                 keyword_args=Sym('keyword-args')))
    tables = {}

    def table(name):
        if name not in tables:
            from .pC38 import class_str_set
            try:
                tables[name] = class_str_set(icd, name, PTT)[0]
            except AnalysisError:
                tables[name] = None
        return tables[name]

    def oracle(n, st, mini):
        if isinstance(n, ast.Call) and isinstance(n.func, ast.Attribute) and n.func.attr == 'as_cython_attribute':
            return function
        if isinstance(n, ast.Compare) and len(n.ops) == 1 and isinstance(n.ops[0], (ast.In, ast.NotIn)) and isinstance(n.comparators[0], ast.Attribute) \
                and isinstance(n.comparators[0].value, ast.Name) and n.comparators[0].value.id == icd.name:
            tb = table(n.comparators[0].attr)
            left = mini.ev(n.left, st)
            if tb is None or not isinstance(left, str):
                return UNK
            return (left in tb) == isinstance(n.ops[0], ast.In)
        if isinstance(n, ast.Call) and isinstance(n.func, ast.Name) and n.func.id == 'isinstance' and len(n.args) == 2:
            v = mini.ev(n.args[0], st)
            if isinstance(v, Built) and v.kind[:1].isupper():
                names = [_callee_name(x) for x in (n.args[1].elts if isinstance(n.args[1], ast.Tuple) else [n.args[1]])]
                if all(names) and v.kind not in names:
                    return False          # a node built by calling class K is not an instance of an unrelated class name ... unless K derives from it
            return UNK
        return NotImplemented

    def rec(n, st, mini, a, kw):
        name = _callee_name(n.func)
        if name == 'error':
            st.trace.append(('error', n))
            return NotImplemented
        if name in ctors and not any(isinstance(x, ast.Starred) for x in n.args) and not any(k.arg is None for k in n.keywords) and \
                (isinstance(n.func, ast.Name) or isinstance(n.func.value, ast.Name)):
            bound = dict(zip(ctors[name], a))
            bound.update(kw)
            b = Built(name, bound, n)
            st.trace.append(('build', b))
            return b
        return NotImplemented
    m = Mini2(oracle, rec, what='TransformBuiltinMethods.%s[%s]' % (fn.name, function))
    pname = fn.args.args[1].arg
    out = []
    for st, flow, val in m.run(fn, State(), {pname: node}):
        if flow == 'raise':
            continue
        err = any(e[0] == 'error' for e in st.trace)
        built = [e[1] for e in st.trace if e[0] == 'build']
        stores = [e for e in st.trace if e[0] == 'store']
        out.append((err, built, stores, flow, val))
    return A, T, out


COP_EXPECT = {'cdiv': ('binop', '/'), 'cmod': ('binop', '%'), 'cast': ('cast', None)}


def cop_problems(ctx, cdef, icd, ctors, methods=('visit_SimpleCallNode', 'visit_GeneralCallNode')):
    """-> [(key, sample, line, problem or None)]"""
    res = []
    fns = {f.name: f for f in cdef.body if isinstance(f, ast.FunctionDef)}
    for mname in methods:
        fn = fns.get(mname)
        if fn is None:
            raise AnalysisError('%s.%s vanished' % (cdef.name, mname))
        for function, (what, op) in sorted(COP_EXPECT.items()):
            if mname == 'visit_GeneralCallNode' and what != 'cast':
                continue            # calls with keyword arguments: only cast(T, v, typecheck=...) is interpreted
            key = 'cop:%s:%s' % (function, 'call' if mname == 'visit_SimpleCallNode' else 'call-with-keywords')
            A, T, paths = cop_paths(ctx, fn, function, ctors, icd)
            ok_paths = [p for p in paths if not p[0]]
            problem, line = None, fn.lineno
            if not ok_paths:
                problem = 'every path of %s for cython.%s(a, b) reports an error' % (mname, function)
            for err, built, stores, flow, val in ok_paths:
                want_kind = 'binop_node' if what == 'binop' else 'TypecastNode'
                nodes = [b for b in built if b.kind == want_kind]
                if not nodes:
                    problem = 'a path that reports no error constructs no %s for cython.%s(a, b): the call is compiled as an ordinary call / left to later phases' % (want_kind, function)
                    break
                b = nodes[-1]
                line = b.node.lineno
                if what == 'binop':
                    got_op, o1, o2 = b.bound.get('operator', UNK), b.bound.get('operand1', UNK), b.bound.get('operand2', UNK)
                    cdivision = b.bound.get('cdivision', None)
                    for e in stores:
                        if e[1] is b and e[2] == 'cdivision':
                            cdivision = e[3]
                    if got_op is UNK or o1 is UNK or o2 is UNK or cdivision is UNK:
                        problem = UNK
                    elif got_op != op:
                        problem = 'cython.%s(a, b) is compiled to binop_node(operator=%r): the compiled module computes `a %s b` where Shadow.%s computes C `a %s b`' % (function, got_op, got_op, function, op)
                    elif (o1, o2) != (A[0], A[1]):
                        problem = 'cython.%s(a, b) is compiled to `%s %s %s`: operands are not (first argument, second argument)' % (
                            function, 'b' if o1 is A[1] else 'a' if o1 is A[0] else '?', op, 'b' if o2 is A[1] else 'a' if o2 is A[0] else '?')
                    elif cdivision is not True:
                        problem = ('the node built for cython.%s(a, b) does not get cdivision = True (found %r): with the default directive cdivision=False the compiled '
                                   'module uses Python floor semantics for negative operands, Shadow.%s emulates C truncation' % (function, cdivision, function))
                else:
                    ty, operand = b.bound.get('type', UNK), b.bound.get('operand', UNK)
                    if ty is UNK or operand is UNK:
                        problem = UNK
                    elif ty is not T[0]:
                        problem = 'cython.cast(T, v): the `type` of the TypecastNode is %r, not the type named by the first argument' % (ty,)
                    elif operand is not A[1]:
                        problem = 'cython.cast(T, v): the `operand` of the TypecastNode is %s, not the second argument: the compiled module casts the wrong expression' % (
                            'the first argument (the type expression)' if operand is A[0] else repr(operand))
                if problem is not None:
                    break
            res.append((key, '%s: %d path(s), %d without error' % (key, len(paths), len(ok_paths)), line, problem))
    return res


def cast_keywords(cdef):
    """Keyword names visit_GeneralCallNode accepts for cython.cast: string constants tested against / looked up in the variable holding the
    compile-time keyword dict, inside the branch guarded by == 'cast'."""
    fn = [f for f in cdef.body if isinstance(f, ast.FunctionDef) and f.name == 'visit_GeneralCallNode']
    if not fn:
        raise AnalysisError('%s.visit_GeneralCallNode vanished' % cdef.name)
    out = set()
    for branch in ast.walk(fn[0]):
        if not (isinstance(branch, ast.If) and any(isinstance(c, ast.Constant) and c.value == 'cast' for c in ast.walk(branch.test))):
            continue
        kwvars = set()
        for n in ast.walk(branch):
            if isinstance(n, ast.Assign) and any(isinstance(x, ast.Attribute) and x.attr == 'keyword_args' for x in ast.walk(n.value)):
                kwvars |= {t.id for t in n.targets if isinstance(t, ast.Name)}
        for n in ast.walk(branch):
            if isinstance(n, ast.Compare) and len(n.ops) == 1 and isinstance(n.ops[0], (ast.In, ast.NotIn)) and isinstance(n.left, ast.Constant) \
                    and isinstance(n.left.value, str) and isinstance(n.comparators[0], ast.Name) and n.comparators[0].id in kwvars:
                out.add(n.left.value)
            elif isinstance(n, ast.Call) and isinstance(n.func, ast.Attribute) and n.func.attr in ('get', 'pop') and isinstance(n.func.value, ast.Name) \
                    and n.func.value.id in kwvars and n.args and isinstance(n.args[0], ast.Constant) and isinstance(n.args[0].value, str):
                out.add(n.args[0].value)
            elif isinstance(n, ast.Subscript) and isinstance(n.value, ast.Name) and n.value.id in kwvars and isinstance(n.slice, ast.Constant) and isinstance(n.slice.value, str):
                out.add(n.slice.value)
    return out


# ---- ccall / cfunc -> overridable, and the (value, check) slot order of except_val between its writers and DefNode.as_cfunction
def as_cfunction_signature(ctx):
    fn = _method(ctx, NODES, 'DefNode', 'as_cfunction')
    a = fn.args
    params = [x.arg for x in a.args[1:]]
    defaults = {}
    for p, d in zip(params[len(params) - len(a.defaults):], a.defaults):
        defaults[p] = d.value if isinstance(d, ast.Constant) else UNK
    return fn, params, defaults


def overridable_problems(ctx, fn, params, defaults):
    want = {'ccall': True, 'cfunc': False}
    res = {}
    for w, rows, _ in exc_table(ctx, fn, params):
        for row in rows:
            kw = row[4]
            got = kw.get('overridable', defaults.get('overridable', UNK))
            k = 'overridable:' + w['kind']
            cur = res.setdefault(k, [got, row[3].lineno, 0])
            cur[2] += 1
            if got is not want[w['kind']]:
                cur[0], cur[1] = got, row[3].lineno
    return [(k, v[0], want[k.split(':')[1]], v[1], v[2]) for k, v in sorted(res.items())]


def except_reader_slots(ctx, fn):
    """DefNode.as_cfunction with except_val = (S0, S1): which element reaches exception_value= / exception_check= of the declarator -> {keyword: index}"""
    S = (Sym('except_val[0]'), Sym('except_val[1]'))
    seen = []

    def rec(n, st, mini, a, kw):
        if 'exception_check' in kw or 'exception_value' in kw:
            st.trace.append(('decl', kw, n))
        return NotImplemented
    m = Mini2(None, rec, what='DefNode.as_cfunction')
    out = {}
    for st, flow, val in m.run(fn, State(), {'except_val': S, 'cfunc': None, 'scope': None}):
        if flow == 'raise':
            continue
        for e in st.trace:
            if e[0] == 'decl':
                for k in ('exception_value', 'exception_check'):
                    v = e[1].get(k, UNK)
                    idx = 0 if v is S[0] else 1 if v is S[1] else None
                    out.setdefault(k, set()).add(idx)
                seen.append(e[2])
    return out, (seen[0].lineno if seen else fn.lineno)


def except_writer_slots(ctx, visit_fn, params, parse_fn):
    """-> [(writer name, index of the check flag, index of the value, line)] read from the tuples the writers build."""
    out = []
    idx = set()
    line = visit_fn.lineno
    for w, rows, (E, R, A) in exc_table(ctx, visit_fn, params):
        for row in rows:
            ev = row[1]
            if isinstance(ev, tuple) and len(ev) == 2:
                b = [i for i, x in enumerate(ev) if isinstance(x, bool)]
                if len(b) == 1:
                    idx.add(b[0])
                    line = row[3].lineno
    out.append(('AdjustDefByDirectives.%s' % visit_fn.name, idx, None, line))
    V = Sym('exceptval-argument')

    def oracle(n, st, mini):
        if isinstance(n, ast.Call) and isinstance(n.func, ast.Name) and n.func.id == 'isinstance':
            return UNK
        return NotImplemented
    m = Mini2(oracle, None, what='InterpretCompilerDirectives.%s' % parse_fn.name)
    pnames = [x.arg for x in parse_fn.args.args[1:]]
    cidx, vidx, pline = set(), set(), parse_fn.lineno
    for st, flow, val in m.run(parse_fn, State(), dict(zip(pnames, ('exceptval', (V,), None, Sym('pos'))))):
        if flow != 'return' or not (isinstance(val, tuple) and len(val) == 2 and val[0] == 'exceptval' and isinstance(val[1], tuple) and len(val[1]) == 2):
            continue
        cidx |= {i for i, x in enumerate(val[1]) if isinstance(x, bool)}
        vidx |= {i for i, x in enumerate(val[1]) if x is V}
    out.append(('InterpretCompilerDirectives.%s' % parse_fn.name, cidx, vidx, pline))
    return out


def rule_cop(ctx):
    from .pC38 import class_def
    r = Rule('C38-COP', 'cython.cdiv / cmod / cast are compiled to the C operation their shadow emulation stands for (binop `/` / `%` with cdivision=True on the operands in '
             'order; TypecastNode(type named by argument 0, operand = argument 1)); @ccall passes overridable=True and @cfunc overridable=False to as_cfunction; '
             'as_cfunction unpacks except_val in the (value, check) order its writers build', floor=7)
    ptt = ctx.parse(PTT)
    tbm, icd = class_def(ptt, 'TransformBuiltinMethods', PTT), class_def(ptt, 'InterpretCompilerDirectives', PTT)
    ctors = exprnodes_constructors(ctx)
    for need in ('binop_node', 'TypecastNode'):
        if need not in ctors:
            raise AnalysisError('ExprNodes.%s vanished' % need)
    for key, sample, line, problem in cop_problems(ctx, tbm, icd, ctors):
        r.inst(key, sample=sample)
        if problem is UNK:
            r.info('%s: the arguments of the constructed node could not be evaluated' % key)
        elif problem:
            r.violate(key, PTT, line, 'TransformBuiltinMethods: %s' % problem)
    # ---- overridable
    visit = _method(ctx, PTT, 'AdjustDefByDirectives', 'visit_DefNode')
    acf, params, defaults = as_cfunction_signature(ctx)
    for key, got, want, line, n in overridable_problems(ctx, visit, params, defaults):
        r.inst(key, sample='%s: as_cfunction(overridable=%r) on %d path(s)' % (key, got, n))
        if got is UNK:
            r.info('%s: the overridable argument could not be evaluated' % key)
        elif got is not want:
            kind = key.split(':')[1]
            r.violate(key, PTT, line, 'AdjustDefByDirectives.visit_DefNode: the @cython.%s branch calls as_cfunction(overridable=%r), must be %r: %s'
                      % (kind, got, want, 'a @ccall function becomes a plain cdef function, Python callers (which work when the module is run uncompiled) get AttributeError'
                         if kind == 'ccall' else 'a @cfunc function becomes cpdef: it stays visible from Python and dispatches through the instance dict'))
    # ---- except_val slot order
    parse = [f for f in icd.body if isinstance(f, ast.FunctionDef) and f.name == 'try_to_parse_directive']
    if not parse:
        raise AnalysisError('InterpretCompilerDirectives.try_to_parse_directive vanished')
    reader, rline = except_reader_slots(ctx, acf)
    for writer, cidx, vidx, line in except_writer_slots(ctx, visit, params, parse[0]):
        key = 'except-slots:' + writer
        r.inst(key, sample='%s builds except_val with the check flag at %s, as_cfunction reads exception_check from %s' % (writer, sorted(cidx), sorted(reader.get('exception_check', []), key=str)))
        rc, rv = reader.get('exception_check', set()), reader.get('exception_value', set())
        if len(cidx) != 1 or len(rc) != 1 or None in rc or (vidx is not None and len(vidx) != 1) or len(rv) != 1 or None in rv:
            r.info('%s: slot order not decidable (writer check %s value %s, reader check %s value %s)' % (key, cidx, vidx, rc, rv))
            continue
        if cidx != rc or (vidx is not None and vidx != rv):
            r.violate(key, NODES, rline,
                      '%s builds the exceptval pair with the exception value at index %s and the check flag at index %s, DefNode.as_cfunction passes element %s as exception_value= '
                      'and element %s as exception_check= to CFuncDeclaratorNode: the value of @cython.exceptval(v, check=c) becomes the check flag and vice versa'
                      % (writer, sorted(vidx)[0] if vidx else 1 - sorted(cidx)[0], sorted(cidx)[0], sorted(rv)[0], sorted(rc)[0]))
    # ---- positive control
    pc = ast.parse(
        "class InterpretCompilerDirectives:\n    unop_method_nodes = {'typeof': 1}\n    binop_method_nodes = {}\n"
        "class T:\n"
        "  def visit_SimpleCallNode(self, node):\n"
        "    function = node.function.as_cython_attribute()\n"
        "    if function:\n"
        "      if function in InterpretCompilerDirectives.unop_method_nodes:\n        pass\n"
        "      elif function == 'cast':\n"
        "        type = node.args[0].analyse_as_type(self.current_env())\n"
        "        if type:\n          node = ExprNodes.TypecastNode(node.function.pos, type=type, operand=node.args[0])\n"
        "        else:\n          error(node.pos, 'Not a type')\n"
        "      elif function == 'cmod':\n        node = ExprNodes.binop_node(node.function.pos, '%', node.args[0], node.args[1])\n"
        "      elif function == 'cdiv':\n        node = ExprNodes.binop_node(node.function.pos, '/', node.args[1], node.args[0])\n        node.cdivision = True\n"
        "    self.visitchildren(node)\n    return node\n")
    got = {k: bool(p) and p is not UNK for k, s, l, p in cop_problems(ctx, pc.body[1], pc.body[0], ctors, methods=('visit_SimpleCallNode',))}
    r.positive_control(got == {'cop:cast:call': True, 'cop:cdiv:call': True, 'cop:cmod:call': True}, 'cast of the type expression, cmod without cdivision, cdiv with swapped operands')
    return r


# ================================================================================================ C38-SHAPE
# Every spelling of a directive that the compiler accepts as decorator / with-item can be called that way on the shadow object and gives the decorated
# object back (resp. a context manager).  Compiler side: InterpretCompilerDirectives.try_to_parse_directives / try_to_parse_directive / visit_WithStatNode are
# interpreted by the world evaluator per (directive, its type in Options.directive_types, argument shape): a shape is ACCEPTED when some path returns a
# directive without raising PostParseError.  Shadow side: an abstract evaluator over the object descriptors of pC38.ShadowModel (ShEval below) binds the
# call to the signature of the shadow function / lambda / class / __call__ and evaluates what it returns.
OPTIONS = 'Cython/Compiler/Options.py'
TYPE_NAMES = ('bool', 'int', 'str', 'type', 'dict', 'list')
KTOK = {k: Sym('directive-type:' + k) for k in TYPE_NAMES + ('callable', 'defer', 'nonetype')}


def directive_kind_table(ctx):
    """directive -> 'bool' | 'int' | 'str' | 'type' | 'dict' | 'list' | 'callable' | 'defer' | 'nonetype' | None, as Options.py builds directive_types
    (explicit entries, then type(default) for the remaining keys of _directive_defaults); plus the names of the module-level marker instances."""
    from .pC38 import module_literal_dict, merges_defaults_into_types
    opt = ctx.parse(OPTIONS)
    _, dtypes = module_literal_dict(opt, 'directive_types', OPTIONS)
    _, ddefs = module_literal_dict(opt, '_directive_defaults', OPTIONS)
    funcs = {n.name for n in opt.body if isinstance(n, ast.FunctionDef)}
    classes = {n.name for n in opt.body if isinstance(n, ast.ClassDef)}
    markers = set()
    for n in opt.body:
        if isinstance(n, ast.Assign) and isinstance(n.value, ast.Call) and isinstance(n.value.func, ast.Name) and n.value.func.id in classes and not n.value.args:
            markers |= {t.id for t in n.targets if isinstance(t, ast.Name)}
    out = {}
    for k, v in dtypes.items():
        if isinstance(v, ast.Constant) and v.value is None:
            out[k] = None
        elif isinstance(v, ast.Name) and v.id in TYPE_NAMES:
            out[k] = v.id
        elif isinstance(v, ast.Name) and v.id in markers:
            out[k] = 'defer'
        elif isinstance(v, ast.Name) and v.id in funcs or isinstance(v, ast.Call) and isinstance(v.func, ast.Name) and v.func.id in funcs:
            out[k] = 'callable'
        else:
            raise AnalysisError('Options.directive_types[%r]: value `%s` not understood' % (k, node_src(v, 40)))
    if merges_defaults_into_types(opt, 'directive_types', '_directive_defaults'):
        for k, v in ddefs.items():
            if k in out:
                continue
            if isinstance(v, ast.Constant):
                out[k] = 'nonetype' if v.value is None else type(v.value).__name__ if type(v.value).__name__ in TYPE_NAMES else 'callable'
            elif isinstance(v, ast.List):
                out[k] = 'list'
            elif isinstance(v, ast.Dict):
                out[k] = 'dict'
            else:
                raise AnalysisError('Options._directive_defaults[%r]: value `%s` not understood' % (k, node_src(v, 40)))
    return out, markers


class KV(Sym):
    """A keyword argument node of a decorator call: unpacks as (key, value) and has .key / .value / .pos."""
    def __init__(self, name, value):
        Sym.__init__(self, 'kw:' + name)
        self.key = Sym('key:' + name, dict(value=name, is_string_literal=True))
        self.val = value
        self.attrs = dict(key=self.key, value=value, pos=Sym('pos'))


class MiniD(Mini2):
    lists = True

    def call(self, n, st):
        f = n.func
        if isinstance(f, ast.Attribute) and not is_self_attr(f) and isinstance(f.value, (ast.Name, ast.Attribute)) and self.ev(f.value, st) is None:
            st.trace.append(('typeerror', n))           # a method call on None raises AttributeError in the compiler
        return Mini2.call(self, n, st)

    def assign(self, t, v, st):
        if isinstance(t, (ast.Tuple, ast.List)) and isinstance(v, KV) and len(t.elts) == 2:
            self.assign(t.elts[0], v.key, st)
            self.assign(t.elts[1], v.val, st)
            return
        if isinstance(t, (ast.Tuple, ast.List)) and v is None:
            st.trace.append(('typeerror', t))           # unpacking None raises TypeError in the compiler
        Mini2.assign(self, t, v, st)


def _class_names(n):
    return [_callee_name(x) or '?' for x in (n.elts if isinstance(n, ast.Tuple) else [n])]


class DirectiveWorld:
    """One decorator / with-item expression `cython.<name>` (bare) or `cython.<name>(<nargs positional>, <kwnames>)`."""

    def __init__(self, icd, name, table, markers, scopes, form, nargs=0, kwnames=()):
        self.icd, self.name, self.table, self.markers, self.scopes, self.form = icd, name, table, markers, scopes, form
        self.args = tuple(Sym('directive-argument-%d' % i) for i in range(nargs))
        self.kwds = Sym('kwds', dict(key_value_pairs=tuple(KV(k, Sym('directive-argument-' + k)) for k in kwnames))) if kwnames else None
        if self.kwds is not None:
            self.kwds.methods['as_python_dict'] = lambda *a, **k: Sym('kwds-dict')
        self.node = Sym('decorator-expression', dict(pos=Sym('pos'), function=Sym('function', dict(pos=Sym('pos'))), target=None, body=Sym('body')))
        self.node.attrs['manager'] = self.node
        self.methods = {f.name: f for f in icd.body if isinstance(f, ast.FunctionDef)}

    def ktok(self, name):
        k = self.table.get(name)
        return None if k is None else KTOK[k]

    def oracle(self, n, st, mini):
        if isinstance(n, ast.Name) and isinstance(n.ctx, ast.Load) and n.id in TYPE_NAMES and n.id not in st.env:
            return KTOK[n.id]
        if isinstance(n, ast.Attribute) and n.attr in self.markers and isinstance(n.value, ast.Name):
            return KTOK['defer']
        if isinstance(n, ast.Name) and n.id in self.markers and n.id not in st.env:
            return KTOK['defer']
        if isinstance(n, ast.Call):
            f = n.func
            if isinstance(f, ast.Attribute):
                if f.attr == 'as_cython_attribute':
                    return self.name
                if f.attr == 'explicit_args_kwds':
                    return (self.args, self.kwds)
                if f.attr == 'get' and isinstance(f.value, ast.Attribute) and f.value.attr == 'directive_types' and n.args:
                    k = mini.ev(n.args[0], st)
                    return self.ktok(k) if isinstance(k, str) else UNK
            elif isinstance(f, ast.Name) and f.id == 'callable' and len(n.args) == 1:
                v = mini.ev(n.args[0], st)
                if v is None:
                    return False
                return (v is not KTOK['defer']) if v in KTOK.values() else UNK
            elif isinstance(f, ast.Name) and f.id == 'isinstance' and len(n.args) == 2:
                v = mini.ev(n.args[0], st)
                names = _class_names(n.args[1])
                if v is self.node:
                    if all(x.endswith('CallNode') for x in names):
                        return self.form == 'call'
                    if all(x in ('AttributeNode', 'NameNode') for x in names):
                        return self.form == 'bare'
                    return UNK
                if any(v is a for a in self.args) and all(x == 'NoneNode' for x in names):
                    return False                    # world: no argument is the literal None (which selects the directive's default)
                return UNK
        return NotImplemented

    # ---- try_to_parse_directives -> list of returned values of the accepted paths
    def parse(self):
        fn = self.methods.get('try_to_parse_directives')
        inner = self.methods.get('try_to_parse_directive')
        if fn is None or inner is None:
            raise AnalysisError('InterpretCompilerDirectives.try_to_parse_directives / try_to_parse_directive vanished')
        iparams = [x.arg for x in inner.args.args[1:]]

        def rec(n, st, mini, a, kw):
            f = n.func
            if is_self_attr(f) and f.attr == inner.name:
                bound = dict(zip(iparams, a))
                bound.update(kw)
                sub = MiniD(self.oracle, None, what='%s[%s]' % (inner.name, self.name))
                vals = [v for s, flow, v in sub.run(inner, State(), bound) if flow == 'return' and not any(e[0] == 'typeerror' for e in s.trace)]
                if not vals:
                    st.trace.append(('rejected', n))
                    return UNK
                pairs = [v for v in vals if isinstance(v, tuple) and len(v) == 2]
                return pairs[0] if pairs else UNK
            return NotImplemented
        m = MiniD(self.oracle, rec, what='try_to_parse_directives[%s]' % self.name)
        out = []
        for st, flow, val in m.run(fn, State(), {fn.args.args[1].arg: self.node}):
            if flow != 'return' or val is None or any(e[0] in ('rejected', 'typeerror') for e in st.trace):
                continue
            if isinstance(val, tuple) and not val:
                continue
            out.append(val)
        return out

    # ---- visit_WithStatNode with the parse result
    def with_accepted(self, parsed):
        fn = self.methods.get('visit_WithStatNode')
        if fn is None:
            raise AnalysisError('InterpretCompilerDirectives.visit_WithStatNode vanished')
        for val in parsed:
            if not isinstance(val, tuple):
                continue

            def oracle(n, st, mini, val=val):
                if isinstance(n, ast.Call) and is_self_attr(n.func) and n.func.attr == 'try_to_parse_directives':
                    return val
                return self.oracle(n, st, mini)

            def rec(n, st, mini, a, kw):
                f = n.func
                if is_self_attr(f) and f.attr == 'check_directive_scope' and len(a) == 3 and isinstance(a[1], str) and isinstance(a[2], str):
                    legal = self.scopes.get(a[1])
                    ok = legal is None or a[2] in legal
                    st.trace.append(('scope', ok))
                    return ok
                if is_self_attr(f) and f.attr.startswith('_transform'):
                    st.trace.append(('applied', f.attr))
                    return Sym('transformed')
                if is_self_attr(f) and f.attr == 'visit_with_directives':
                    st.trace.append(('applied', f.attr) if any(e == ('scope', True) for e in st.trace) else ('noop',))
                    return Sym('directives-node')
                if _callee_name(f) in ('nonfatal_error', 'error'):
                    st.trace.append(('error', n))
                return NotImplemented
            m = MiniD(oracle, rec, what='visit_WithStatNode[%s]' % self.name)
            for st, flow, v in m.run(fn, State(), {fn.args.args[1].arg: self.node}):
                if flow == 'return' and any(e[0] == 'applied' for e in st.trace) and not any(e[0] in ('error', 'typeerror') for e in st.trace):
                    return True
        return False


def shape_universe(icd, name, kind, table):
    """[(shape label, form, nargs, kwnames)] tried for a directive."""
    out = [('bare', 'bare', 0, ()), ('call(ARG)', 'call', 1, ())]
    if kind == 'defer':
        return out          # arguments are analysed elsewhere (_extract_directives, _transform_*): only the two generic spellings are claimed
    out += [('call()', 'call', 0, ()), ('call(ARG, ARG)', 'call', 2, ()), ('call(x=ARG)', 'call', 0, ('x',))]
    kws = set()
    for f in icd.body:
        if isinstance(f, ast.FunctionDef) and f.name == 'try_to_parse_directive':
            for n in ast.walk(f):
                if isinstance(n, ast.Compare) and len(n.ops) == 1 and isinstance(n.ops[0], ast.Eq) and isinstance(n.comparators[0], ast.Constant) and \
                        isinstance(n.comparators[0].value, str) and isinstance(n.left, ast.Attribute) and n.left.attr == 'value' and \
                        isinstance(n.left.value, ast.Attribute) and n.left.value.attr == 'key':
                    kws.add(n.comparators[0].value)
    for k in sorted(kws):
        out += [('call(%s=ARG)' % k, 'call', 0, (k,)), ('call(ARG, %s=ARG)' % k, 'call', 1, (k,))]
    for sub in sorted(table):
        if sub.startswith(name + '.') and '.' not in sub[len(name) + 1:] and table[sub]:
            out.append(('call(%s=ARG)' % sub[len(name) + 1:], 'call', 0, (sub[len(name) + 1:],)))
    return out


def decorator_scope_names(icd):
    """Scope words with which decorators are interpreted: constant second arguments of self._extract_directives(node, <scope>)."""
    out = set()
    for n in ast.walk(icd):
        if isinstance(n, ast.Call) and is_self_attr(n.func) and n.func.attr == '_extract_directives' and len(n.args) == 2 and isinstance(n.args[1], ast.Constant):
            out.add(n.args[1].value)
    if not out:
        raise AnalysisError('no self._extract_directives(node, <scope>) call found in InterpretCompilerDirectives')
    return out


def accepted_forms(ctx, icd, table, markers, scopes, names):
    """directive -> {'decorator': [shape rows], 'with': [shape rows]} of the accepted spellings."""
    dec_scopes = decorator_scope_names(icd)
    out = {}
    for name in names:
        kind = table.get(name)
        sc = scopes.get(name)
        acc = {'decorator': [], 'with': []}
        for row in shape_universe(icd, name, kind, table):
            label, form, nargs, kwnames = row
            w = DirectiveWorld(icd, name, table, markers, scopes, form, nargs, kwnames)
            parsed = w.parse()
            if not parsed:
                continue
            if sc is None or any(d in sc for d in dec_scopes):      # `scope not in legal_scopes`: membership for a tuple, substring test for a str
                acc['decorator'].append(row)
            if w.with_accepted(parsed):
                acc['with'].append(row)
        out[name] = acc
    return out


# ---------------------------------------------------------------------------------------- shadow side
class _Tok:
    def __init__(self, name):
        self.name = name

    def __repr__(self):
        return self.name


FUNC, ARG_LIT, ARG_ANY, UNKV = _Tok('the decorated object'), _Tok('the (literal) directive argument'), _Tok('the directive argument'), _Tok('an unknown value')


class Const:
    def __init__(self, v):
        self.v = v

    def __repr__(self):
        return repr(self.v)


class TupleV:
    def __init__(self, items):
        self.items = list(items)

    def __repr__(self):
        return '(%s)' % ', '.join(map(repr, self.items))


class KwDict:
    def __init__(self, d):
        self.d = dict(d)

    def __repr__(self):
        return '{%s}' % ', '.join('%s=...' % k for k in self.d)


class Inst:
    def __init__(self, cls, attrs=None):
        self.cls, self.attrs = cls, dict(attrs or {})

    def __repr__(self):
        return 'an instance of %s' % self.cls.node.name


class Bound:
    def __init__(self, func, selfv):
        self.func, self.selfv = func, selfv

    def __repr__(self):
        return 'the bound method %s of %r' % (getattr(self.func.node, 'name', '<lambda>'), self.selfv)


class Raised:
    def __init__(self, reason):
        self.reason = reason

    def __repr__(self):
        return 'raises ' + self.reason


class _BindError(Exception):
    pass


def bind_arguments(a, args, kwargs, fname):
    """Python's argument binding on an ast.arguments -> env (values; defaults as ('default', node)); raises _BindError with the TypeError text."""
    pos = [p.arg for p in a.posonlyargs + a.args]
    nposonly = len(a.posonlyargs)
    env = {}
    if len(args) > len(pos) and a.vararg is None:
        raise _BindError('TypeError: %s() takes %s%d positional argument%s but %d %s given' % (
            fname, 'from %d to ' % (len(pos) - len(a.defaults)) if a.defaults else '', len(pos), '' if len(pos) == 1 else 's', len(args), 'was' if len(args) == 1 else 'were'))
    for p, v in zip(pos, args):
        env[p] = v
    if a.vararg is not None:
        env[a.vararg.arg] = TupleV(args[len(pos):])
    extra = {}
    kwonly = [p.arg for p in a.kwonlyargs]
    for k, v in kwargs.items():
        if k in env and (k in pos[nposonly:]):
            raise _BindError('TypeError: %s() got multiple values for argument %r' % (fname, k))
        if k in pos[nposonly:] or k in kwonly:
            env[k] = v
        elif a.kwarg is not None:
            extra[k] = v
        else:
            raise _BindError('TypeError: %s() got an unexpected keyword argument %r' % (fname, k))
    defaults = dict(zip(pos[len(pos) - len(a.defaults):], a.defaults))
    for p in pos:
        if p not in env:
            if p in defaults:
                env[p] = ('default', defaults[p])
            else:
                raise _BindError('TypeError: %s() missing 1 required positional argument: %r' % (fname, p))
    for p, d in zip(kwonly, a.kw_defaults):
        if p not in env:
            if d is None:
                raise _BindError('TypeError: %s() missing 1 required keyword-only argument: %r' % (fname, p))
            env[p] = ('default', d)
    if a.kwarg is not None:
        env[a.kwarg.arg] = KwDict(extra)
    return env


class ShEval:
    """Abstract evaluation of calls on the objects of the shadow namespace.  call() -> list of (kind, payload, definite): kind 'ok' (payload = value),
    'raise' (payload = reason) or 'unknown'; `definite` is False when the path went through a test whose outcome is not known."""
    MAXDEPTH = 7

    def __init__(self, model):
        self.m = model
        self.depth = 0

    # ------------------------------------------------------------ objects
    def as_value(self, o):
        from .pC38 import Obj, ClassObj
        if isinstance(o, Obj) and o.kind == 'instance' and o.cls is not None and not isinstance(o, ClassObj):
            if id(o) not in self.__dict__.setdefault('_insts', {}):
                inst = self._insts[id(o)] = Inst(o.cls, {})        # registered first: the object graph of the namespace may be cyclic
                fields = {k: self.as_value(v) for k, v in o.extra.items()}
                for attr in ('extra', 'fields', 'attrs', 'd'):
                    tgt = getattr(inst, attr, None)
                    if isinstance(tgt, dict):
                        tgt.update(fields)
                        break
            return self._insts[id(o)]
        if isinstance(o, Obj) and o.kind == 'const' and isinstance(o.node, ast.Constant):
            return Const(o.node.value)
        if isinstance(o, Obj) and o.kind in ('unknown', 'any', 'module'):
            return UNKV
        return o

    def is_static(self, fnode):
        return isinstance(fnode, ast.FunctionDef) and any(_callee_name(d) in ('staticmethod', 'classmethod') for d in fnode.decorator_list)

    def getattr(self, base, attr):
        from .pC38 import Obj, ClassObj, MAYBE
        base = self.as_value(base)
        if isinstance(base, Inst):
            if attr in base.attrs:
                return base.attrs[attr]
            members, wild, unk = self.m._class_members(base.cls)
            if attr in members:
                v = members[attr]
                if isinstance(v, Obj) and v.kind == 'func' and not self.is_static(v.node):
                    return Bound(v, base)
                return self.as_value(v)
            if wild or unk or attr in self.m._self_attrs(base.cls):
                return UNKV
            return Raised("AttributeError: '%s' object has no attribute %r" % (base.cls.node.name, attr))
        if isinstance(base, ClassObj):
            members, wild, unk = self.m._class_members(base)
            if attr in members:
                return self.as_value(members[attr])
            return UNKV if unk else Raised("AttributeError: type object '%s' has no attribute %r" % (base.node.name, attr))
        if isinstance(base, Obj) and base.kind == 'func':
            if attr in base.extra:
                return self.as_value(base.extra[attr])
            return Raised("AttributeError: 'function' object has no attribute %r" % attr)
        if isinstance(base, Raised):
            return base
        if isinstance(base, Bound):
            return Raised("AttributeError: 'method' object has no attribute %r" % attr) if attr in ('__enter__', '__exit__') else UNKV
        if base is ARG_LIT and attr in ('__enter__', '__exit__', '__call__'):
            return Raised("AttributeError: a literal has no attribute %r" % attr)
        if isinstance(base, Const):
            return UNKV if hasattr(base.v, attr) else Raised("AttributeError: '%s' object has no attribute %r" % (type(base.v).__name__, attr))
        return UNKV

    def has_attr(self, v, attr):
        """True / False / None"""
        x = self.getattr(v, attr)
        if isinstance(x, Raised):
            return False
        if x is UNKV:
            return None
        return True

    # ------------------------------------------------------------ calls
    def call(self, callee, args, kwargs):
        from .pC38 import Obj, ClassObj
        callee = self.as_value(callee)
        if self.depth >= self.MAXDEPTH:
            return [('unknown', 'call depth', False)]
        self.depth += 1
        try:
            if isinstance(callee, Raised):
                return [('raise', callee.reason, True)]
            if callee is ARG_LIT:
                return [('raise', 'TypeError: the directive argument (a compile-time literal) is not callable', True)]
            if isinstance(callee, Const):
                return [('raise', "TypeError: '%s' object is not callable" % type(callee.v).__name__, True)]
            if isinstance(callee, (TupleV, KwDict)):
                return [('raise', 'TypeError: object is not callable', True)]
            if isinstance(callee, Bound):
                return self.call_function(callee.func.node, [callee.selfv] + list(args), kwargs)
            if isinstance(callee, ClassObj):
                return self.instantiate(callee, args, kwargs)
            if isinstance(callee, Obj) and callee.kind == 'func':
                return self.call_function(callee.node, list(args), kwargs)
            if isinstance(callee, Inst):
                c = self.getattr(callee, '__call__')
                if isinstance(c, Raised):
                    return [('raise', "TypeError: '%s' object is not callable" % callee.cls.node.name, True)]
                if c is UNKV:
                    return [('unknown', '__call__ of %r' % callee, False)]
                return self.call(c, args, kwargs)
            return [('unknown', 'call of %r' % (callee,), False)]
        finally:
            self.depth -= 1

    def instantiate(self, c, args, kwargs):
        from .pC38 import Obj
        members, wild, unk = self.m._class_members(c)
        if '__new__' in members or unk:
            return [('unknown', 'construction of %s' % c.node.name, False)]
        inst = Inst(c)
        init = members.get('__init__')
        if init is None:
            if args or kwargs:
                return [('raise', 'TypeError: %s() takes no arguments' % c.node.name, True)]
            return [('ok', inst, True)]
        if not (isinstance(init, Obj) and init.kind == 'func'):
            return [('unknown', '__init__ of %s' % c.node.name, False)]
        out = []
        for kind, payload, definite in self.call_function(init.node, [inst] + list(args), kwargs):
            if kind == 'raise':
                out.append((kind, payload, definite))
            elif kind == 'unknown':
                out.append(('ok', inst, False))
            else:
                out.append(('ok', inst, definite))
        return out

    def call_function(self, fnode, args, kwargs):
        name = getattr(fnode, 'name', '<lambda>')
        if isinstance(fnode, ast.FunctionDef) and any(_callee_name(d) not in ('staticmethod', 'overload') for d in fnode.decorator_list):
            return [('unknown', 'decorated function %s' % name, False)]
        if not isinstance(fnode, (ast.FunctionDef, ast.Lambda)):
            return [('unknown', 'callable %s' % name, False)]
        try:
            env = bind_arguments(fnode.args, args, kwargs, name)
        except _BindError as e:
            return [('raise', str(e), True)]
        for k, v in list(env.items()):
            if isinstance(v, tuple) and v and v[0] == 'default':
                vals = self.ev(v[1], {})
                env[k] = vals[0] if len(vals) == 1 else UNKV
        if isinstance(fnode, ast.Lambda):
            return [(('raise', v.reason, True) if isinstance(v, Raised) else ('ok', v, True)) for v in self.ev(fnode.body, env)]
        return self.block(fnode.body, env, True)

    # ------------------------------------------------------------ statements
    def block(self, stmts, env, definite):
        """-> outcomes of the paths that leave the function in this block + [('next', env, definite)] continuation entries"""
        res = self._block(stmts, env, definite)
        out = []
        for kind, payload, d in res:
            if kind == 'next':
                out.append(('ok', Const(None), d))
            else:
                out.append((kind, payload, d))
        return out

    def _block(self, stmts, env, definite):
        cur = [(env, definite)]
        done = []
        for s in stmts:
            nxt = []
            for e, d in cur:
                for kind, payload, d2 in self.stmt(s, e, d):
                    if kind == 'next':
                        nxt.append((payload, d2))
                    else:
                        done.append((kind, payload, d2))
            cur = nxt
            if len(cur) + len(done) > 200:
                return done + [('unknown', 'too many paths', False)]
        return done + [('next', e, d) for e, d in cur]

    def stmt(self, s, env, definite):
        if isinstance(s, ast.Return):
            if s.value is None:
                return [('ok', Const(None), definite)]
            return [(('raise', v.reason, definite) if isinstance(v, Raised) else ('ok', v, definite)) for v in self.ev(s.value, env)]
        if isinstance(s, ast.If):
            t = self.truth(s.test, env)
            if t is None:
                return self._block(s.body, dict(env), False) + self._block(s.orelse, dict(env), False)
            return self._block(s.body if t else s.orelse, env, definite)
        if isinstance(s, (ast.Assign, ast.AnnAssign)):
            if s.value is None:
                return [('next', env, definite)]
            targets = s.targets if isinstance(s, ast.Assign) else [s.target]
            out = []
            for v in self.ev(s.value, env):
                if isinstance(v, Raised):
                    out.append(('raise', v.reason, definite))
                    continue
                e2 = dict(env) if len(out) else env
                for t in targets:
                    self.store(t, v, e2)
                out.append(('next', e2, definite))
            return out
        if isinstance(s, ast.Expr):
            if isinstance(s.value, ast.Constant):
                return [('next', env, definite)]
            vals = self.ev(s.value, env)
            bad = [v for v in vals if isinstance(v, Raised)]
            if bad and len(bad) == len(vals):
                return [('raise', bad[0].reason, definite)]
            return [('next', env, definite)]
        if isinstance(s, ast.Assert):
            t = self.truth(s.test, env)
            if t is False:
                return [('raise', 'AssertionError (`assert %s`)' % node_src(s.test, 40), definite)]
            return [('next', env, definite and t is True)] if t is not None else [('next', env, definite)]
        if isinstance(s, ast.Raise):
            return [('raise', node_src(s, 60), definite)]
        if isinstance(s, (ast.Pass, ast.Global, ast.Nonlocal)):
            return [('next', env, definite)]
        if isinstance(s, (ast.Import, ast.ImportFrom)):
            for a in s.names:
                env[(a.asname or a.name).split('.')[0]] = UNKV
            return [('next', env, definite)]
        if isinstance(s, (ast.FunctionDef, ast.ClassDef)):
            env[s.name] = UNKV
            return [('next', env, definite)]
        return [('unknown', 'statement `%s`' % node_src(s, 40), False)]

    def store(self, t, v, env):
        if isinstance(t, ast.Name):
            env[t.id] = v
        elif isinstance(t, ast.Attribute):
            b = self.ev(t.value, env)
            if len(b) == 1 and isinstance(b[0], Inst):
                b[0].attrs[t.attr] = v
        elif isinstance(t, (ast.Tuple, ast.List)):
            items = v.items if isinstance(v, TupleV) and len(v.items) == len(t.elts) else [UNKV] * len(t.elts)
            for e, x in zip(t.elts, items):
                self.store(e.value if isinstance(e, ast.Starred) else e, x, env)

    # ------------------------------------------------------------ expressions
    def ev(self, n, env):
        """-> list of possible values (Raised marks a raising evaluation)"""
        from .pC38 import Obj
        if isinstance(n, ast.Constant):
            return [Const(n.value)]
        if isinstance(n, ast.Name):
            if n.id in env:
                return [env[n.id]]
            if n.id in self.m.ns:
                return [self.as_value(self.m.ns[n.id])]
            return [UNKV]
        if isinstance(n, ast.Lambda):
            o = Obj('func', n, line=n.lineno)
            o.extra['__closure__'] = TupleV([v for v in env.values()])      # a lambda created inside a call may capture the local values
            return [o]
        if isinstance(n, ast.Attribute):
            return [self.getattr(b, n.attr) for b in self.ev(n.value, env)]
        if isinstance(n, ast.Tuple):
            parts = [self.ev(e, env) for e in n.elts]
            if all(len(p) == 1 for p in parts):
                return [TupleV([p[0] for p in parts])]
            return [UNKV]
        if isinstance(n, ast.Subscript):
            b, i = self.ev(n.value, env), self.ev(n.slice, env)
            if len(b) == 1 and len(i) == 1 and isinstance(b[0], TupleV) and isinstance(i[0], Const) and isinstance(i[0].v, int) and -len(b[0].items) <= i[0].v < len(b[0].items):
                return [b[0].items[i[0].v]]
            return [UNKV]
        if isinstance(n, ast.IfExp):
            t = self.truth(n.test, env)
            if t is None:
                return self.ev(n.body, env) + self.ev(n.orelse, env)
            return self.ev(n.body if t else n.orelse, env)
        if isinstance(n, (ast.Compare, ast.UnaryOp)) or isinstance(n, ast.BoolOp):
            t = self.truth(n, env)
            return [UNKV if t is None else Const(t)]
        if isinstance(n, ast.Call):
            return self.ev_call(n, env)
        return [UNKV]

    def ev_call(self, n, env):
        f = n.func
        if isinstance(f, ast.Name) and f.id not in env and f.id not in self.m.ns:
            if f.id in ('callable', 'isinstance', 'bool'):
                t = self.truth(n, env)
                return [UNKV if t is None else Const(t)]
            if f.id == 'len' and len(n.args) == 1:
                v = self.ev(n.args[0], env)
                if len(v) == 1 and isinstance(v[0], TupleV):
                    return [Const(len(v[0].items))]
                if len(v) == 1 and isinstance(v[0], KwDict):
                    return [Const(len(v[0].d))]
                return [UNKV]
            return [UNKV]
        if isinstance(f, ast.Attribute) and f.attr == 'pop' and n.args:
            b = self.ev(f.value, env)
            k = self.ev(n.args[0], env)
            if len(b) == 1 and isinstance(b[0], KwDict) and len(k) == 1 and isinstance(k[0], Const):
                if k[0].v in b[0].d:
                    return [b[0].d.pop(k[0].v)]
                if len(n.args) > 1:
                    return self.ev(n.args[1], env)
                return [Raised('KeyError: %r' % (k[0].v,))]
        args, kwargs = [], {}
        for a in n.args:
            if isinstance(a, ast.Starred):
                v = self.ev(a.value, env)
                if len(v) == 1 and isinstance(v[0], TupleV):
                    args.extend(v[0].items)
                else:
                    return [UNKV]
            else:
                v = self.ev(a, env)
                args.append(v[0] if len(v) == 1 else UNKV)
        for k in n.keywords:
            v = self.ev(k.value, env)
            if k.arg is None:
                if len(v) == 1 and isinstance(v[0], KwDict):
                    kwargs.update(v[0].d)
                else:
                    return [UNKV]
            else:
                kwargs[k.arg] = v[0] if len(v) == 1 else UNKV
        if any(isinstance(a, Raised) for a in args + list(kwargs.values())):
            return [[a for a in args + list(kwargs.values()) if isinstance(a, Raised)][0]]
        out = []
        for callee in self.ev(f, env):
            for kind, payload, definite in self.call(callee, args, kwargs):
                if kind == 'ok':
                    out.append(payload)
                elif kind == 'raise':
                    out.append(Raised(payload) if definite else UNKV)
                else:
                    out.append(UNKV)
        return out or [UNKV]

    def truth_of(self, v):
        from .pC38 import Obj, ClassObj
        if isinstance(v, Const):
            return bool(v.v)
        if isinstance(v, TupleV):
            return len(v.items) > 0
        if isinstance(v, KwDict):
            return len(v.d) > 0
        if v is FUNC or isinstance(v, (ClassObj, Bound)) or (isinstance(v, Obj) and v.kind == 'func'):
            return True
        if isinstance(v, Inst):
            members, wild, unk = self.m._class_members(v.cls)
            return None if ('__bool__' in members or '__len__' in members or wild or unk) else True
        return None

    def truth(self, n, env):
        from .pC38 import Obj, ClassObj
        if isinstance(n, ast.UnaryOp) and isinstance(n.op, ast.Not):
            t = self.truth(n.operand, env)
            return None if t is None else (not t)
        if isinstance(n, ast.BoolOp):
            ts = [self.truth(v, env) for v in n.values]
            if isinstance(n.op, ast.And):
                return False if any(t is False for t in ts) else True if all(t is True for t in ts) else None
            return True if any(t is True for t in ts) else False if all(t is False for t in ts) else None
        if isinstance(n, ast.Compare):
            vals = [self.ev(x, env) for x in [n.left] + n.comparators]
            if any(len(v) != 1 for v in vals):
                return None
            vals = [v[0] for v in vals]
            res = True
            for op, a, b in zip(n.ops, vals, vals[1:]):
                if isinstance(op, (ast.Is, ast.IsNot)):
                    none = [isinstance(x, Const) and x.v is None for x in (a, b)]
                    if any(none):
                        other = b if none[0] else a
                        if all(none):
                            same = True
                        elif isinstance(other, Const) or other is FUNC or isinstance(other, (Inst, TupleV, KwDict, Bound, Obj)):
                            same = False
                        else:
                            return None
                    elif a is b and a is not UNKV:
                        same = True
                    else:
                        return None
                    ok = same if isinstance(op, ast.Is) else not same
                elif isinstance(a, Const) and isinstance(b, Const):
                    try:
                        ok = {ast.Eq: a.v == b.v, ast.NotEq: a.v != b.v, ast.Lt: a.v < b.v, ast.LtE: a.v <= b.v, ast.Gt: a.v > b.v, ast.GtE: a.v >= b.v}.get(type(op))
                    except TypeError:
                        return None
                    if ok is None:
                        return None
                else:
                    return None
                if not ok:
                    res = False
            return res
        if isinstance(n, ast.Call) and isinstance(n.func, ast.Name) and n.func.id not in env and n.func.id not in self.m.ns:
            if n.func.id == 'callable' and len(n.args) == 1:
                v = self.ev(n.args[0], env)
                if len(v) != 1:
                    return None
                v = v[0]
                if v is FUNC or isinstance(v, (ClassObj, Bound)) or (isinstance(v, Obj) and v.kind == 'func'):
                    return True
                if isinstance(v, Inst):
                    return self.has_attr(v, '__call__')
                if isinstance(v, (Const, TupleV, KwDict)) or v is ARG_LIT:
                    return False
                return None
            if n.func.id == 'isinstance' and len(n.args) == 2:
                v = self.ev(n.args[0], env)
                names = _class_names(n.args[1])
                if len(v) != 1:
                    return None
                v = v[0]
                builtin = {'str': str, 'int': int, 'bool': bool, 'float': float, 'tuple': tuple, 'dict': dict, 'list': list, 'bytes': bytes}
                if all(x in builtin for x in names):
                    if isinstance(v, Const):
                        return isinstance(v.v, tuple(builtin[x] for x in names))
                    if v is FUNC or isinstance(v, (Inst, Bound, ClassObj)) or (isinstance(v, Obj) and v.kind == 'func'):
                        return False          # a function / class / instance of a shadow class is no str, int, ...
                return None
            if n.func.id == 'bool' and len(n.args) == 1:
                return self.truth(n.args[0], env)
        v = self.ev(n, env)
        return self.truth_of(v[0]) if len(v) == 1 else None


def describe(v):
    from .pC38 import Obj, ClassObj
    if isinstance(v, ClassObj):
        return 'the class %s' % v.node.name
    if isinstance(v, Obj) and v.kind == 'func':
        return 'the function %s' % getattr(v.node, 'name', '<lambda>')
    return repr(v)


def holds_func(v, depth=0):
    """True when the abstract value keeps a reference to the decorated object (instance attribute, captured local, tuple element)."""
    from .pC38 import Obj
    if v is FUNC:
        return True
    if depth > 3:
        return False
    if isinstance(v, Inst):
        return any(holds_func(x, depth + 1) for x in v.attrs.values())
    if isinstance(v, TupleV):
        return any(holds_func(x, depth + 1) for x in v.items)
    if isinstance(v, KwDict):
        return any(holds_func(x, depth + 1) for x in v.d.values())
    if isinstance(v, Bound):
        return holds_func(v.selfv, depth + 1)
    if isinstance(v, Obj) and v.kind == 'func' and '__closure__' in v.extra:
        return holds_func(v.extra['__closure__'], depth + 1)
    return False


def shape_outcome(ev, dobj, use, row, kind):
    """-> ('ok' | 'fail' | 'unknown', reason)"""
    label, form, nargs, kwnames = row
    arg = ARG_LIT if kind in ('bool', 'int', 'str', 'list', 'callable') else ARG_ANY
    if form == 'bare':
        firsts = [('ok', dobj, True)]
    else:
        firsts = ev.call(dobj, [arg] * nargs, {k: arg for k in kwnames})
    results = []
    for kind1, v, d1 in firsts:
        if kind1 == 'raise':
            results.append(('fail' if d1 else 'unknown', 'cython.%s%s raises %s' % ('%s', label[4:] if form == 'call' else '', v)))
            continue
        if kind1 == 'unknown':
            results.append(('unknown', v))
            continue
        if use == 'with':
            has = [ev.has_attr(v, a) for a in ('__enter__', '__exit__')]
            if False in has:
                results.append(('fail' if d1 else 'unknown', '%s is %s, which has no %s' % ('cython.%s' + (label[4:] if form == 'call' else ''), describe(ev.as_value(v)),
                                                                                             ' / '.join(a for a, h in zip(('__enter__', '__exit__'), has) if h is False))))
            elif None in has:
                results.append(('unknown', 'attributes of %s' % describe(v)))
            else:
                results.append(('ok', ''))
            continue
        for kind2, v2, d2 in ev.call(v, [FUNC], {}):
            d = d1 and d2
            spelled = '@cython.%s' + (label[4:] if form == 'call' else '')
            if kind2 == 'raise':
                results.append(('fail' if d else 'unknown', '%s applied to a function raises %s' % (spelled, v2)))
            elif kind2 == 'unknown':
                results.append(('unknown', v2))
            elif v2 is FUNC:
                results.append(('ok', ''))
            elif v2 is UNKV or v2 is ARG_ANY:
                results.append(('unknown', 'returns %r' % (v2,)))
            elif holds_func(v2):
                results.append(('unknown', 'returns %s, which holds the decorated object (a forwarding wrapper cannot be excluded)' % describe(v2)))
            else:
                results.append(('fail' if d else 'unknown', '%s replaces the decorated function / class by %s' % (spelled, describe(v2))))
    fails = [r for r in results if r[0] == 'fail']
    if fails:
        return 'fail', fails[0][1]
    unk = [r for r in results if r[0] == 'unknown']
    if unk or not results:
        return 'unknown', unk[0][1] if unk else 'no result'
    return 'ok', ''


def shape_table(ctx):
    """-> (rows [(directive, kind, use, shape label, outcome, reason, explicit with-scope?)], skipped infos)"""
    from .pC38 import ShadowModel, module_literal_dict, class_def, MAYBE
    def build():
        table, markers = directive_kind_table(ctx)
        opt = ctx.parse(OPTIONS)
        _, dscopes = module_literal_dict(opt, 'directive_scopes', OPTIONS)
        scopes = {}
        for k, v in dscopes.items():
            try:
                scopes[k] = ast.literal_eval(v)
            except Exception:
                raise AnalysisError('Options.directive_scopes[%r] is not a literal' % k)
        icd = class_def(ctx.parse(PTT), 'InterpretCompilerDirectives', PTT)
        sh = ShadowModel(ctx.parse(SHADOW), SHADOW)
        ev = ShEval(sh)
        names, infos = [], []
        for name in sorted(table):
            sc = scopes.get(name)
            if sc is not None and not isinstance(sc, str) and not (set(sc) - {'module'}):
                continue
            if table[name] == 'nonetype':
                infos.append('%s: its directive type is NoneType (default None, no entry in directive_types): no spelling is parsed successfully' % name)
                continue
            st, detail = sh.lookup(name)
            if st is not True:
                infos.append('%s: not resolvable in Shadow.py (%s; existence is decided by C38-DIR)' % (name, detail or st))
                continue
            names.append(name)
        acc = accepted_forms(ctx, icd, table, markers, scopes, names)
        rows = []
        for name in names:
            parts = name.split('.')
            obj = ev.as_value(sh.ns[parts[0]]) if parts[0] in sh.ns else UNKV
            for p in parts[1:]:
                obj = ev.getattr(obj, p)
            sc = scopes.get(name)
            explicit_with = sc is not None and ('with statement' in sc)
            for use in ('decorator', 'with'):
                for row in acc[name][use]:
                    outcome, reason = shape_outcome(ev, obj, use, row, table[name])
                    rows.append((name, table[name], use, row[0], outcome, reason % name if '%s' in reason else reason, explicit_with))
        return rows, infos
    return ctx.memo('C38-shape-table', build)


def cast_keyword_outcome(ev, sh, kw):
    """Shadow.cast(T, v, <kw>=x): ('ok' | 'fail' | 'unknown', reason)"""
    o = sh.ns.get('cast')
    if o is None:
        return 'unknown', 'Shadow.cast missing'
    res = ev.call(o, [ARG_ANY, ARG_ANY], {kw: ARG_ANY})
    bad = [p for k, p, d in res if k == 'raise' and d]
    if bad:
        return 'fail', bad[0]
    return ('ok', '') if any(k == 'ok' for k, p, d in res) else ('unknown', 'not evaluated')


def rule_shape(ctx):
    from .pC38 import ShadowModel, class_def
    r = Rule('C38-SHAPE', 'each directive spelling the compiler accepts as decorator (bare `@cython.D` / `@cython.D(args)`) binds to the signature of the shadow object and gives the '
             'decorated object back; directives whose scope names "with statement" give a context manager; cython.cast accepts the keywords the compiler accepts', floor=70)
    rows, infos = shape_table(ctx)
    for i in infos:
        r.info(i)
    groups = {}
    for name, kind, use, label, outcome, reason, explicit_with in rows:
        if use == 'with' and not explicit_with:
            continue                   # with-use of directives without an explicit 'with statement' scope: see rule_shape_all_forms (pending finding)
        groups.setdefault((name, kind, use), []).append((label, outcome, reason))
    sh = ShadowModel(ctx.parse(SHADOW), SHADOW)
    for (name, kind, use), lst in sorted(groups.items()):
        labels = [l for l, o, x in lst]
        line = sh.line_of(name.split('.')[0])
        what = 'decorator' if use == 'decorator' else 'with-item'
        if 'bare' in labels and len(labels) > 1:
            # the compiler accepts the bare and the call spelling; Shadow.py supports one of them per directive on today's tree (see rule_shape_all_forms):
            # the registered obligation is that at least one accepted spelling works
            key = 'shape:%s:%s:any-form' % (name, use)
            r.inst(key, sample='%s: %s' % (key, ', '.join('%s=%s' % (l, o) for l, o, x in lst)))
            if all(o == 'fail' for l, o, x in lst):
                r.violate(key, SHADOW, line, 'the compiler accepts cython.%s as %s in the spellings %s (directive type %s), none of them works on the shadow object: %s. '
                          'A pure-mode module using the directive compiles and fails when run uncompiled'
                          % (name, what, ', '.join(labels), kind, '; '.join('%s: %s' % (l, x) for l, o, x in lst[:3])))
            continue
        for label, outcome, reason in lst:
            key = 'shape:%s:%s:%s' % (name, use, label)
            r.inst(key, sample='%s: %s' % (key, outcome))
            if outcome == 'fail':
                r.violate(key, SHADOW, line, 'the compiler accepts cython.%s as %s only in the spelling%s %s (directive type %s), and on the shadow object %s. '
                          'A pure-mode module using it compiles and fails (or loses the decorated object) when run uncompiled'
                          % (name, what, '' if len(labels) == 1 else 's', ', '.join(labels), kind, reason))
            elif outcome == 'unknown':
                r.info('%s: not decided (%s)' % (key, reason))
    # ---- (e) keywords of cast
    tbm = class_def(ctx.parse(PTT), 'TransformBuiltinMethods', PTT)
    ev = ShEval(sh)
    for kw in sorted(cast_keywords(tbm)):
        key = 'shape:cast:call(T, v, %s=ARG)' % kw
        outcome, reason = cast_keyword_outcome(ev, sh, kw)
        r.inst(key, sample='%s: %s' % (key, outcome))
        if outcome == 'fail':
            r.violate(key, SHADOW, sh.line_of('cast'), 'TransformBuiltinMethods.visit_GeneralCallNode accepts cython.cast(T, v, %s=...) but Shadow.cast(T, v, %s=x) raises %s: '
                      'the call compiles and fails when run uncompiled' % (kw, kw, reason))
        elif outcome == 'unknown':
            r.info('%s: not decided (%s)' % (key, reason))
    # ---- positive control
    pm = ShadowModel(ast.parse(
        "class M:\n    def __call__(self, x):\n        return self\n    def __enter__(self): pass\n"
        "cfunc = M()\nexceptval = lambda _, check=True: M()\n"
        "def locals(*arg_types):\n    return lambda f: f\n"
        "def ok(**kw):\n    return lambda f: f\n"
        "def cast(t, *args, **kwargs):\n    assert not kwargs\n    return args[0]\n"
        "def cast2(t, *args, **kwargs):\n    kwargs.pop('typecheck', None)\n    assert not kwargs\n    return args[0]\n"))
    pe = ShEval(pm)
    got = [shape_outcome(pe, pm.ns['cfunc'], 'decorator', ('bare', 'bare', 0, ()), None)[0],
           shape_outcome(pe, pm.ns['cfunc'], 'with', ('bare', 'bare', 0, ()), None)[0],
           shape_outcome(pe, pm.ns['exceptval'], 'decorator', ('call(check=ARG)', 'call', 0, ('check',)), 'type')[0],
           shape_outcome(pe, pm.ns['locals'], 'decorator', ('call(x=ARG)', 'call', 0, ('x',)), 'dict')[0],
           shape_outcome(pe, pm.ns['ok'], 'decorator', ('call(x=ARG)', 'call', 0, ('x',)), 'dict')[0],
           pe.call(pm.ns['cast'], [ARG_ANY, ARG_ANY], {'typecheck': ARG_ANY})[0][0], pe.call(pm.ns['cast2'], [ARG_ANY, ARG_ANY], {'typecheck': ARG_ANY})[0][0]]
    r.positive_control(got == ['fail', 'fail', 'fail', 'fail', 'ok', 'raise', 'ok'], 'manager whose __call__ returns self / lacks __exit__, factory that cannot bind the accepted arguments')
    return r


def rule_shape_all_forms(ctx):        # pending finding: NOT registered (reports on the unmodified tree)
    """The stronger obligation: EVERY spelling the compiler accepts works on the shadow object -> rows (directive, use, spelling, reason) that fail."""
    rows, infos = shape_table(ctx)
    return [(name, kind, use, label, reason) for name, kind, use, label, outcome, reason, explicit_with in rows if outcome == 'fail']


def rule_allforms(ctx, floor=150):
    """C38-ALLFORMS: rule_shape_all_forms as a registered rule - every spelling of a directive that the compiler accepts (bare decorator, call, with
    statement, sub-option keywords) works on the shadow object of Shadow.py.  The rows that fail on the unmodified tree are the known finding K21."""
    from ..core import Rule
    r = Rule('C38-ALLFORMS', 'every spelling of a compiler directive that the compiler accepts (bare decorator, call, with statement) is supported by the object '
                             'Cython/Shadow.py provides under that name when the module runs uncompiled', floor)
    rows, infos = shape_table(ctx)
    for i in infos:
        r.info(i)
    for name, kind, use, label, outcome, reason, explicit_with in rows:
        key = 'Shadow:%s:%s:%s' % (name, use, ''.join(str(label).split()))
        r.inst(key, sample='%s (%s) as %s %s: %s' % (name, kind, use, label, outcome))
        if outcome == 'fail':
            r.violate(key, 'Cython/Shadow.py', 0, 'cython.%s used as %s (%s spelling) is accepted by the compiler but not supported uncompiled: %s' % (name, use, label, reason))
    return r
