"""C38 strengthening: the integer emulation of the shadow module stays in the integers, and pure-mode C functions keep propagating exceptions.

C38-EXACT  every module-level function of Shadow.py whose signature is all-`int` (the emulations of C integer operators: cdiv, cmod) computes its
           return value with integer-exact operations only.  A type/taint abstract interpretation over {exact integer, bool, float-derived, unknown}:
           true division, float(), math.* and negative/unknown powers produce a float-derived value, and int()/round()/floor() of such a value stays
           float-derived (the conversion does not give back the bits a C double lost).  A C `long long` has 63 value bits, a double 53, so any
           float-derived return value differs from the compiled result for some operands in range.
C38-EXC    decision table of AdjustDefByDirectives.visit_DefNode over the complete domain {cfunc, ccall} x {@exceptval given, absent} x {@returns given,
           absent} x {annotation_typing on, off} x {return annotation present, absent}: whenever a C return type is handed to as_cfunction() without an
           explicit @exceptval, the exception clause handed over has check=True (`except *` / `except? -1`), and an explicit @exceptval is passed through
           unchanged and flagged as explicit.  Interpreted pure-mode functions always propagate exceptions; a compiled C function without an
           exception check prints "Exception ignored" and returns 0.
"""
import ast

from ..core import Rule, AnalysisError, node_src
from ..engine.pyindex import walk_no_nested, is_self_attr
from .sC37 import Mini, State, Sym, UNK

SHADOW = 'Cython/Shadow.py'

# ================================================================================================ C38-EXACT
INT, BOOL, TAINT, UNKT = 'int', 'bool', 'float-derived', 'unknown'
EXACT_BINOPS = (ast.Add, ast.Sub, ast.Mult, ast.FloorDiv, ast.Mod, ast.LShift, ast.RShift, ast.BitAnd, ast.BitOr, ast.BitXor)
ROUNDERS = {'int', 'round', 'floor', 'ceil', 'trunc', 'abs', 'min', 'max', 'divmod', 'sum', 'pow'}
FLOATERS = {'float', 'fmod', 'sqrt', 'log', 'log2', 'log10', 'exp', 'copysign', 'fabs', 'ldexp', 'frexp', 'modf', 'hypot', 'fsum', 'remainder', 'truediv'}


def join(*ts):
    ts = [t for t in ts if t is not None]
    if TAINT in ts:
        return TAINT
    if UNKT in ts:
        return UNKT
    return INT if INT in ts or not ts else BOOL


class Exact:
    def __init__(self, fn):
        self.fn = fn
        self.env = {}
        self.why = {}           # variable -> source text of the float-producing subexpression
        a = fn.args
        for p in a.posonlyargs + a.args + a.kwonlyargs:
            self.env[p.arg] = INT
        self.origin = None
        self.locals = {t.id for n in walk_no_nested(fn) for t in ast.walk(n) if isinstance(t, ast.Name) and isinstance(t.ctx, ast.Store)}

    def note(self, n):
        if self.origin is None:
            self.origin = n

    def ty(self, n):
        if isinstance(n, ast.Constant):
            if isinstance(n.value, bool):
                return BOOL
            if isinstance(n.value, int):
                return INT
            if isinstance(n.value, float) or isinstance(n.value, complex):
                self.note(n)
                return TAINT
            return UNKT
        if isinstance(n, ast.Name):
            t = self.env.get(n.id, None if n.id in self.locals else UNKT)      # None = local not bound yet (bottom)
            if t == TAINT and n.id in self.why and self.origin is None:
                self.origin = self.why[n.id]
            return t
        if isinstance(n, ast.BinOp):
            l, r = self.ty(n.left), self.ty(n.right)
            if isinstance(n.op, ast.Div):
                self.note(n)
                return TAINT
            if isinstance(n.op, ast.Pow):
                if isinstance(n.right, ast.Constant) and isinstance(n.right.value, int) and n.right.value >= 0:
                    return join(l, INT)
                self.note(n)
                return TAINT
            if isinstance(n.op, EXACT_BINOPS):
                return None if l is None and r is None else join(l, r)
            return UNKT
        if isinstance(n, ast.UnaryOp):
            t = self.ty(n.operand)
            return BOOL if isinstance(n.op, ast.Not) else t
        if isinstance(n, ast.Compare):
            self.ty(n.left)
            for c in n.comparators:
                self.ty(c)
            return BOOL
        if isinstance(n, ast.BoolOp):
            return join(*[self.ty(v) for v in n.values])
        if isinstance(n, ast.IfExp):
            return join(self.ty(n.body), self.ty(n.orelse))
        if isinstance(n, (ast.Tuple, ast.List)):
            return join(*[self.ty(e) for e in n.elts])
        if isinstance(n, ast.Subscript):
            return self.ty(n.value)
        if isinstance(n, ast.Call):
            name = n.func.id if isinstance(n.func, ast.Name) else n.func.attr if isinstance(n.func, ast.Attribute) else None
            args = [self.ty(a) for a in n.args]
            if name in FLOATERS:
                self.note(n)
                return TAINT
            if name in ROUNDERS:
                return join(*args) if args else UNKT
            if name == 'bool':
                return BOOL
            return UNKT
        return UNKT

    def bind(self, t, ty, origin):
        if isinstance(t, ast.Name):
            old = self.env.get(t.id)
            new = join(old, ty) if old is not None else ty
            if new != old:
                self.env[t.id] = new
                if new == TAINT and origin is not None:
                    self.why.setdefault(t.id, origin)
                return True
        elif isinstance(t, (ast.Tuple, ast.List)):
            return any([self.bind(e, ty, origin) for e in t.elts])
        return False

    def solve(self):
        changed, rounds = True, 0
        while changed and rounds < 10:
            changed, rounds = False, rounds + 1
            for n in walk_no_nested(self.fn):
                self.origin = None
                if isinstance(n, ast.Assign):
                    ty = self.ty(n.value)
                    for t in n.targets:
                        changed |= self.bind(t, ty, self.origin)
                elif isinstance(n, ast.AugAssign):
                    ty = self.ty(ast.BinOp(left=ast.Name(id=n.target.id, ctx=ast.Load()), op=n.op, right=n.value)) if isinstance(n.target, ast.Name) else UNKT
                    changed |= self.bind(n.target, ty, self.origin)
                elif isinstance(n, ast.AnnAssign) and n.value is not None:
                    changed |= self.bind(n.target, self.ty(n.value), self.origin)
                elif isinstance(n, (ast.For, ast.comprehension)):
                    changed |= self.bind(n.target, UNKT, None)
                elif isinstance(n, ast.NamedExpr):
                    changed |= self.bind(n.target, self.ty(n.value), self.origin)
        out = []
        for n in walk_no_nested(self.fn):
            if isinstance(n, ast.Return) and n.value is not None:
                self.origin = None
                out.append((n, self.ty(n.value) or UNKT, self.origin))
        return out


def int_contract_functions(tree):
    """Module-level functions (the last definition of each name) whose parameters and return are all annotated `int`."""
    last = {}

    def scan(stmts):
        for s in stmts:
            if isinstance(s, ast.FunctionDef):
                last[s.name] = s
            elif isinstance(s, ast.If):
                scan(s.body)
                scan(s.orelse)
            elif isinstance(s, ast.Try):
                scan(s.body)
    scan(tree.body)
    out = []
    for name, fn in sorted(last.items()):
        a = fn.args
        ps = a.posonlyargs + a.args + a.kwonlyargs
        if not ps or a.vararg or a.kwarg:
            continue
        if all(isinstance(p.annotation, ast.Name) and p.annotation.id == 'int' for p in ps) and isinstance(fn.returns, ast.Name) and fn.returns.id == 'int':
            out.append(fn)
    return out


def exact_problems(fn):
    res = []
    for ret, ty, origin in Exact(fn).solve():
        res.append((ret, ty, origin))
    return res


def rule_exact(ctx):
    r = Rule('C38-EXACT', 'the shadow emulations of C integer operators (all-int signature: cdiv, cmod) compute their result with integer-exact operations only '
             '(no value derived from a float reaches the return value)', floor=2)
    tree = ctx.parse(SHADOW)
    fns = int_contract_functions(tree)
    for fn in fns:
        rets = exact_problems(fn)
        if not rets:
            raise AnalysisError('Shadow.%s has no return statement' % fn.name)
        key = 'Shadow.%s:return' % fn.name
        r.inst(key, sample='Shadow.%s: %d return(s), types %s' % (fn.name, len(rets), sorted({t for _, t, _ in rets})))
        bad = [(n, o) for n, t, o in rets if t == TAINT]
        unk = [n for n, t, o in rets if t == UNKT]
        if bad:
            n, o = bad[0]
            r.violate(key, SHADOW, n.lineno,
                      'Shadow.%s(%s) -> int returns `%s`, which is computed through a float (`%s`): a C double keeps 53 bits, so for operands of a 64-bit C '
                      'integer beyond 2**53 (2**53 + 1 is already not representable) the interpreted result is rounded while the compiled module computes the exact C result'
                      % (fn.name, ', '.join(a.arg for a in fn.args.args), node_src(n.value, 60), node_src(o, 60) if o is not None else '?'))
        elif unk:
            r.info('Shadow.%s: return value `%s` goes through a call or operator that is not modelled; exactness not decided' % (fn.name, node_src(unk[0].value, 60)))
    pc_bad = ast.parse("def f(a: int, b: int) -> int:\n    q = a / b\n    if q < 0:\n        return -int(-q)\n    return int(q)\n").body[0]
    pc_ok = ast.parse("def f(a: int, b: int) -> int:\n    q, r = divmod(a, b)\n    if r and (a < 0) != (b < 0):\n        q += 1\n    return q if a / b else q\n").body[0]
    r.positive_control(all(t == TAINT for _, t, _ in exact_problems(pc_bad)) and all(t == INT for _, t, _ in exact_problems(pc_ok))
                       and len(int_contract_functions(ast.Module(body=[pc_bad], type_ignores=[]))) == 1,
                       'quotient computed by true division and converted back with int()')
    return r


# ================================================================================================ C38-EXC
PTT = 'Cython/Compiler/ParseTreeTransforms.py'


def _method(ctx, rel, cls, name):
    for n in ctx.parse(rel).body:
        if isinstance(n, ast.ClassDef) and n.name == cls:
            for f in n.body:
                if isinstance(f, ast.FunctionDef) and f.name == name:
                    return f
    raise AnalysisError('%s: %s.%s vanished' % (rel, cls, name))


def exc_worlds():
    for kind in ('cfunc', 'ccall'):
        for ev in (False, True):
            for ret in (False, True):
                for at in (True, False):
                    for ann in (False, True):
                        yield dict(kind=kind, exceptval=ev, returns=ret, annotation_typing=at, annotation=ann)


def world_name(w):
    return '@%s%s%s, annotation_typing=%s%s' % (w['kind'], ' @exceptval(E)' if w['exceptval'] else '', ' @returns(R)' if w['returns'] else '',
                                                w['annotation_typing'], ', `-> A` annotation' if w['annotation'] else '')


def as_cfunction_default(ctx):
    """What DefNode.as_cfunction does with except_val=None: the literal tuple in `except_val or (<value>, <check>)`."""
    fn = _method(ctx, 'Cython/Compiler/Nodes.py', 'DefNode', 'as_cfunction')
    params = [a.arg for a in fn.args.args[1:]]
    default = None
    for n in walk_no_nested(fn):
        if isinstance(n, ast.BoolOp) and isinstance(n.op, ast.Or) and len(n.values) == 2 and isinstance(n.values[0], ast.Name) and n.values[0].id == 'except_val' \
                and isinstance(n.values[1], ast.Tuple) and len(n.values[1].elts) == 2:
            try:
                default = ast.literal_eval(n.values[1])
            except ValueError:
                default = None
    return params, default


def exc_table(ctx, fn, params, cls_name='AdjustDefByDirectives'):
    """-> [(world, [(returns, except_val, explicit flag, call node)] one per path that reaches as_cfunction)]"""
    E, R, A = Sym('exceptval-directive-value'), Sym('returns-directive-type'), Sym('return-annotation')
    out = []
    for w in exc_worlds():
        table = {'exceptval': E if w['exceptval'] else None, 'returns': R if w['returns'] else None, 'annotation_typing': w['annotation_typing']}
        present = {'cfunc': w['kind'] == 'cfunc', 'ccall': w['kind'] == 'ccall', 'exceptval': w['exceptval'], 'returns': w['returns'], 'annotation_typing': True}
        node = Sym('def-node', dict(return_type_annotation=A if w['annotation'] else None))

        def is_directives(x):
            return is_self_attr(x) and x.attr == 'directives'

        def oracle(n, st, mini):
            if isinstance(n, ast.Call) and isinstance(n.func, ast.Attribute) and n.func.attr == 'get' and is_directives(n.func.value) and n.args \
                    and isinstance(n.args[0], ast.Constant):
                k = n.args[0].value
                if k in table:
                    v = table[k]
                    if v is None and len(n.args) > 1:
                        return mini.ev(n.args[1], st)
                    return v
                return UNK
            if isinstance(n, ast.Subscript) and is_directives(n.value) and isinstance(n.slice, ast.Constant):
                return table.get(n.slice.value, UNK)
            if isinstance(n, ast.Compare) and len(n.ops) == 1 and isinstance(n.ops[0], (ast.In, ast.NotIn)) and is_directives(n.comparators[0]) \
                    and isinstance(n.left, ast.Constant):
                if n.left.value in present:
                    return present[n.left.value] == isinstance(n.ops[0], ast.In)
                return UNK
            return NotImplemented

        def rec(n, st, mini, args, kwargs):
            f = n.func
            if isinstance(f, ast.Attribute) and f.attr == 'as_cfunction':
                kw = dict(zip(params, args))
                kw.update(kwargs)
                st.trace.append(('as_cfunction', kw, n))
                return Sym('cfunc-node', dict(return_type_annotation=None))
            return NotImplemented
        m = Mini(oracle, rec, what='%s.%s' % (cls_name, fn.name))
        pname = fn.args.args[1].arg if len(fn.args.args) > 1 else 'node'
        rows = []
        for st, flow, val in m.run(fn, State(), {pname: node}):
            calls = [e for e in st.trace if e[0] == 'as_cfunction']
            if flow == 'raise' or not calls:
                continue
            if len(calls) > 1:
                raise AnalysisError('%s.%s calls as_cfunction more than once on a path' % (cls_name, fn.name))
            kw = calls[0][1]
            rows.append((kw.get('returns'), kw.get('except_val'), kw.get('has_explicit_exc_clause', False), calls[0][2]))
        out.append((w, rows, (E, R, A)))
    return out


def exc_problems(ctx, fn, params, default):
    for w, rows, (E, R, A) in exc_table(ctx, fn, params):
        name = world_name(w)
        key = 'exc:%s:%s%s%s%s' % (w['kind'], 'E' if w['exceptval'] else '-', 'R' if w['returns'] else '-', 'T' if w['annotation_typing'] else '-', 'A' if w['annotation'] else '-')
        if not rows:
            raise AnalysisError('AdjustDefByDirectives.%s: no path reaches as_cfunction for %s' % (fn.name, name))
        for returns, ev, explicit, call in rows:
            if returns is UNK or ev is UNK or explicit is UNK:
                raise AnalysisError('AdjustDefByDirectives.%s: cannot evaluate the arguments of as_cfunction for %s (returns=%r except_val=%r explicit=%r)'
                                    % (fn.name, name, returns, ev, explicit))
            msg = what = None
            if w['exceptval']:
                what = 'explicit-value' if ev is not E else 'explicit-flag'
                if ev is not E:
                    msg = 'the value of the explicit @exceptval directive is not what is passed as except_val (%r)' % (ev,)
                elif explicit is not True:
                    msg = 'an explicit @exceptval is passed with has_explicit_exc_clause=%r: with legacy_implicit_noexcept the declared exception check is dropped' % (explicit,)
            elif returns is not None:
                eff = default if ev is None else ev
                if eff is None:
                    raise AnalysisError('cannot see what DefNode.as_cfunction does with except_val=None')
                if not (isinstance(eff, tuple) and len(eff) == 2):
                    raise AnalysisError('AdjustDefByDirectives.%s: except_val passed for %s is not a (value, check) pair: %r' % (fn.name, name, eff))
                what = 'implicit-check'
                if eff[1] is not True and eff[0] is None:
                    src = 'the `-> A` return annotation' if returns is A else 'the @returns(R) declaration' if returns is R else repr(returns)
                    msg = ('the C return type from %s is passed to as_cfunction with except_val=%r, i.e. without an exception check (noexcept): an exception '
                           'raised in the function propagates when the module is interpreted, but the compiled function prints "Exception ignored" and returns 0'
                           % (src, eff))
            yield (key, name, msg, call.lineno, (returns, ev, explicit), '%s:%s' % (w['kind'], what))


def rule_exc(ctx):
    r = Rule('C38-EXC', 'decision table of AdjustDefByDirectives.visit_DefNode over {cfunc,ccall} x exceptval x returns x annotation_typing x return annotation: a C return type '
             'without explicit @exceptval gets an exception check; an explicit @exceptval is passed through and flagged explicit', floor=30)
    m = (None, _method(ctx, PTT, 'AdjustDefByDirectives', 'visit_DefNode'))
    params, default = as_cfunction_default(ctx)
    failing, seen = {}, set()
    for key, name, msg, line, row, what in exc_problems(ctx, m[1], params, default):
        if key not in seen:
            seen.add(key)
            r.inst(key, sample='%s -> returns=%r except_val=%r explicit=%r' % ((name,) + row))
        if msg:
            failing.setdefault('exc:' + what, []).append((key, name, msg, line))
    for vkey, lst in sorted(failing.items()):
        worlds = sorted({k for k, _, _, _ in lst})
        r.violate(vkey, PTT, lst[0][3], 'AdjustDefByDirectives.visit_DefNode, %s: %s (%d of 32 decorator combinations fail: %s)'
                  % (lst[0][1], lst[0][2], len(worlds), ' '.join(k.split(':', 2)[2] for k in worlds)))
    pc = ast.parse(
        "class X:\n"
        "  def visit_DefNode(self, node):\n"
        "    except_val = self.directives.get('exceptval')\n"
        "    explicit = except_val is not None\n"
        "    rt = self.directives.get('returns')\n"
        "    if except_val is None:\n      except_val = (None, True if rt else False)\n"
        "    if rt is None and self.directives['annotation_typing']:\n"
        "      rt = node.return_type_annotation\n"
        "      if rt is not None and except_val is None:\n        except_val = (None, True)\n"
        "    if 'ccall' in self.directives:\n      return node.as_cfunction(overridable=True, returns=rt, except_val=except_val, has_explicit_exc_clause=explicit)\n"
        "    if 'cfunc' in self.directives:\n      return node.as_cfunction(overridable=False, returns=rt, except_val=except_val, has_explicit_exc_clause=explicit)\n"
        "    return node\n").body[0].body[0]
    bad = sorted({k for k, _, msg, _, _, _ in exc_problems(ctx, pc, params, default) if msg})
    r.positive_control(bad == ['exc:ccall:--TA', 'exc:cfunc:--TA'], 'default computed before the annotation is looked at')
    return r
