"""Helpers for C17: a small statement-level parser for the C of Cython/Utility/*.c (comments already blanked by
the catalogue) that is good enough to read `switch` tables, fall-through chains, guards and cursor loops.

Nothing here is specific to line numbers or to the layout of the source: statements are recognised structurally
(blocks, if/else, while/for/do, switch with case labels), expressions are kept as normalised text.
"""
import ast, re

from ..core import AnalysisError


class St:
    """kind: simple | block | if | while | for | do | switch | case | default | label | pp"""
    __slots__ = ('kind', 'text', 'body', 'orelse', 'pos')

    def __init__(self, kind, text='', body=None, orelse=None, pos=0):
        self.kind, self.text, self.body, self.orelse, self.pos = kind, text, body, orelse, pos

    def __repr__(self):
        return '<%s %r>' % (self.kind, self.text[:40])


def _skip_quote(s, i):
    q = s[i]
    i += 1
    while i < len(s):
        if s[i] == '\\':
            i += 2
            continue
        if s[i] == q:
            return i + 1
        i += 1
    return i


def _match(s, i, op, cl):
    """s[i] == op -> index just after the matching cl."""
    depth = 0
    while i < len(s):
        ch = s[i]
        if ch in '"\'':
            i = _skip_quote(s, i)
            continue
        if ch == op:
            depth += 1
        elif ch == cl:
            depth -= 1
            if depth == 0:
                return i + 1
        i += 1
    raise AnalysisError('unbalanced %s in C text' % op)


def norm(t):
    return ' '.join(t.split())


class _P:
    def __init__(self, s):
        self.s, self.i = s, 0

    def ws(self):
        s = self.s
        while self.i < len(s) and s[self.i].isspace():
            self.i += 1

    def word(self):
        m = re.compile(r'[A-Za-z_]\w*').match(self.s, self.i)
        return m.group(0) if m else None

    def stmts(self, stop=None):
        out = []
        while True:
            self.ws()
            if self.i >= len(self.s):
                if stop:
                    raise AnalysisError('unterminated block in C text')
                return out
            if stop and self.s[self.i] == stop:
                self.i += 1
                return out
            out.append(self.stmt())

    def paren(self):
        self.ws()
        if self.i >= len(self.s) or self.s[self.i] != '(':
            raise AnalysisError('expected ( in C text near %r' % self.s[self.i:self.i + 30])
        j = _match(self.s, self.i, '(', ')')
        t = self.s[self.i + 1:j - 1]
        self.i = j
        return norm(t)

    def simple(self):
        s, i = self.s, self.i
        start = i
        while i < len(s):
            ch = s[i]
            if ch in '"\'':
                i = _skip_quote(s, i)
                continue
            if ch == '(':
                i = _match(s, i, '(', ')')
                continue
            if ch == '{':
                i = _match(s, i, '{', '}')
                continue
            if ch == ';':
                self.i = i + 1
                return St('simple', norm(s[start:i]), pos=start)
            i += 1
        self.i = i
        return St('simple', norm(s[start:i]), pos=start)

    def stmt(self):
        self.ws()
        s, pos = self.s, self.i
        ch = s[pos]
        if ch == '{':
            self.i += 1
            return St('block', body=self.stmts('}'), pos=pos)
        if ch == ';':
            self.i += 1
            return St('simple', '', pos=pos)
        if ch == '#':
            j = s.find('\n', pos)
            j = len(s) if j < 0 else j
            while s[pos:j].rstrip().endswith('\\') and j < len(s):
                k = s.find('\n', j + 1)
                j = len(s) if k < 0 else k
            self.i = j
            return St('pp', norm(s[pos:j]), pos=pos)
        w = self.word()
        if w in ('if', 'while', 'switch', 'for'):
            self.i += len(w)
            cond = self.paren()
            body = self.stmt()
            orelse = None
            if w == 'if':
                save = self.i
                self.ws()
                if self.word() == 'else':
                    self.i += 4
                    orelse = self.stmt()
                else:
                    self.i = save
            return St(w, cond, body=body, orelse=orelse, pos=pos)
        if w == 'do':
            self.i += 2
            body = self.stmt()
            self.ws()
            if self.word() != 'while':
                raise AnalysisError('do without while in C text')
            self.i += 5
            cond = self.paren()
            self.ws()
            if self.i < len(s) and s[self.i] == ';':
                self.i += 1
            return St('do', cond, body=body, pos=pos)
        if w == 'else':
            raise AnalysisError('dangling else in C text')
        if w == 'case':
            j = self.i + 4
            while j < len(s):
                if s[j] in '"\'':
                    j = _skip_quote(s, j)
                    continue
                if s[j] == ':':
                    break
                j += 1
            self.i = j + 1
            return St('case', norm(s[pos + 4:j]), pos=pos)
        if w == 'default':
            m = re.compile(r'default\s*:').match(s, pos)
            if m:
                self.i = m.end()
                return St('default', pos=pos)
        if w:
            m = re.compile(r'[A-Za-z_]\w*\s*:(?!:)').match(s, pos)
            if m and w not in ('return', 'goto', 'break', 'continue'):
                self.i = m.end()
                return St('label', w, pos=pos)
        return self.simple()


def parse_body(text):
    """C function body text '{ ... }' (or a bare statement list) -> list of St."""
    t = text.strip()
    if t.startswith('{'):
        t = ' ' + t[1:t.rindex('}')]       # keep offsets roughly aligned (not relied upon)
    return _P(t).stmts()


def walk(stmts):
    """All statements, depth first, in source order."""
    for st in stmts:
        yield st
        for sub in (st.body, st.orelse):
            if sub is None:
                continue
            if isinstance(sub, list):
                yield from walk(sub)
            else:
                yield from walk([sub])


def as_list(st):
    if st is None:
        return []
    if isinstance(st, list):
        return st
    if st.kind == 'block':
        return st.body
    return [st]


TERMINATOR = re.compile(r'^(break|continue|return|goto)\b')


def terminates(stmts):
    """True when control can never flow off the end of the statement list (exact for break/continue/return/goto,
    blocks and if/else; loops and switches are taken as possibly completing)."""
    for st in stmts:
        if st.kind == 'simple' and TERMINATOR.match(st.text):
            return True
        if st.kind == 'block' and terminates(st.body):
            return True
        if st.kind == 'if' and st.orelse is not None and terminates(as_list(st.body)) and terminates(as_list(st.orelse)):
            return True
    return False


def char_value(lit):
    """C case label / literal text -> one-character str, or None when it is not a character/integer constant."""
    lit = lit.strip()
    if re.fullmatch(r"'(\\.[0-9A-Fa-f]*|[^'\\])'", lit):
        try:
            v = ast.literal_eval(lit)
        except (SyntaxError, ValueError):
            return None
        return v if isinstance(v, str) and len(v) == 1 else None
    if re.fullmatch(r'\d+', lit):
        n = int(lit, 8 if len(lit) > 1 and lit[0] == '0' else 10)
        return chr(n) if n < 256 else None
    return None


CHAR_LIT = re.compile(r"'(?:\\.[0-9A-Fa-f]*|[^'\\])'")


def char_literals(text):
    out = []
    for m in CHAR_LIT.finditer(text):
        v = char_value(m.group(0))
        if v is not None:
            out.append(v)
    return out


class Arm:
    __slots__ = ('labels', 'default', 'body', 'index')

    def __init__(self, index):
        self.labels, self.default, self.body, self.index = [], False, [], index


def switch_arms(sw):
    """switch statement -> [Arm] in source order (labels at the top level of the switch body only)."""
    arms = []
    cur = None
    fresh = False
    for st in as_list(sw.body):
        if st.kind in ('case', 'default'):
            if cur is None or not fresh:
                cur = Arm(len(arms))
                arms.append(cur)
                fresh = True
            if st.kind == 'default':
                cur.default = True
            else:
                v = char_value(st.text)
                cur.labels.append(v if v is not None else st.text)
        else:
            if cur is None:
                continue        # statements before the first label are unreachable
            cur.body.append(st)
            fresh = False
    return arms


def chain(arms, i):
    """Arms executed when control enters arm i: arm i and every following arm reached by falling through."""
    out = [arms[i]]
    while not terminates(out[-1].body) and out[-1].index + 1 < len(arms):
        out.append(arms[out[-1].index + 1])
    return out


def find_switch(stmts, on=None):
    """First switch statement (depth first) whose controlling expression matches regex `on`."""
    for st in walk(stmts):
        if st.kind == 'switch' and (on is None or re.fullmatch(on, st.text)):
            return st
    return None


def returns_of(stmts):
    """Normalised `return` expressions in a statement list, nested statements included."""
    out = []
    for st in walk(stmts):
        if st.kind == 'simple':
            m = re.match(r'return\b\s*(.*)$', st.text)
            if m:
                out.append(strip_parens(m.group(1)))
    return out


def strip_parens(e):
    e = e.strip()
    while e.startswith('(') and _match(e, 0, '(', ')') == len(e):
        e = e[1:-1].strip()
    return e


class Table:
    """A `switch (ch) { case ...: return X; ... default: ... }` function read as a map char -> return expressions."""

    def __init__(self, name, body_text, on=r'\w+'):
        self.name = name
        stmts = parse_body(body_text)
        sw = find_switch(stmts, on)
        if sw is None:
            raise AnalysisError('%s: no switch statement found' % name)
        self.arms = switch_arms(sw)
        self.map = {}
        self.has_default = False
        for a in self.arms:
            if a.default:
                self.has_default = True
            rets = returns_of([s for arm in chain(self.arms, a.index) for s in arm.body])
            for lab in a.labels:
                self.map[lab] = rets
        self.calls_error = {}
        for a in self.arms:
            txt = ' '.join(s.text for arm in chain(self.arms, a.index) for s in walk(arm.body))
            for lab in a.labels:
                self.calls_error[lab] = txt

    @property
    def chars(self):
        return {k for k in self.map if isinstance(k, str) and len(k) == 1 and k != '\0'}

    def ret(self, c):
        r = self.map.get(c)
        if not r:
            return None
        return r[0] if len(set(r)) == 1 else None


TERNARY = re.compile(r'^(?P<c>[^?]+)\?(?P<a>[^:?]+):(?P<b>[^:?]+)$')


def split_ternary(e):
    """'cond ? a : b' -> (cond, a, b) with parentheses stripped, else None (no nesting supported)."""
    e = strip_parens(e)
    m = TERNARY.match(e)
    if not m:
        return None
    return strip_parens(m.group('c')), strip_parens(m.group('a')), strip_parens(m.group('b'))


def int_value(e):
    e = strip_parens(e)
    return int(e) if re.fullmatch(r'\d+', e) else None


# ------------------------------------------------------------------ cursor loops
def advances(text, p):
    """Does the statement text move the cursor variable p (p++, ++p, *p++, p += n, p = ..., &p handed to a callee)?"""
    p = re.escape(p)
    return bool(re.search(r'(\+\+\s*%s\b|\b%s\s*\+\+|\b%s\s*\+=|(?<![=!<>])\b%s\s*=(?!=)|&\s*%s\b)' % (p, p, p, p, p), text))


def eval_at_nul(cond, p):
    """Truth value of a loop condition when *p == 0; None when the condition is outside the evaluable fragment
    (character/integer constants, comparisons, && || !)."""
    e = re.sub(r'\*\s*%s\b' % re.escape(p), ' 0 ', cond)
    e = CHAR_LIT.sub(lambda m: ' %d ' % ord(char_value(m.group(0))), e)
    e = e.replace('&&', ' and ').replace('||', ' or ')
    e = re.sub(r'!(?!=)', ' not ', e)
    try:
        tree = ast.parse(e.strip(), mode='eval')
    except SyntaxError:
        return None

    def ev(n):
        if isinstance(n, ast.Constant) and isinstance(n.value, int):
            return n.value
        if isinstance(n, ast.BoolOp):
            vals = [ev(v) for v in n.values]
            if isinstance(n.op, ast.And):
                if any(v is not None and not v for v in vals):
                    return False
                return None if any(v is None for v in vals) else True
            if any(v is not None and v for v in vals):
                return True
            return None if any(v is None for v in vals) else False
        if isinstance(n, ast.UnaryOp) and isinstance(n.op, ast.Not):
            v = ev(n.operand)
            return None if v is None else (not v)
        if isinstance(n, ast.Compare) and len(n.ops) == 1:
            a, b = ev(n.left), ev(n.comparators[0])
            if a is None or b is None:
                return None
            op = n.ops[0]
            return {ast.Eq: a == b, ast.NotEq: a != b, ast.Lt: a < b, ast.LtE: a <= b, ast.Gt: a > b, ast.GtE: a >= b}.get(type(op))
        return None
    return ev(tree.body)


def cursor_loops(stmts):
    """-> list of (loop St, cursor name) for while/for/do loops whose condition reads `*p`."""
    out = []
    for st in walk(stmts):
        if st.kind in ('while', 'do', 'for'):
            cond = st.text if st.kind != 'for' else (st.text.split(';') + ['', ''])[1]
            for p in sorted(set(re.findall(r'\*\s*([A-Za-z_]\w*)\b', cond))):
                out.append((st, p))
    return out


PURE_CALLS = ('sizeof', 'likely', 'unlikely', 'if', 'while', 'switch', 'for', 'return')


def has_effect(text):
    """Can evaluating this statement/condition text change program state?  (assignment, ++/--, or a call other than
    sizeof/likely/unlikely).  Over-approximates: anything unrecognised counts as an effect."""
    t = CHAR_LIT.sub("'c'", text)
    t = re.sub(r'"(?:\\.|[^"\\])*"', '""', t)
    if re.search(r'\+\+|--', t):
        return True
    if re.search(r'(?<![=!<>])=(?!=)', t):
        return True
    for m in re.finditer(r'([A-Za-z_]\w*)\s*\(', t):
        if m.group(1) not in PURE_CALLS:
            return True
    return False


def stuck_exits(loop):
    """Back edges of the loop (`continue` statements, or the end of the body: reported as the loop itself) that are
    reachable from the top of the loop body along a path on which *no* statement or branch condition has any side
    effect.  With a side-effect free loop condition such a path repeats forever, so this is an exact
    non-termination witness.  Structured fragment: lists, blocks, if/else, switch arms with fall-through and break;
    nested loops and goto are treated as having an effect."""
    bad = []

    def run(stmts, a):
        """-> (flags possible at normal completion, flags possible at a `break` leaving the enclosing construct);
        flag True = some effect happened on the path."""
        states, brk = {a}, set()
        for st in stmts:
            if not states:
                break
            nxt = set()
            for x in states:
                n, b = step(st, x)
                nxt |= n
                brk |= b
            states = nxt
        return states, brk

    def step(st, a):
        if st.kind == 'simple':
            if re.match(r'continue\b', st.text):
                if not a and st not in bad:
                    bad.append(st)
                return set(), set()
            if re.match(r'break\b', st.text):
                return set(), {a}
            if TERMINATOR.match(st.text):
                return set(), set()
            return {a or has_effect(st.text)}, set()
        if st.kind == 'block':
            return run(st.body, a)
        if st.kind == 'if':
            a2 = a or has_effect(st.text)
            n1, b1 = run(as_list(st.body), a2)
            n2, b2 = run(as_list(st.orelse), a2) if st.orelse is not None else ({a2}, set())
            return n1 | n2, b1 | b2
        if st.kind == 'switch':
            a2 = a or has_effect(st.text)
            arms = switch_arms(st)
            out = set()
            if not any(arm.default for arm in arms):
                out.add(a2)
            for arm in arms:
                cur = {a2}
                for link in arms[arm.index:]:
                    nxt = set()
                    for x in cur:
                        n, b = run(link.body, x)
                        nxt |= n
                        out |= b
                    cur = nxt
                    if not cur:
                        break
                out |= cur
            return out, set()
        if st.kind in ('while', 'for', 'do'):
            return {True}, set()
        if st.kind in ('case', 'default', 'pp'):
            return {a}, set()
        return {True}, set()

    end, _ = run(as_list(loop.body), False)
    if False in end:
        bad.append(loop)
    return bad


# ------------------------------------------------------------------ path explorer (round 4)
# A small path-sensitive executor over the St trees above, for must-precede / dominance / def-use obligations in the
# acquisition entry points and the format scanner.  Conditions are parsed with engine/cexpr and decomposed along
# && || ! (short-circuit order); an atom that is the truth value of a variable / field forks the path and refines that
# variable's zero-ness; any other atom forks and is recorded as a fact (normalised text, truth).  Values are tracked
# only as far as constant propagation and copies go (`x = NULL`, `y = x`, `x = f(...)` -> fresh symbol).  A call that is
# handed a pointer (`ctx`, `&x`, `buf`) forgets what was known about the memory reachable from it.  Forward `goto`s
# are followed to their label in the function's top-level statement list.  Nothing is guessed: an unparsable
# condition is an opaque atom keyed by its text, preprocessor conditionals inside the explored code raise.
from ..engine import cexpr as _cx


class Unmodelled(Exception):
    pass


def _prep(text):
    """Cython's `$name` substitution markers and `(struct name *)` casts, which engine/cexpr does not tokenise, in a parsable spelling."""
    t = re.sub(r'\(\s*(?:const\s+)?struct\s+\$?\w+\s*(\*+)\s*\)', lambda m: '(PyObject %s)' % m.group(1), text)
    t = re.sub(r'\$(\w+)', r'\1', t)
    # ((T *) x)->f  ->  x->f   (the tokenizer has no `->` after a parenthesis)
    return re.sub(r'\(\s*\(\s*\w+\s*\*+\s*\)\s*([A-Za-z_]\w*(?:->\w+)*)\s*\)\s*->', r'\1->', t)


def _parse(text):
    return _cx.parse(_prep(text))


def show(e):
    """cexpr AST -> normalised text (stable under whitespace / redundant parentheses / likely())."""
    k = e[0]
    if k == 'num':
        return str(e[1])
    if k == 'char':
        return repr(chr(e[1])) if 32 <= e[1] < 127 else str(e[1])
    if k == 'id':
        return e[1]
    if k == 'sizeof':
        return 'sizeof(%s)' % e[1]
    if k == 'cast':
        return show(e[2])
    if k == 'un':
        return '%s%s' % (e[1], show(e[2]))
    if k == 'tern':
        return '(%s ? %s : %s)' % (show(e[1]), show(e[2]), show(e[3]))
    if k == 'call':
        if e[1] in ('likely', 'unlikely') and len(e[2]) == 1:
            return show(e[2][0])
        return '%s(%s)' % (e[1], ', '.join(show(a) for a in e[2]))
    if k == 'bin':
        if e[1] == '[]':
            return '%s[%s]' % (show(e[2]), show(e[3]))
        return '(%s %s %s)' % (show(e[2]), e[1], show(e[3]))
    return '?'


def _is_null_const(e):
    return (e[0] == 'id' and e[1] == 'NULL') or (e[0] == 'num' and e[1] == 0) or (e[0] == 'cast' and _is_null_const(e[2]))


def _strip(e):
    while True:
        if e[0] == 'cast':
            e = e[2]
        elif e[0] == 'call' and e[1] in ('likely', 'unlikely') and len(e[2]) == 1:
            e = e[2][0]
        else:
            return e


LVALUE = re.compile(r'[A-Za-z_]\w*(?:\s*(?:->|\.)\s*\w+)*(?:\s*\[[^\]]*\])*')
ASSIGN_ST = re.compile(r'^(?P<decl>(?:(?:const|unsigned|signed|struct|static)\s+)*(?:[A-Za-z_]\w*[\s\*]+)+?)?(?P<lhs>\*?\s*[A-Za-z_]\w*(?:\s*(?:->|\.)\s*\w+)*(?:\s*\[[^\]]*\])*)\s*'
                       r'(?P<op>=|\+=|-=|\*=|/=|%=|\|=|&=)(?!=)\s*(?P<rhs>.+)$', re.S)


class PState:
    __slots__ = ('env', 'zero', 'facts', 'events', 'seq', 'gotos')

    def __init__(self):
        self.env, self.zero, self.facts, self.events, self.seq, self.gotos = {}, {}, [], [], 0, 0

    def copy(self):
        n = PState()
        n.env, n.zero, n.facts, n.events, n.seq, n.gotos = dict(self.env), dict(self.zero), list(self.facts), list(self.events), self.seq, self.gotos
        return n

    def tick(self):
        self.seq += 1
        return self.seq

    # values: ('const', int) | ('sym', n)
    def value(self, path):
        path = re.sub(r'\s+', '', path)
        if path not in self.env:
            self.env[path] = ('sym', self.tick())
        return self.env[path]

    def is_zero(self, val):
        """True / False / None (unknown)"""
        if val[0] == 'const':
            return val[1] == 0
        return self.zero.get(val[1])

    def forget_reachable(self, base):
        for k in [k for k in self.env if k == base or k.startswith(base + '->') or k.startswith(base + '.') or k.startswith(base + '[') or k.startswith('*' + base)]:
            del self.env[k]

    def fact(self, text, truth):
        self.facts.append((text, truth, self.tick()))

    def event(self, kind, text, extra=None):
        self.events.append((kind, text, extra, self.tick()))

    def holds(self, text):
        """last recorded truth of a fact text (None when never decided on this path)"""
        for t, v, _ in reversed(self.facts):
            if t == text:
                return v
        return None


class Explorer:
    MAX_PATHS = 60000

    def __init__(self, top, consts=None):
        self.top = top
        self.consts = dict(consts or {})
        self.consts.setdefault('NULL', 0)
        self.count = 0

    # ---------------------------------------------------------------- expressions
    def _calls(self, e, st):
        for x in _cx.walk(e):
            if x[0] == 'call' and x[1] not in ('likely', 'unlikely'):
                st.event('call', x[1], [show(a) for a in x[2]])
                for a in x[2]:
                    a = _strip(a)
                    if a[0] == 'un' and a[1] == '&':
                        a = _strip(a[2])
                    if a[0] == 'id':
                        base = re.split(r'->|\.', a[1])[0]
                        st.forget_reachable(base)

    def _reads(self, e, st):
        for x in _cx.walk(e):
            if x[0] == 'id' and x[1] not in self.consts:
                st.event('read', re.sub(r'\s+', '', x[1]))

    def const_of(self, e, st):
        """-> int or None"""
        e = _strip(e)
        if e[0] in ('num', 'char'):
            return e[1]
        if e[0] == 'id':
            if e[1] in self.consts:
                return self.consts[e[1]]
            v = st.env.get(re.sub(r'\s+', '', e[1]))
            if v and v[0] == 'const':
                return v[1]
            return None
        if e[0] == 'bin' and e[1] == '[]':
            v = st.env.get(re.sub(r'\s+', '', show(e)))
            return v[1] if v and v[0] == 'const' else None
        if e[0] == 'sizeof':
            return self.consts.get('sizeof(%s)' % re.sub(r'\s+', '', e[1]))
        if e[0] == 'tern':
            c = self.const_of(e[1], st)
            if c is None:
                return None
            return self.const_of(e[2] if c else e[3], st)
        if e[0] == 'bin' and e[1] in ('&&', '||'):
            a = self.const_of(e[2], st)
            if a is not None and bool(a) != (e[1] == '&&'):
                return int(bool(a))
            b = self.const_of(e[3], st)
            if a is None or b is None:
                return None
            return int(bool(b))
        if e[0] == 'un' and e[1] in '-+~!':
            v = self.const_of(e[2], st)
            if v is None:
                return None
            return {'-': -v, '+': v, '~': ~v, '!': int(not v)}[e[1]]
        if e[0] == 'bin' and e[1] not in ('[]', '&&', '||'):
            a, b = self.const_of(e[2], st), self.const_of(e[3], st)
            if a is None or b is None:
                return None
            try:
                return _cx.evaluate(('bin', e[1], ('num', a), ('num', b)), {})
            except _cx.EvalError:
                return None
        return None

    def branch(self, e, st):
        """-> [(state, truth)]; forks st as needed (st itself may be reused for one outcome)."""
        e = _strip(e)
        k = e[0]
        if k == 'bin' and e[1] in ('&&', '||'):
            out = []
            for s1, t1 in self.branch(e[2], st):
                if (e[1] == '&&') != t1:
                    out.append((s1, t1))
                else:
                    out.extend(self.branch(e[3], s1))
            return out
        if k == 'un' and e[1] == '!':
            return [(s, not t) for s, t in self.branch(e[2], st)]
        c = self.const_of(e, st)
        if c is not None:
            return [(st, bool(c))]
        if k == 'bin' and e[1] in ('==', '!='):
            a, b = _strip(e[2]), _strip(e[3])
            if _is_null_const(b) and a[0] == 'id':
                return [(s, t if e[1] == '!=' else not t) for s, t in self._truth_of(a[1], st)]
            if _is_null_const(a) and b[0] == 'id':
                return [(s, t if e[1] == '!=' else not t) for s, t in self._truth_of(b[1], st)]
            # same symbol on both sides / two known constants
            if a[0] == 'id' and b[0] == 'id':
                va, vb = st.env.get(re.sub(r'\s+', '', a[1])), st.env.get(re.sub(r'\s+', '', b[1]))
                if va is not None and va == vb:
                    return [(st, e[1] == '==')]
            text = show(('bin', '==', e[2], e[3]))
            return [(s, t if e[1] == '==' else not t) for s, t in self._atom(text, ('bin', '==', e[2], e[3]), st)]
        if k == 'id':
            return self._truth_of(e[1], st)
        return self._atom(show(e), e, st)

    def _truth_of(self, path, st):
        val = st.value(path)
        z = st.is_zero(val)
        st.event('read', re.sub(r'\s+', '', path))
        if z is not None:
            return [(st, not z)]
        a, b = st, st.copy()
        a.zero[val[1]] = False
        b.zero[val[1]] = True
        a.fact(re.sub(r'\s+', '', path), True)
        b.fact(re.sub(r'\s+', '', path), False)
        return [(a, True), (b, False)]

    def _atom(self, text, e, st):
        self._reads(e, st)
        self._calls(e, st)
        known = None
        # a repeated pure atom keeps its value as long as nothing it reads was forgotten: only for call-free atoms
        if not any(x[0] == 'call' for x in _cx.walk(e)):
            known = st.holds(text)
            if known is not None:
                ids = [re.sub(r'\s+', '', x[1]) for x in _cx.walk(e) if x[0] == 'id']
                last = max((q for t, v, q in st.facts if t == text), default=0)
                if any(ev[0] == 'write' and ev[1] in ids and ev[3] > last for ev in st.events) or \
                        any(ev[0] == 'call' and ev[3] > last for ev in st.events):
                    known = None
        if known is not None:
            return [(st, known)]
        a, b = st, st.copy()
        a.fact(text, True)
        b.fact(text, False)
        return [(a, True), (b, False)]

    def cond(self, text, st):
        try:
            e = _parse(text)
        except _cx.ParseError:
            t = 'opaque:' + norm(text)
            st.event('opaque', t)
            a, b = st, st.copy()
            a.fact(t, True)
            b.fact(t, False)
            return [(a, True), (b, False)]
        return self.branch(e, st)

    # ---------------------------------------------------------------- statements
    def _assign(self, lhs, op, rhs, st):
        lhs_n = re.sub(r'\s+', '', lhs)
        try:
            e = _parse(re.sub(r'(\+\+|--)', '', rhs))
        except _cx.ParseError:
            e = None
        if e is not None:
            self._reads(e, st)
            self._calls(e, st)
        for m in re.finditer(r'(?:\+\+|--)\s*(%s)|(%s)\s*(?:\+\+|--)' % (LVALUE.pattern, LVALUE.pattern), rhs):
            tgt = re.sub(r'\s+', '', m.group(1) or m.group(2))
            st.event('write', tgt, 'incdec')
            st.env.pop(tgt, None)
        if op != '=':
            st.event('read', lhs_n)
        st.event('write', lhs_n, (op, norm(rhs)))
        newval = None
        if op in ('+=', '-=', '*=') and e is not None:
            c = self.const_of(e, st)
            cur = st.env.get(lhs_n)
            if c is not None and cur is not None and cur[0] == 'const':
                newval = ('const', cur[1] + c if op == '+=' else cur[1] - c if op == '-=' else cur[1] * c)
        if op == '=' and e is not None:
            c = self.const_of(e, st)
            s = _strip(e)
            if c is not None:
                newval = ('const', c)
            elif s[0] == 'id' and not re.search(r'\+\+|--', rhs):
                newval = st.value(s[1])
        st.forget_reachable(lhs_n)
        st.env[lhs_n] = newval if newval is not None else ('sym', st.tick())

    DECL_HEAD = re.compile(r'^(?P<type>(?:(?:const|unsigned|signed|struct|static|volatile|register)\s+)*[A-Za-z_$]\w*(?:\s+(?:const|long|int|char|short|double))*[\s\*]+(?:const\s+)?)'
                           r'(?P<name>[A-Za-z_]\w*)\s*(?:\[[^\]]*\])?\s*(?:=(?!=)\s*(?P<rhs>.+))?$', re.S)

    @classmethod
    def _declaration(cls, t):
        """`T a, *b = x, c[3]` -> [(name, rhs or None)]; None when the statement is not a declaration"""
        if re.match(r'^(return|goto|break|continue|else|case|sizeof)\b', t):
            return None
        parts = [p.strip() for p in _split_top(t, ',')]
        m = cls.DECL_HEAD.match(parts[0])
        if not m or m.group('type').split()[0] in ('return', 'goto'):
            return None
        out = [(m.group('name'), m.group('rhs'))]
        for p in parts[1:]:
            mm = re.match(r'^\**\s*(?P<name>[A-Za-z_]\w*)\s*(?:\[[^\]]*\])?\s*(?:=(?!=)\s*(?P<rhs>.+))?$', p, re.S)
            if not mm:
                return None
            out.append((mm.group('name'), mm.group('rhs')))
        return out

    def simple(self, s, st):
        t = s.text.strip()
        if not t or t.startswith('CYTHON_FALLTHROUGH') or t.startswith('CYTHON_UNUSED_VAR') or t.startswith('CYTHON_MAYBE_UNUSED_VAR'):
            return [(st, ('fall',))]
        m = re.match(r'return\b\s*(.*)$', t, re.S)
        if m:
            expr = m.group(1).strip()
            if expr:
                try:
                    e = _parse(expr)
                    self._reads(e, st)
                    self._calls(e, st)
                except _cx.ParseError:
                    pass
            return [(st, ('return', expr))]
        m = re.match(r'goto\s+(\w+)$', t)
        if m:
            return [(st, ('goto', m.group(1)))]
        if t == 'break':
            return [(st, ('break',))]
        if t == 'continue':
            return [(st, ('continue',))]
        m = re.match(r'^(?:\+\+|--)\s*(%s)$|^(%s)\s*(?:\+\+|--)$' % (LVALUE.pattern, LVALUE.pattern), t)
        if m:
            tgt = re.sub(r'\s+', '', m.group(1) or m.group(2))
            st.event('read', tgt)
            st.event('write', tgt, 'incdec')
            st.forget_reachable(tgt)
            st.env[tgt] = ('sym', st.tick())
            return [(st, ('fall',))]
        decl = self._declaration(t)
        if decl is not None:
            for name, rhs in decl:
                if rhs is not None:
                    self._assign(name, '=', rhs, st)
            return [(st, ('fall',))]
        m = ASSIGN_ST.match(t)
        if m and not m.group('decl') and not re.match(r'^[A-Za-z_]\w*\s*\(', t):
            self._assign(m.group('lhs'), m.group('op'), m.group('rhs'), st)
            return [(st, ('fall',))]
        try:
            e = _parse(t)
            self._reads(e, st)
            self._calls(e, st)
        except _cx.ParseError:
            st.event('opaque', norm(t))
        return [(st, ('fall',))]

    def stmt(self, s, st):
        self.count += 1
        if self.count > self.MAX_PATHS * 40:
            raise Unmodelled('path explosion')
        k = s.kind
        if k == 'simple':
            return self.simple(s, st)
        if k == 'block':
            return self.stmts(s.body, st)
        if k in ('label', 'case', 'default'):
            return [(st, ('fall',))]
        if k == 'pp':
            if re.match(r'#\s*(if|ifdef|ifndef|else|elif|endif)\b', s.text):
                raise Unmodelled('preprocessor conditional inside explored code: %s' % s.text[:40])
            return [(st, ('fall',))]
        if k == 'if':
            out = []
            for s1, t in self.cond(s.text, st):
                br = s.body if t else s.orelse
                if br is None:
                    out.append((s1, ('fall',)))
                else:
                    out.extend(self.stmts(as_list(br), s1))
            return out
        if k in ('while', 'for', 'do'):
            out = []
            base = st
            if k == 'for':
                parts = _split_top(s.text, ';')
                if len(parts) == 3 and parts[0].strip():
                    for p in _split_top(parts[0], ','):
                        self.simple(St('simple', p.strip()), base)
                ctext = parts[1].strip() if len(parts) == 3 else ''
            else:
                ctext = s.text
            always = ctext.strip() in ('1', '') or (k == 'do')
            if not always:
                out.append((base.copy(), ('fall',)))         # zero iterations
            base.event('loop', norm(ctext))
            for s1, ex in self.stmts(as_list(s.body), base):
                if ex[0] in ('fall', 'break', 'continue'):
                    # whatever the body changed may change again: forget the written places
                    for ev in s1.events:
                        if ev[0] == 'write' and ev[3] > 0:
                            pass
                    out.append((s1, ('fall',)))
                else:
                    out.append((s1, ex))
            return out
        if k == 'switch':
            arms = switch_arms(s)
            out = []
            try:
                e = _parse(s.text)
                self._reads(e, st)
            except _cx.ParseError:
                pass
            if not any(a.default for a in arms):
                out.append((st.copy(), ('fall',)))
            for a in arms:
                s0 = st.copy()
                s0.fact('switch(%s)' % norm(s.text), tuple(sorted(str(l) for l in a.labels)) or ('default',))
                body = [x for link in arms[a.index:] for x in link.body]
                for s1, ex in self.stmts(body, s0):
                    out.append((s1, ('fall',) if ex[0] in ('break', 'fall') else ex))
            return out
        raise Unmodelled('statement kind %s' % k)

    def stmts(self, lst, st):
        results, cur = [], [st]
        for s in lst:
            nxt = []
            for state in cur:
                for s1, ex in self.stmt(s, state):
                    if ex[0] == 'fall':
                        nxt.append(s1)
                    else:
                        results.append((s1, ex))
            cur = nxt
            if len(cur) + len(results) > self.MAX_PATHS:
                raise Unmodelled('more than %d paths' % self.MAX_PATHS)
            if not cur:
                break
        results.extend((s, ('fall',)) for s in cur)
        return results

    def function(self, st=None):
        """All complete paths through the top-level list -> [(state, ('return', expr) | ('end',))]; gotos followed to top-level labels."""
        done = []
        work = [(st or PState(), 0)]
        while work:
            state, start = work.pop()
            for s1, ex in self.stmts(self.top[start:], state):
                if ex[0] == 'goto':
                    idx = [i for i, x in enumerate(self.top) if x.kind == 'label' and x.text == ex[1]]
                    if not idx:
                        raise Unmodelled('goto %s: label not at the top level of the function' % ex[1])
                    s1.gotos += 1
                    if s1.gotos > 6:
                        raise Unmodelled('goto chain too long')
                    s1.event('goto', ex[1])
                    work.append((s1, idx[0] + 1))
                elif ex[0] == 'return':
                    done.append((s1, ex))
                elif ex[0] == 'fall':
                    done.append((s1, ('end',)))
                else:
                    raise Unmodelled('%s outside a loop/switch' % ex[0])
                if len(done) > self.MAX_PATHS:
                    raise Unmodelled('more than %d paths' % self.MAX_PATHS)
        return done


def _split_top(text, sep):
    out, depth, cur, i = [], 0, '', 0
    while i < len(text):
        ch = text[i]
        if ch in '"\'':
            j = _skip_quote(text, i)
            cur += text[i:j]
            i = j
            continue
        if ch in '([{':
            depth += 1
        elif ch in ')]}':
            depth -= 1
        if ch == sep and depth == 0:
            out.append(cur)
            cur = ''
        else:
            cur += ch
        i += 1
    out.append(cur)
    return out
