"""Helpers for C17: a small statement-level parser for the C of Cython/Utility/*.c (comments already blanked by
the catalogue) that is good enough to read `switch` tables, fall-through chains, guards and cursor loops.

Nothing here is specific to line numbers or to the layout of the source: statements are recognised structurally
(blocks, if/else, while/for/do, switch with case labels), expressions are kept as normalised text.
"""
import ast, re

from ..core import AnalysisError


class St:
    """kind: simple | block | if | while | for | do | switch | case | default | label | pp"""
    __slots__ = ('kind', 'text', 'body', 'orelse', 'pos')

    def __init__(self, kind, text='', body=None, orelse=None, pos=0):
        self.kind, self.text, self.body, self.orelse, self.pos = kind, text, body, orelse, pos

    def __repr__(self):
        return '<%s %r>' % (self.kind, self.text[:40])


def _skip_quote(s, i):
    q = s[i]
    i += 1
    while i < len(s):
        if s[i] == '\\':
            i += 2
            continue
        if s[i] == q:
            return i + 1
        i += 1
    return i


def _match(s, i, op, cl):
    """s[i] == op -> index just after the matching cl."""
    depth = 0
    while i < len(s):
        ch = s[i]
        if ch in '"\'':
            i = _skip_quote(s, i)
            continue
        if ch == op:
            depth += 1
        elif ch == cl:
            depth -= 1
            if depth == 0:
                return i + 1
        i += 1
    raise AnalysisError('unbalanced %s in C text' % op)


def norm(t):
    return ' '.join(t.split())


class _P:
    def __init__(self, s):
        self.s, self.i = s, 0

    def ws(self):
        s = self.s
        while self.i < len(s) and s[self.i].isspace():
            self.i += 1

    def word(self):
        m = re.compile(r'[A-Za-z_]\w*').match(self.s, self.i)
        return m.group(0) if m else None

    def stmts(self, stop=None):
        out = []
        while True:
            self.ws()
            if self.i >= len(self.s):
                if stop:
                    raise AnalysisError('unterminated block in C text')
                return out
            if stop and self.s[self.i] == stop:
                self.i += 1
                return out
            out.append(self.stmt())

    def paren(self):
        self.ws()
        if self.i >= len(self.s) or self.s[self.i] != '(':
            raise AnalysisError('expected ( in C text near %r' % self.s[self.i:self.i + 30])
        j = _match(self.s, self.i, '(', ')')
        t = self.s[self.i + 1:j - 1]
        self.i = j
        return norm(t)

    def simple(self):
        s, i = self.s, self.i
        start = i
        while i < len(s):
            ch = s[i]
            if ch in '"\'':
                i = _skip_quote(s, i)
                continue
            if ch == '(':
                i = _match(s, i, '(', ')')
                continue
            if ch == '{':
                i = _match(s, i, '{', '}')
                continue
            if ch == ';':
                self.i = i + 1
                return St('simple', norm(s[start:i]), pos=start)
            i += 1
        self.i = i
        return St('simple', norm(s[start:i]), pos=start)

    def stmt(self):
        self.ws()
        s, pos = self.s, self.i
        ch = s[pos]
        if ch == '{':
            self.i += 1
            return St('block', body=self.stmts('}'), pos=pos)
        if ch == ';':
            self.i += 1
            return St('simple', '', pos=pos)
        if ch == '#':
            j = s.find('\n', pos)
            j = len(s) if j < 0 else j
            while s[pos:j].rstrip().endswith('\\') and j < len(s):
                k = s.find('\n', j + 1)
                j = len(s) if k < 0 else k
            self.i = j
            return St('pp', norm(s[pos:j]), pos=pos)
        w = self.word()
        if w in ('if', 'while', 'switch', 'for'):
            self.i += len(w)
            cond = self.paren()
            body = self.stmt()
            orelse = None
            if w == 'if':
                save = self.i
                self.ws()
                if self.word() == 'else':
                    self.i += 4
                    orelse = self.stmt()
                else:
                    self.i = save
            return St(w, cond, body=body, orelse=orelse, pos=pos)
        if w == 'do':
            self.i += 2
            body = self.stmt()
            self.ws()
            if self.word() != 'while':
                raise AnalysisError('do without while in C text')
            self.i += 5
            cond = self.paren()
            self.ws()
            if self.i < len(s) and s[self.i] == ';':
                self.i += 1
            return St('do', cond, body=body, pos=pos)
        if w == 'else':
            raise AnalysisError('dangling else in C text')
        if w == 'case':
            j = self.i + 4
            while j < len(s):
                if s[j] in '"\'':
                    j = _skip_quote(s, j)
                    continue
                if s[j] == ':':
                    break
                j += 1
            self.i = j + 1
            return St('case', norm(s[pos + 4:j]), pos=pos)
        if w == 'default':
            m = re.compile(r'default\s*:').match(s, pos)
            if m:
                self.i = m.end()
                return St('default', pos=pos)
        if w:
            m = re.compile(r'[A-Za-z_]\w*\s*:(?!:)').match(s, pos)
            if m and w not in ('return', 'goto', 'break', 'continue'):
                self.i = m.end()
                return St('label', w, pos=pos)
        return self.simple()


def parse_body(text):
    """C function body text '{ ... }' (or a bare statement list) -> list of St."""
    t = text.strip()
    if t.startswith('{'):
        t = ' ' + t[1:t.rindex('}')]       # keep offsets roughly aligned (not relied upon)
    return _P(t).stmts()


def walk(stmts):
    """All statements, depth first, in source order."""
    for st in stmts:
        yield st
        for sub in (st.body, st.orelse):
            if sub is None:
                continue
            if isinstance(sub, list):
                yield from walk(sub)
            else:
                yield from walk([sub])


def as_list(st):
    if st is None:
        return []
    if isinstance(st, list):
        return st
    if st.kind == 'block':
        return st.body
    return [st]


TERMINATOR = re.compile(r'^(break|continue|return|goto)\b')


def terminates(stmts):
    """True when control can never flow off the end of the statement list (exact for break/continue/return/goto,
    blocks and if/else; loops and switches are taken as possibly completing)."""
    for st in stmts:
        if st.kind == 'simple' and TERMINATOR.match(st.text):
            return True
        if st.kind == 'block' and terminates(st.body):
            return True
        if st.kind == 'if' and st.orelse is not None and terminates(as_list(st.body)) and terminates(as_list(st.orelse)):
            return True
    return False


def char_value(lit):
    """C case label / literal text -> one-character str, or None when it is not a character/integer constant."""
    lit = lit.strip()
    if re.fullmatch(r"'(\\.[0-9A-Fa-f]*|[^'\\])'", lit):
        try:
            v = ast.literal_eval(lit)
        except (SyntaxError, ValueError):
            return None
        return v if isinstance(v, str) and len(v) == 1 else None
    if re.fullmatch(r'\d+', lit):
        n = int(lit, 8 if len(lit) > 1 and lit[0] == '0' else 10)
        return chr(n) if n < 256 else None
    return None


CHAR_LIT = re.compile(r"'(?:\\.[0-9A-Fa-f]*|[^'\\])'")


def char_literals(text):
    out = []
    for m in CHAR_LIT.finditer(text):
        v = char_value(m.group(0))
        if v is not None:
            out.append(v)
    return out


class Arm:
    __slots__ = ('labels', 'default', 'body', 'index')

    def __init__(self, index):
        self.labels, self.default, self.body, self.index = [], False, [], index


def switch_arms(sw):
    """switch statement -> [Arm] in source order (labels at the top level of the switch body only)."""
    arms = []
    cur = None
    fresh = False
    for st in as_list(sw.body):
        if st.kind in ('case', 'default'):
            if cur is None or not fresh:
                cur = Arm(len(arms))
                arms.append(cur)
                fresh = True
            if st.kind == 'default':
                cur.default = True
            else:
                v = char_value(st.text)
                cur.labels.append(v if v is not None else st.text)
        else:
            if cur is None:
                continue        # statements before the first label are unreachable
            cur.body.append(st)
            fresh = False
    return arms


def chain(arms, i):
    """Arms executed when control enters arm i: arm i and every following arm reached by falling through."""
    out = [arms[i]]
    while not terminates(out[-1].body) and out[-1].index + 1 < len(arms):
        out.append(arms[out[-1].index + 1])
    return out


def find_switch(stmts, on=None):
    """First switch statement (depth first) whose controlling expression matches regex `on`."""
    for st in walk(stmts):
        if st.kind == 'switch' and (on is None or re.fullmatch(on, st.text)):
            return st
    return None


def returns_of(stmts):
    """Normalised `return` expressions in a statement list, nested statements included."""
    out = []
    for st in walk(stmts):
        if st.kind == 'simple':
            m = re.match(r'return\b\s*(.*)$', st.text)
            if m:
                out.append(strip_parens(m.group(1)))
    return out


def strip_parens(e):
    e = e.strip()
    while e.startswith('(') and _match(e, 0, '(', ')') == len(e):
        e = e[1:-1].strip()
    return e


class Table:
    """A `switch (ch) { case ...: return X; ... default: ... }` function read as a map char -> return expressions."""

    def __init__(self, name, body_text, on=r'\w+'):
        self.name = name
        stmts = parse_body(body_text)
        sw = find_switch(stmts, on)
        if sw is None:
            raise AnalysisError('%s: no switch statement found' % name)
        self.arms = switch_arms(sw)
        self.map = {}
        self.has_default = False
        for a in self.arms:
            if a.default:
                self.has_default = True
            rets = returns_of([s for arm in chain(self.arms, a.index) for s in arm.body])
            for lab in a.labels:
                self.map[lab] = rets
        self.calls_error = {}
        for a in self.arms:
            txt = ' '.join(s.text for arm in chain(self.arms, a.index) for s in walk(arm.body))
            for lab in a.labels:
                self.calls_error[lab] = txt

    @property
    def chars(self):
        return {k for k in self.map if isinstance(k, str) and len(k) == 1 and k != '\0'}

    def ret(self, c):
        r = self.map.get(c)
        if not r:
            return None
        return r[0] if len(set(r)) == 1 else None


TERNARY = re.compile(r'^(?P<c>[^?]+)\?(?P<a>[^:?]+):(?P<b>[^:?]+)$')


def split_ternary(e):
    """'cond ? a : b' -> (cond, a, b) with parentheses stripped, else None (no nesting supported)."""
    e = strip_parens(e)
    m = TERNARY.match(e)
    if not m:
        return None
    return strip_parens(m.group('c')), strip_parens(m.group('a')), strip_parens(m.group('b'))


def int_value(e):
    e = strip_parens(e)
    return int(e) if re.fullmatch(r'\d+', e) else None


# ------------------------------------------------------------------ cursor loops
def advances(text, p):
    """Does the statement text move the cursor variable p (p++, ++p, *p++, p += n, p = ..., &p handed to a callee)?"""
    p = re.escape(p)
    return bool(re.search(r'(\+\+\s*%s\b|\b%s\s*\+\+|\b%s\s*\+=|(?<![=!<>])\b%s\s*=(?!=)|&\s*%s\b)' % (p, p, p, p, p), text))


def eval_at_nul(cond, p):
    """Truth value of a loop condition when *p == 0; None when the condition is outside the evaluable fragment
    (character/integer constants, comparisons, && || !)."""
    e = re.sub(r'\*\s*%s\b' % re.escape(p), ' 0 ', cond)
    e = CHAR_LIT.sub(lambda m: ' %d ' % ord(char_value(m.group(0))), e)
    e = e.replace('&&', ' and ').replace('||', ' or ')
    e = re.sub(r'!(?!=)', ' not ', e)
    try:
        tree = ast.parse(e.strip(), mode='eval')
    except SyntaxError:
        return None

    def ev(n):
        if isinstance(n, ast.Constant) and isinstance(n.value, int):
            return n.value
        if isinstance(n, ast.BoolOp):
            vals = [ev(v) for v in n.values]
            if isinstance(n.op, ast.And):
                if any(v is not None and not v for v in vals):
                    return False
                return None if any(v is None for v in vals) else True
            if any(v is not None and v for v in vals):
                return True
            return None if any(v is None for v in vals) else False
        if isinstance(n, ast.UnaryOp) and isinstance(n.op, ast.Not):
            v = ev(n.operand)
            return None if v is None else (not v)
        if isinstance(n, ast.Compare) and len(n.ops) == 1:
            a, b = ev(n.left), ev(n.comparators[0])
            if a is None or b is None:
                return None
            op = n.ops[0]
            return {ast.Eq: a == b, ast.NotEq: a != b, ast.Lt: a < b, ast.LtE: a <= b, ast.Gt: a > b, ast.GtE: a >= b}.get(type(op))
        return None
    return ev(tree.body)


def cursor_loops(stmts):
    """-> list of (loop St, cursor name) for while/for/do loops whose condition reads `*p`."""
    out = []
    for st in walk(stmts):
        if st.kind in ('while', 'do', 'for'):
            cond = st.text if st.kind != 'for' else (st.text.split(';') + ['', ''])[1]
            for p in sorted(set(re.findall(r'\*\s*([A-Za-z_]\w*)\b', cond))):
                out.append((st, p))
    return out


PURE_CALLS = ('sizeof', 'likely', 'unlikely', 'if', 'while', 'switch', 'for', 'return')


def has_effect(text):
    """Can evaluating this statement/condition text change program state?  (assignment, ++/--, or a call other than
    sizeof/likely/unlikely).  Over-approximates: anything unrecognised counts as an effect."""
    t = CHAR_LIT.sub("'c'", text)
    t = re.sub(r'"(?:\\.|[^"\\])*"', '""', t)
    if re.search(r'\+\+|--', t):
        return True
    if re.search(r'(?<![=!<>])=(?!=)', t):
        return True
    for m in re.finditer(r'([A-Za-z_]\w*)\s*\(', t):
        if m.group(1) not in PURE_CALLS:
            return True
    return False


def stuck_exits(loop):
    """Back edges of the loop (`continue` statements, or the end of the body: reported as the loop itself) that are
    reachable from the top of the loop body along a path on which *no* statement or branch condition has any side
    effect.  With a side-effect free loop condition such a path repeats forever, so this is an exact
    non-termination witness.  Structured fragment: lists, blocks, if/else, switch arms with fall-through and break;
    nested loops and goto are treated as having an effect."""
    bad = []

    def run(stmts, a):
        """-> (flags possible at normal completion, flags possible at a `break` leaving the enclosing construct);
        flag True = some effect happened on the path."""
        states, brk = {a}, set()
        for st in stmts:
            if not states:
                break
            nxt = set()
            for x in states:
                n, b = step(st, x)
                nxt |= n
                brk |= b
            states = nxt
        return states, brk

    def step(st, a):
        if st.kind == 'simple':
            if re.match(r'continue\b', st.text):
                if not a and st not in bad:
                    bad.append(st)
                return set(), set()
            if re.match(r'break\b', st.text):
                return set(), {a}
            if TERMINATOR.match(st.text):
                return set(), set()
            return {a or has_effect(st.text)}, set()
        if st.kind == 'block':
            return run(st.body, a)
        if st.kind == 'if':
            a2 = a or has_effect(st.text)
            n1, b1 = run(as_list(st.body), a2)
            n2, b2 = run(as_list(st.orelse), a2) if st.orelse is not None else ({a2}, set())
            return n1 | n2, b1 | b2
        if st.kind == 'switch':
            a2 = a or has_effect(st.text)
            arms = switch_arms(st)
            out = set()
            if not any(arm.default for arm in arms):
                out.add(a2)
            for arm in arms:
                cur = {a2}
                for link in arms[arm.index:]:
                    nxt = set()
                    for x in cur:
                        n, b = run(link.body, x)
                        nxt |= n
                        out |= b
                    cur = nxt
                    if not cur:
                        break
                out |= cur
            return out, set()
        if st.kind in ('while', 'for', 'do'):
            return {True}, set()
        if st.kind in ('case', 'default', 'pp'):
            return {a}, set()
        return {True}, set()

    end, _ = run(as_list(loop.body), False)
    if False in end:
        bad.append(loop)
    return bad
